(* C17 -- Syntax and tracebacks show the source line for line under the right numbers.
   Only property theorems live here; each is closed by `exact`/a one-line wrapper and followed by
   Print Assumptions.  All theorems are relative to the oracle hypothesis LexOk (the token texts of
   the Pygments lexer concatenate to its normalisation of the input under the options passed at the
   call site); the Text.wrap contract of the word_wrap path is DISCHARGED from C02's theorems
   (C17_wrap_contract), it is no longer a hypothesis.
   `current_facts` are the call-site facts regenerated from /repo on every run (gen/SyntaxFacts.v). *)
From RichModel Require Import Prelude Cells Syntax SpecSyntax SyntaxWrap SyntaxTb.
From RichGen Require SyntaxFacts.
From RichProofs Require Import SyntaxP SyntaxP2 SyntaxW SyntaxG SyntaxP3 SyntaxP4 SyntaxP5 SyntaxP6.

(* Tie 1: today's /repo passes stripnl=False/ensurenl=True to get_lexer_by_name, guards the skip
   loop of tokens_to_spans, skips the indent-guide pass on an empty selection; and the Syntax(...)
   call of Traceback._render_stack has the keyword values the frame theorem is about.
   (On rich 9.10.0 as found this does not hold -- see the refutations below -- and the check reports it.) *)
Example C17_tree_facts : current_facts = fixed_facts.
Proof. reflexivity. Qed.
Example C17_traceback_call_site :
  SyntaxFacts.tb_line_numbers = true /\ SyntaxFacts.tb_range_is_lineno_pm_extra = true /\
  SyntaxFacts.tb_highlight_is_lineno = true /\ SyntaxFacts.tb_code_width = 88 /\
  SyntaxFacts.syntax_default_start_line = 1 /\ SyntaxFacts.tb_dedent_off = true.
Proof. repeat split; reflexivity. Qed.

Section C17.
Variable lex : str -> list (Z * str).            (* the Pygments lexer: an oracle *)
Hypothesis LexOk_ : LexOk (f_lex current_facts) lex.

Lemma lexok_fixed : LexOk (f_lex fixed_facts) lex.
Proof. exact LexOk_. Qed.

(* The word-wrapping function is C02's model of Text.wrap (RichModel.Wrap) through the adapter
   SyntaxWrap.wrapf_text; its contract is no longer a hypothesis: it follows from C02's theorems
   wrap_keeps_nonspace_all (C02_wrap_keeps_nonspace) and wrap_fits_all (C02_wrap_fits). *)
Theorem C17_wrap_contract : WrapOk wrapf_text.
Proof. exact wrapf_text_ok. Qed.

(* Domain of all theorems below (opts_ok): start_line >= 0, range end >= 0, code width >= 0 (>= 2
   when word_wrap), tab_size >= 1 when indent_guides; any lexer (found or not), range, highlight
   set, theme; sources over the clean alphabet (no CR/BOM/BEL/BS/VT/FF). *)

(* (1) the de-guttered output lines are the (range-clipped) lines of the tab-expanded source, in
   order, blank lines at the very end aside -- with or without line numbers, with or without indent
   guides (a guide character only on an ASCII space of the indentation, or on a blank line), cropped
   or word-wrapped *)
Theorem C17_syntax_lines : forall o code W,
  clean code = true -> opts_ok o (code_width_of o code W) ->
  exists out, render lex current_facts wrapf_text o code W = Ok out /\ lines_match_b o code W out = true.
Proof.
  intros o code W Hc Hok. destruct (o_line_numbers o) eqn:Eln.
  - exact (syntax_lines lex wrapf_text lexok_fixed wrapf_text_ok o code W Hc Eln Hok).
  - exact (render_plain_spec lex wrapf_text lexok_fixed wrapf_text_ok o code W false false Hc Eln Hok).
Qed.

(* (2) each displayed number is the index of that line in the source counted from start_line; the
   gutter column (width computed from the newline count of the source) is never overflowed *)
Theorem C17_numbers_right : forall o code W,
  clean code = true -> o_line_numbers o = true -> opts_ok o (code_width_of o code W) ->
  exists out, render lex current_facts wrapf_text o code W = Ok out /\ numbers_ok_b o code W out = true.
Proof. exact (numbers_right lex wrapf_text lexok_fixed wrapf_text_ok). Qed.

(* (3) a line range selects exactly those lines, clipped to the lines that exist (never raises) *)
Theorem C17_range_exact : forall o code W,
  clean code = true -> o_line_numbers o = true -> opts_ok o (code_width_of o code W) ->
  exists out, render lex current_facts wrapf_text o code W = Ok out /\ range_ok_b o code W out = true.
Proof. exact (range_exact lex wrapf_text lexok_fixed wrapf_text_ok). Qed.

(* (1)-(3) together with: the pointer marks exactly the lines of highlight_lines -- every path *)
Theorem C17_render_ok : forall o code W,
  clean code = true -> opts_ok o (code_width_of o code W) ->
  exists out, render lex current_facts wrapf_text o code W = Ok out /\ render_ok_b o code W out = true.
Proof.
  intros o code W Hc Hok. destruct (o_line_numbers o) eqn:Eln.
  - exact (render_numbered_spec lex wrapf_text lexok_fixed wrapf_text_ok o code W Hc Eln Hok).
  - exact (render_plain_spec lex wrapf_text lexok_fixed wrapf_text_ok o code W true true Hc Eln Hok).
Qed.

(* (4) highlighting never changes a character *)
Theorem C17_highlight_keeps_chars : forall code, clean code = true ->
  exists t, highlight lex current_facts true code None = Ok t /\ highlight_ok_b code t false = true.
Proof. exact (highlight_keeps_chars lex lexok_fixed). Qed.
Theorem C17_highlight_keeps_chars_ranged : forall code a e, clean code = true ->
  exists t m, highlight lex current_facts true code (Some (a, e)) = Ok t /\ e <= Z.of_nat m /\
              remove_suffix_nl t = remove_suffix_nl (take_lines code m).
Proof. exact (highlight_keeps_chars_ranged lex lexok_fixed). Qed.

(* (5) a traceback frame (the Syntax(...) call of Traceback._render_stack with the keyword values of
   today's /repo), indent guides on or off, wrapped or not: the code block is lines
   lineno-extra..lineno+extra clipped to the file, each under its own number, the pointer exactly on
   the line numbered lineno ... *)
Theorem C17_traceback_frame_ok : forall code lineno extra ww transparent guides W,
  clean code = true -> 0 <= extra -> 1 <= lineno ->
  let o := tb_opts lineno extra ww transparent guides in
  exists out, render_frame lex current_facts wrapf_text code lineno extra ww transparent guides W = Ok out /\
              render_ok_b o code W out = true /\
              o_highlight o = [lineno] /\ o_range o = Some (lineno - extra, lineno + extra).
Proof.
  intros code lineno extra ww transparent guides W Hc He Hl.
  apply (traceback_frame_ok lex wrapf_text lexok_fixed wrapf_text_ok true); try assumption; try reflexivity; vm_compute; discriminate.
Qed.

(* ... and, whatever the file's leading blank lines or length, the source line at the frame's line
   number (a statement, so not blank) IS displayed, alone carries the pointer, under the number
   lineno -- indent guides (Traceback's default) on or off -- in a panel wide enough for the
   88-column code block (non-wrapping traceback) *)
Theorem C17_traceback_marks_failing_line : forall code lineno extra transparent guides W avail e,
  clean code = true -> 0 <= extra -> 1 <= lineno ->
  let o := tb_opts lineno extra false transparent guides in
  nth_error (source_lines o code) (Z.to_nat (lineno - 1)) = Some e -> blank e = false ->
  SyntaxFacts.tb_code_width + spec_gutter_width o code <= avail ->
  exists out, render_frame lex current_facts wrapf_text code lineno extra false transparent guides W = Ok out /\
              failing_line_b code lineno avail guides out = true.
Proof.
  intros code lineno extra transparent guides W avail e Hc He Hl.
  apply (traceback_marks_failing_line lex wrapf_text true code lineno extra transparent guides W avail e lexok_fixed Hc He Hl);
    try reflexivity; vm_compute; discriminate.
Qed.
(* (6) Traceback.extract + Traceback._render_stack, every frame of a stack.  Frames are data (the
   entries of the traceback object: co_filename, tb_lineno, co_name); `read` is the content of a file
   AT RENDER TIME (None = unreadable), an oracle evaluated per render; `lexsel` is what _guess_lexer +
   get_lexer_by_name make of (file name, code).  For every frame, in order: a "<...>" pseudo file
   shows its header only; an unreadable file (or a failing lexer guess) shows the error text; any
   other frame shows a code block that is right for the content `read` returns NOW -- lines
   lineno-extra..lineno+extra of that content under their own numbers, pointer exactly on lineno, and
   (non-wrapping) the failing line itself displayed when it exists there and is not blank.  The
   code_cache local to one render is transparent; nothing survives from one render to the next. *)
Theorem C17_traceback_stack_ok : forall (read : str -> option str)
    (lexsel : str -> str -> option (bool * (str -> list (Z * str)))) extra ww transparent guides W frames,
  (forall f code, read f = Some code -> clean code = true) ->
  (forall f code found lx, lexsel f code = Some (found, lx) -> LexOk (f_lex current_facts) lx) ->
  0 <= extra -> Forall (fun fr => 1 <= fr_lineno fr) frames ->
  exists out, render_stack read lexsel current_facts wrapf_text extra ww transparent guides W frames = Ok out /\
              Forall2 (frame_shows read lexsel extra ww transparent guides W) frames out.
Proof.
  intros read lexsel extra ww transparent guides W frames Hcl Hlx He Hfr.
  apply (render_stack_ok read lexsel wrapf_text extra ww transparent guides W wrapf_text_ok Hcl Hlx He);
    try reflexivity; try exact Hfr; vm_compute; discriminate.
Qed.

(* Traceback.extract: the frame's line number is the traceback entry's (tb_lineno), its name the code
   object's; relative file names are joined to the import-time cwd *)
Theorem C17_extract_keeps_lineno : forall cwd e,
  fr_lineno (extract_frame cwd e) = te_lineno e /\ fr_name (extract_frame cwd e) = te_name e.
Proof. exact extract_frame_lineno. Qed.
End C17.

Print Assumptions C17_wrap_contract.
Print Assumptions C17_syntax_lines.
Print Assumptions C17_numbers_right.
Print Assumptions C17_range_exact.
Print Assumptions C17_render_ok.
Print Assumptions C17_highlight_keeps_chars.
Print Assumptions C17_highlight_keeps_chars_ranged.
Print Assumptions C17_traceback_frame_ok.
Print Assumptions C17_traceback_marks_failing_line.
Print Assumptions C17_traceback_stack_ok.
Print Assumptions C17_extract_keeps_lineno.

(* the hypotheses are satisfiable on non-trivial inputs: a lexer meeting LexOk, the model's own
   wrap function on a sample, and a source with leading/trailing blank lines *)
Example C17_lexok_nonvacuous : LexOk (f_lex current_facts) (one_token_lexer (f_lex current_facts)).
Proof. exact (one_token_lexer_ok _). Qed.
Example C17_render_nonvacuous :
  exists out, render (one_token_lexer (f_lex fixed_facts)) fixed_facts wrap_fit (numbered_opts None) d7_code 20 = Ok out /\
              render_ok_b (numbered_opts None) d7_code 20 out = true /\ length out = 3%nat.
Proof. exact syntax_lines_fixed_d7. Qed.
Example C17_wrap_contract_nonvacuous :
  wrap_ok_b (lit "aaaa bbbb cccc dddd") 8 (wrap_fit (lit "aaaa bbbb cccc dddd") 8 true) = true
  /\ length (wrap_fit (lit "aaaa bbbb cccc dddd") 8 true) = 4%nat.
Proof. vm_compute. split; reflexivity. Qed.
(* indent guides, word wrap through C02's Text.wrap model, an ideographic-space indented line:
   "if x:\n    yy = 1\n\n    \u3000z\n" at code width 6 *)
Definition guides_code : str :=
  [105; 102; 32; 120; 58; 10; 32; 32; 32; 32; 121; 121; 32; 61; 32; 49; 10; 10; 32; 32; 32; 32; 12288; 122; 10].
Definition guides_ww_opts : opts := mkOpts true true 1 None [2] true (Some 6) 4 false true.
Example C17_guides_wrap_nonvacuous :
  exists out, render (one_token_lexer (f_lex fixed_facts)) fixed_facts wrapf_text guides_ww_opts guides_code 30 = Ok out /\
              render_ok_b guides_ww_opts guides_code 30 out = true /\ length out = 6%nat /\
              existsb (existsb (fun c => c =? GUIDE)) out = true.
Proof. eexists. split; [vm_compute; reflexivity|]. repeat split; vm_compute; reflexivity. Qed.
Definition plain_opts : opts := mkOpts true false 1 (Some (1, 2)) [] false None 4 true false.
Example C17_plain_nonvacuous :
  exists out, render (one_token_lexer (f_lex fixed_facts)) fixed_facts wrapf_text plain_opts guides_code 12 = Ok out /\
              lines_match_b plain_opts guides_code 12 out = true /\ length out = 2%nat.
Proof. eexists. split; [vm_compute; reflexivity|]. split; vm_compute; reflexivity. Qed.

(* the same path read twice with different contents (the file was rewritten between two renders): each
   render shows the lines of ITS content; plus a pseudo file and an unreadable file *)
Definition tb_code2 : str :=   (* "x = 1\nraise Y\n" *)
  [120; 32; 61; 32; 49; 10; 114; 97; 105; 115; 101; 32; 89; 10].
Definition path_m : str := lit "/T/m.py".
Definition read_then (content : str) : str -> option str := fun f => if str_eqb f path_m then Some content else None.
Definition lexsel1 : str -> str -> option (bool * (str -> list (Z * str))) :=
  fun _ _ => Some (true, one_token_lexer (f_lex fixed_facts)).
Definition frames1 := [mkFrame path_m 4 (lit "f"); mkFrame (lit "<string>") 1 []; mkFrame (lit "/T/gone.py") 3 []].
Example C17_stack_rewritten_path_nonvacuous :
  (exists b1 b3, render_stack (read_then tb_code) lexsel1 fixed_facts wrapf_text 0 false true false 100 frames1
     = Ok [(mkFrame path_m 4 (lit "f"), BCode [b1]); (mkFrame (lit "<string>") 1 [], BSkipped); (mkFrame (lit "/T/gone.py") 3 [], b3)]
     /\ rstrip_sp b1 = POINTER ++ lit "4 raise X" /\ b3 = BError)
  /\ (exists b1, render_stack (read_then tb_code2) lexsel1 fixed_facts wrapf_text 0 false true false 100 [mkFrame path_m 2 (lit "g")]
     = Ok [(mkFrame path_m 2 (lit "g"), BCode [b1])] /\ rstrip_sp b1 = POINTER ++ lit "2 raise Y").
Proof. split; [eexists _, _|eexists]; (split; [vm_compute; reflexivity|]); repeat split; vm_compute; reflexivity. Qed.

Example C17_traceback_nonvacuous :
  exists out, render_frame (one_token_lexer (f_lex fixed_facts)) fixed_facts wrap_fit tb_code 4 3 false true false 100 = Ok out /\
              failing_line_b tb_code 4 96 false out = true.
Proof. exact traceback_fixed. Qed.

(* ---- rich 9.10.0 as found (stripnl defaulting to True, unguarded next(tokens), indent guides on an
   empty selection) violates the property; each witness fails on the implementation too ---- *)
Theorem C17_syntax_lines_asis_refuted :
  exists out, render (one_token_lexer (f_lex asis_facts)) asis_facts wrap_fit (numbered_opts None) d7_code 20 = Ok out /\
              lines_match_b (numbered_opts None) d7_code 20 out = false /\ out = [lit "  1 x = 1           "].
Proof. exact syntax_lines_asis_refuted. Qed.
Print Assumptions C17_syntax_lines_asis_refuted.

Theorem C17_range_beyond_asis_refuted :
  render (one_token_lexer (f_lex asis_facts)) asis_facts wrap_fit (numbered_opts (Some (5, 6))) short_code 20 = Crash K_Other.
Proof. exact range_beyond_asis_refuted. Qed.
Print Assumptions C17_range_beyond_asis_refuted.

Theorem C17_guides_empty_range_asis_refuted :
  exists out, render (one_token_lexer (f_lex asis_facts)) asis_facts wrap_fit guides_opts [] 20 = Ok out /\
              range_ok_b guides_opts [] 20 out = false.
Proof. exact guides_empty_range_asis_refuted. Qed.
Print Assumptions C17_guides_empty_range_asis_refuted.

Theorem C17_traceback_asis_refuted :
  exists out, render_frame (one_token_lexer (f_lex asis_facts)) asis_facts wrap_fit tb_code 4 3 false true false 100 = Ok out /\
              failing_line_b tb_code 4 96 false out = false.
Proof. exact traceback_asis_refuted. Qed.
Print Assumptions C17_traceback_asis_refuted.
