(* C17 -- Syntax and tracebacks show the source line for line under the right numbers.
   Only property theorems live here; each is closed by `exact`/a one-line wrapper and followed by
   Print Assumptions.  All theorems are relative to the oracle hypothesis LexOk (the token texts of
   the Pygments lexer concatenate to its normalisation of the input under the options passed at the
   call site) and, on the word_wrap path, to the Text.wrap contract WrapOk (property C02).
   `current_facts` are the call-site facts regenerated from /repo on every run (gen/SyntaxFacts.v). *)
From RichModel Require Import Prelude Cells Syntax SpecSyntax.
From RichGen Require SyntaxFacts.
From RichProofs Require Import SyntaxP SyntaxP2 SyntaxP3 SyntaxP4.

(* Tie 1: today's /repo passes stripnl=False/ensurenl=True to get_lexer_by_name, guards the skip
   loop of tokens_to_spans, skips the indent-guide pass on an empty selection; and the Syntax(...)
   call of Traceback._render_stack has the keyword values the frame theorem is about.
   (On rich 9.10.0 as found this does not hold -- see the refutations below -- and the check reports it.) *)
Example C17_tree_facts : current_facts = fixed_facts.
Proof. reflexivity. Qed.
Example C17_traceback_call_site :
  SyntaxFacts.tb_line_numbers = true /\ SyntaxFacts.tb_range_is_lineno_pm_extra = true /\
  SyntaxFacts.tb_highlight_is_lineno = true /\ SyntaxFacts.tb_code_width = 88 /\
  SyntaxFacts.syntax_default_start_line = 1 /\ SyntaxFacts.tb_dedent_off = true.
Proof. repeat split; reflexivity. Qed.

Section C17.
Variable lex : str -> list (Z * str).            (* the Pygments lexer *)
Variable wrapf : str -> Z -> bool -> list str.   (* Text.wrap + truncate of one line *)
Hypothesis LexOk_ : LexOk (f_lex current_facts) lex.
Hypothesis WrapOk_ : WrapOk wrapf.

Lemma lexok_fixed : LexOk (f_lex fixed_facts) lex.
Proof. exact LexOk_. Qed.

(* (1) the de-guttered output lines are the range-clipped lines of the tab-expanded source, in
   order (blank lines at the very end aside), for every source over the clean alphabet, every
   start_line >= 0, every range with end >= 0, highlight set, wrap mode, code width >= 0, tab size *)
Theorem C17_syntax_lines : forall o code W,
  clean code = true -> o_line_numbers o = true -> o_indent_guides o = false ->
  0 <= o_start_line o -> range_end_nonneg o -> 0 <= code_width_of o code W ->
  exists out, render lex current_facts wrapf o code W = Ok out /\ lines_match_b o code W out = true.
Proof. exact (syntax_lines lex wrapf lexok_fixed WrapOk_). Qed.

(* (2) each displayed number is the index of that line in the source counted from start_line; the
   gutter column (width computed from the newline count of the source) is never overflowed *)
Theorem C17_numbers_right : forall o code W,
  clean code = true -> o_line_numbers o = true -> o_indent_guides o = false ->
  0 <= o_start_line o -> range_end_nonneg o -> 0 <= code_width_of o code W ->
  exists out, render lex current_facts wrapf o code W = Ok out /\ numbers_ok_b o code W out = true.
Proof. exact (numbers_right lex wrapf lexok_fixed WrapOk_). Qed.

(* (3) a line range selects exactly those lines, clipped to the lines that exist (never raises) *)
Theorem C17_range_exact : forall o code W,
  clean code = true -> o_line_numbers o = true -> o_indent_guides o = false ->
  0 <= o_start_line o -> range_end_nonneg o -> 0 <= code_width_of o code W ->
  exists out, render lex current_facts wrapf o code W = Ok out /\ range_ok_b o code W out = true.
Proof. exact (range_exact lex wrapf lexok_fixed WrapOk_). Qed.

(* (3') the pointer marks exactly the lines of highlight_lines; together with (1)-(3): *)
Theorem C17_render_ok : forall o code W,
  clean code = true -> o_line_numbers o = true -> o_indent_guides o = false ->
  0 <= o_start_line o -> range_end_nonneg o -> 0 <= code_width_of o code W ->
  exists out, render lex current_facts wrapf o code W = Ok out /\ render_ok_b o code W out = true.
Proof. exact (render_numbered_spec lex wrapf lexok_fixed WrapOk_). Qed.

(* (4) highlighting never changes a character *)
Theorem C17_highlight_keeps_chars : forall code, clean code = true ->
  exists t, highlight lex current_facts true code None = Ok t /\ highlight_ok_b code t false = true.
Proof. exact (highlight_keeps_chars lex lexok_fixed). Qed.
Theorem C17_highlight_keeps_chars_ranged : forall code a e, clean code = true ->
  exists t m, highlight lex current_facts true code (Some (a, e)) = Ok t /\ e <= Z.of_nat m /\
              remove_suffix_nl t = remove_suffix_nl (take_lines code m).
Proof. exact (highlight_keeps_chars_ranged lex lexok_fixed). Qed.

(* (5) a traceback frame (the Syntax(...) call of Traceback._render_stack with the keyword values of
   today's /repo): the code block is lines lineno-extra..lineno+extra clipped to the file, each under
   its own number, the pointer exactly on the line numbered lineno ... *)
Theorem C17_traceback_frame_ok : forall code lineno extra ww transparent W,
  clean code = true -> 0 <= extra -> 1 <= lineno ->
  let o := tb_opts lineno extra ww transparent false in
  exists out, render_frame lex current_facts wrapf code lineno extra ww transparent false W = Ok out /\
              render_ok_b o code W out = true /\
              o_highlight o = [lineno] /\ o_range o = Some (lineno - extra, lineno + extra).
Proof.
  intros code lineno extra ww transparent W Hc He Hl.
  apply (traceback_frame_ok lex wrapf lexok_fixed WrapOk_); try assumption; try reflexivity; vm_compute; discriminate.
Qed.

(* ... and, whatever the file's leading blank lines or length, the source line at the frame's line
   number (a statement, so not blank) IS displayed, alone carries the pointer, under the number
   lineno, in a panel wide enough for the 88-column code block (non-wrapping traceback) *)
Theorem C17_traceback_marks_failing_line : forall code lineno extra transparent W avail e,
  clean code = true -> 0 <= extra -> 1 <= lineno ->
  let o := tb_opts lineno extra false transparent false in
  nth_error (source_lines o code) (Z.to_nat (lineno - 1)) = Some e -> blank e = false ->
  SyntaxFacts.tb_code_width + spec_gutter_width o code <= avail ->
  exists out, render_frame lex current_facts wrapf code lineno extra false transparent false W = Ok out /\
              failing_line_b code lineno avail false out = true.
Proof.
  intros code lineno extra transparent W avail e Hc He Hl.
  apply (traceback_marks_failing_line lex wrapf code lineno extra transparent W avail e lexok_fixed Hc He Hl);
    try reflexivity; vm_compute; discriminate.
Qed.
End C17.

Print Assumptions C17_syntax_lines.
Print Assumptions C17_numbers_right.
Print Assumptions C17_range_exact.
Print Assumptions C17_render_ok.
Print Assumptions C17_highlight_keeps_chars.
Print Assumptions C17_highlight_keeps_chars_ranged.
Print Assumptions C17_traceback_frame_ok.
Print Assumptions C17_traceback_marks_failing_line.

(* the hypotheses are satisfiable on non-trivial inputs: a lexer meeting LexOk, the model's own
   wrap function on a sample, and a source with leading/trailing blank lines *)
Example C17_lexok_nonvacuous : LexOk (f_lex current_facts) (one_token_lexer (f_lex current_facts)).
Proof. exact (one_token_lexer_ok _). Qed.
Example C17_render_nonvacuous :
  exists out, render (one_token_lexer (f_lex fixed_facts)) fixed_facts wrap_fit (numbered_opts None) d7_code 20 = Ok out /\
              render_ok_b (numbered_opts None) d7_code 20 out = true /\ length out = 3%nat.
Proof. exact syntax_lines_fixed_d7. Qed.
Example C17_wrap_contract_nonvacuous :
  wrap_ok_b (lit "aaaa bbbb cccc dddd") 8 (wrap_fit (lit "aaaa bbbb cccc dddd") 8 true) = true
  /\ length (wrap_fit (lit "aaaa bbbb cccc dddd") 8 true) = 4%nat.
Proof. vm_compute. split; reflexivity. Qed.
Example C17_traceback_nonvacuous :
  exists out, render_frame (one_token_lexer (f_lex fixed_facts)) fixed_facts wrap_fit tb_code 4 3 false true false 100 = Ok out /\
              failing_line_b tb_code 4 96 false out = true.
Proof. exact traceback_fixed. Qed.

(* ---- rich 9.10.0 as found (stripnl defaulting to True, unguarded next(tokens), indent guides on an
   empty selection) violates the property; each witness fails on the implementation too ---- *)
Theorem C17_syntax_lines_asis_refuted :
  exists out, render (one_token_lexer (f_lex asis_facts)) asis_facts wrap_fit (numbered_opts None) d7_code 20 = Ok out /\
              lines_match_b (numbered_opts None) d7_code 20 out = false /\ out = [lit "  1 x = 1           "].
Proof. exact syntax_lines_asis_refuted. Qed.
Print Assumptions C17_syntax_lines_asis_refuted.

Theorem C17_range_beyond_asis_refuted :
  render (one_token_lexer (f_lex asis_facts)) asis_facts wrap_fit (numbered_opts (Some (5, 6))) short_code 20 = Crash K_Other.
Proof. exact range_beyond_asis_refuted. Qed.
Print Assumptions C17_range_beyond_asis_refuted.

Theorem C17_guides_empty_range_asis_refuted :
  exists out, render (one_token_lexer (f_lex asis_facts)) asis_facts wrap_fit guides_opts [] 20 = Ok out /\
              range_ok_b guides_opts [] 20 out = false.
Proof. exact guides_empty_range_asis_refuted. Qed.
Print Assumptions C17_guides_empty_range_asis_refuted.

Theorem C17_traceback_asis_refuted :
  exists out, render_frame (one_token_lexer (f_lex asis_facts)) asis_facts wrap_fit tb_code 4 3 false true false 100 = Ok out /\
              failing_line_b tb_code 4 96 false out = false.
Proof. exact traceback_asis_refuted. Qed.
Print Assumptions C17_traceback_asis_refuted.
