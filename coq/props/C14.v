(* C14 -- No input makes the pipeline fail with an undocumented error.
   A theorem schema over the models of the other layers: every public entry point, as a `res`-valued
   function (model/Total.v), never answers `Crash _`, and answers only its documented errors.
   Only property theorems live here; each is closed by `exact` and followed by Print Assumptions. *)
From RichModel Require Import Prelude Color Style Total SpecTotal.
From RichModel Require Markup AnsiDecode Frames TextOps.
From RichModel Require Wrap Layout.
From RichModel Require Table.
From RichProofs Require Import TotalP TotalP2 TotalP3 TotalP4 TotalP5 TotalP6 TotalP7 TotalP8 LayoutP2.

(* (1) Color.parse: every string; ColorParseError or a colour *)
Theorem C14_color_parse_total : forall s,
  (forall k, color_parse s <> Crash k)
  /\ ((exists c, color_parse s = Ok c) \/ color_parse s = Doc E_ColorParseError)
  /\ documented_b OP_color (code_of (color_parse s)) = true.
Proof. intros s. split; [exact (color_parse_total s)|split; [exact (color_parse_outcomes s)|exact (color_parse_documented s)]]. Qed.
Print Assumptions C14_color_parse_total.

Example C14_color_parse_nonvacuous :
  code_of (color_parse (lit "rgb(,,)")) = c_doc E_ColorParseError
  /\ code_of (color_parse (lit "rgb(1 2,3,4)")) = c_doc E_ColorParseError
  /\ code_of (color_parse [114; 103; 98; 40; 178; 44; 49; 44; 49; 41]) = c_doc E_ColorParseError
  /\ code_of (color_parse [114; 103; 98; 40; 1635; 44; 65299; 44; 49; 41]) = 0
  /\ code_of (color_parse (lit "color(255)")) = 0 /\ code_of (color_parse (lit "color(256)")) = c_doc E_ColorParseError.
Proof. vm_compute. repeat split. Qed.

(* the code as found (before the D9 repair committed in /repo) let ValueError out *)
Theorem C14_color_parse_asis_refuted : exists s, Color.parse false s = Crash K_ValueError.
Proof. exists (lit "rgb(,,)"). vm_compute. reflexivity. Qed.

(* (2) Style.parse: every string; StyleSyntaxError or a style (a ColorParseError never gets out) *)
Theorem C14_style_parse_total : forall d,
  (forall k, style_parse d <> Crash k)
  /\ ((exists s, style_parse d = Ok s) \/ style_parse d = Doc E_StyleSyntaxError)
  /\ documented_b OP_style (code_of (style_parse d)) = true.
Proof. intros d. split; [exact (style_parse_total d)|split; [exact (style_parse_outcomes d)|exact (style_parse_documented d)]]. Qed.
Print Assumptions C14_style_parse_total.

Example C14_style_parse_nonvacuous :
  code_of (style_parse (lit "bold on rgb(,,)")) = c_doc E_StyleSyntaxError
  /\ code_of (style_parse (lit "not")) = c_doc E_StyleSyntaxError
  /\ code_of (style_parse (lit "bold red on color(3) link x")) = 0.
Proof. vm_compute. repeat split. Qed.

(* (3) Style.normalize never raises *)
Theorem C14_style_normalize_total : forall d, exists x, style_normalize d = Ok x.
Proof. exact style_normalize_total. Qed.
Print Assumptions C14_style_normalize_total.

(* (4) markup.render: every string, every emoji oracle, both span-order variants; MarkupError or a Text.
   A StyleSyntaxError inside a tag name is absorbed by normalize's handler.  The entry point is C04's
   model with Style.normalize plugged in. *)
Theorem C14_markup_render_total : forall E asis s,
  (forall k, markup_render E asis s <> Crash k)
  /\ ((exists t, markup_render E asis s = Ok t) \/ markup_render E asis s = Doc E_MarkupError)
  /\ documented_b OP_markup (code_of (markup_render E asis s)) = true
  /\ markup_render E asis s = Markup.render CC norm_fn E asis s
  /\ (forall d, style_normalize d = Ok (norm_fn d)).
Proof.
  intros E asis s. split; [exact (markup_render_total E asis s)|].
  split; [exact (markup_render_outcomes E asis s)|]. split; [exact (markup_render_documented E asis s)|].
  split; [exact (markup_render_is_model E asis s)|exact norm_fn_spec].
Qed.
Print Assumptions C14_markup_render_total.

Example C14_markup_render_nonvacuous :
  code_of (markup_render (fun x => x) false (lit "[rgb(,,)]x[/]")) = 0
  /\ code_of (markup_render (fun x => x) false (lit "[/rgb(,,)]x")) = c_doc E_MarkupError.
Proof. exact markup_bad_style_in_tag. Qed.

(* (5) Console.get_style: every theme, name, default; MissingStyle or a style *)
Theorem C14_get_style_total : forall th n d,
  (forall k, get_style th n d <> Crash k)
  /\ ((exists v, get_style th n d = Ok v) \/ get_style th n d = Doc E_MissingStyle)
  /\ documented_b OP_get_style (code_of (get_style th n d)) = true.
Proof. intros th n d. split; [exact (get_style_total th n d)|split; [exact (get_style_outcomes th n d)|exact (get_style_documented th n d)]]. Qed.
Print Assumptions C14_get_style_total.

Theorem C14_get_style_default_ok : forall th n dn s, style_parse dn = Ok s -> exists v, get_style th n (Some dn) = Ok v.
Proof. exact get_style_default_ok. Qed.
Print Assumptions C14_get_style_default_ok.

Example C14_get_style_nonvacuous :
  code_of (get_style DEFAULT_THEME_NAMES (lit "rgb(,,)") None) = c_doc E_MissingStyle
  /\ code_of (get_style DEFAULT_THEME_NAMES (lit "repr.number") None) = 0
  /\ code_of (get_style DEFAULT_THEME_NAMES (lit "rgb(,,)") (Some (lit "none"))) = 0.
Proof. vm_compute. repeat split. Qed.

(* (6) AnsiDecoder.decode (repaired, D8): C19's decoder_total, cited *)
Theorem C14_decode_total : forall s, exists pss, decode true s = Ok pss.
Proof. exact decode_total. Qed.
Print Assumptions C14_decode_total.

Theorem C14_decode_asis_refuted : exists s, decode false s = Crash K_ValueError.
Proof. exact decode_asis_refuted. Qed.

(* (7) Text(s) and len(Text(s)) *)
Theorem C14_text_ctor_total : forall s, exists t, text_ctor s = Ok (t, zlen (TextOps.strip s)).
Proof. exact text_ctor_total. Qed.
Print Assumptions C14_text_ctor_total.

(* (8) Columns(items, width=cw): D10 *)
Theorem C14_columns_total : forall n cwid pl pr cf W,
  0 <= n -> 1 <= cwid -> 0 <= pl -> 0 <= pr ->
  exists r, columns_fixed_width true n cwid pl pr cf W = Ok r.
Proof. exact columns_fixed_total. Qed.
Print Assumptions C14_columns_total.

Theorem C14_columns_asis_refuted :
  Frames.columns_grid [1; 1; 1] (Some 100) 0 1 false false false 30 = Crash K_ZeroDivisionError
  /\ columns_fixed_width false 3 100 0 1 false 30 = Crash K_ZeroDivisionError
  /\ exists r, columns_fixed_width true 3 100 0 1 false 30 = Ok r.
Proof. exact columns_asis_refuted. Qed.

Theorem C14_columns_asis_is_frames : forall ws cwid pl pr eq cf rtl W,
  code_of (columns_fixed_width false (zlen ws) cwid pl pr cf W)
  = code_of (Frames.columns_grid ws (Some cwid) pl pr eq cf rtl W).
Proof. exact columns_asis_is_frames. Qed.
Print Assumptions C14_columns_asis_is_frames.

(* (9) Console.print(s, markup=False): every string, every width (also W < 1), every emoji oracle E,
   every highlighter oracle hl whose spans lie within the text (validated on the real ReprHighlighter
   for every generated string).  The chain: Text(E s) -> hl -> Text.wrap -> Text("\n").join -> Text.render;
   _render_buffer is a total function on segments. *)
Theorem C14_print_no_markup_total : forall hl E s W,
  (forall p, in_range_b (zlen p) (hl p) = true) ->
  (exists r, print_no_markup hl E s W = Ok r)
  /\ documented_b OP_print (code_of (print_no_markup hl E s W)) = true.
Proof. intros hl E s W H. split; [exact (print_no_markup_total hl E s W H)|exact (print_no_markup_documented hl E s W H)]. Qed.
Print Assumptions C14_print_no_markup_total.

(* the three steps behind it, each unbounded:
   (a) Text.wrap (split, expand_tabs, divide, rstrip_end, truncate; justify default, overflow fold) keeps
       every span inside its line, for every style type and every width >= 1 *)
Theorem C14_wrap_keeps_spans : forall S seqb null add fx (t : Wrap.text S) W,
  Wrap.fix_order fx = true -> okT S t -> 1 <= W ->
  Forall (okT S) (Wrap.wrap S seqb null add fx t W Wrap.J_DEFAULT Wrap.OV_FOLD 8 false).
Proof. exact wrap_range. Qed.
Print Assumptions C14_wrap_keeps_spans.

(*  (b) Text("\n").join keeps spans within the text *)
Theorem C14_join_keeps_spans : forall lines, Forall wf lines ->
  exists t, TextOps.join TextOps.FIXED NLT lines = Ok t /\ Good t.
Proof. exact join_nl_good. Qed.
Print Assumptions C14_join_keeps_spans.

(*  (c) Text.render's sorted enter/leave sweep never fails on ANY text whose spans lie within it (every leave
       finds its id on the stack, the style stack is never empty when a segment is emitted) *)
Theorem C14_text_render_total : forall t, Good t -> exists r, TextOps.render t = Ok r.
Proof. exact render_good_total. Qed.
Print Assumptions C14_text_render_total.

(* spans outside the text are what makes the sweep fail: the hypothesis on hl is needed *)
Example C14_print_nonvacuous :
  code_of (print_no_markup (fun p => [(0, 2, 7); (1, 3, 8)]) (fun s => s) (lit "abc def") 3) = 0
  /\ code_of (render_text (lit "ab") [(1, 5, 7)] 10) = 0
  /\ code_of (render_text (lit "ab") [(3, 5, 7)] 10) = 100 + K_Other
  /\ code_of (render_text (lit "ab") [(2, 1, 7)] 10) = 100 + K_ValueError.
Proof. exact print_no_markup_nonvacuous. Qed.

(* (10) rendering and measuring renderable trees (Layout.render / Layout.measure of C01/C09): EVERY tree of
   Text, Padding, Panel, Align, Constrain, Styled, RenderGroup, Rule, Bar, ProgressBar, Table, Columns, Tree,
   objects without __rich_measure__ and __rich__ casts, nested to any depth, at EVERY width (W < 1 and widths
   far below the structural minimum included), every console width and inherited options.
   Option domain `valid`: no condition at all except on tables -- non-negative padding, at least one column,
   columns without fixed width / min_width / no_wrap, max_width >= 1, ratio >= 1 (Table(width=) and
   Table(min_width=) are inside).  Outside it (Column(width=, min_width=, no_wrap=True)) the outcome classes are
   compared on generated trees at every width 1..200; missing there: calc_widths_x_total / _bound for columns
   that are not col_free (measure_column >= 0 and the stage lemmas of LayoutP10 assume col_free). *)
Theorem C14_render_total : forall cf r W, valid r = true -> exists ls, render cf r W = Ok ls.
Proof. exact render_total. Qed.
Print Assumptions C14_render_total.

Theorem C14_measure_total : forall cf r W, valid r = true -> exists m, measure cf r W = Ok m.
Proof. exact measure_total. Qed.
Print Assumptions C14_measure_total.

Example C14_render_nonvacuous :
  valid ex_tree = true /\ simple ex_tree = false
  /\ code_of (render (Layout.mkCfg 1 true) ex_tree 1) = 0 /\ code_of (measure (Layout.mkCfg 1 true) ex_tree 1) = 0.
Proof. exact render_total_nonvacuous. Qed.

(* the pieces: the table solver never fails at ANY budget (ratio kernels under their guards, collapse
   terminates, re-measure, padding), for both variants `fm` of the flexible minimum of ratio columns
   (fm = false: rich 9.10.0; fm = true: fixes/C07_ratio_column_minimum.diff), any table min_width, and every width
   it answers is >= 1 (cites C01's LayoutP10.calc_widths_x_total / calc_widths_x_bound) ... *)
Theorem C14_calc_widths_total : forall fm o cols M,
  cols <> [] -> Forall col_free cols -> pad_ok o ->
  exists ws, Table.calc_widths_x fm false false o cols M = Ok ws /\ length ws = length cols /\ Forall (fun w => 1 <= w) ws.
Proof. exact calc_widths_x_total_spec. Qed.
Print Assumptions C14_calc_widths_total.

(* ... the Columns width search `while column_count > 1` terminates within its fuel with a count >= 1 and the
   grid is built, for ANY measured widths not exceeding the console width ... *)
Theorem C14_columns_grid_total : forall ws pl pr eq cf rtl W, 0 <= W -> Forall (fun w => w <= W) ws ->
  exists g, Frames.columns_grid ws None pl pr eq cf rtl W = Ok g.
Proof. exact columns_grid_total. Qed.
Print Assumptions C14_columns_grid_total.

(* ... and Columns(width=cw) of (8) is C08's columns_grid_fixed, class for class (Tree: C08_tree_dfs_prefix) *)
Theorem C14_columns_fixed_is_frames : forall ws cwid pl pr eq cf rtl W,
  code_of (columns_fixed_width true (zlen ws) cwid pl pr cf W)
  = code_of (Frames.columns_grid_fixed ws (Some cwid) pl pr eq cf rtl W).
Proof. exact columns_fixed_is_frames. Qed.
Print Assumptions C14_columns_fixed_is_frames.
