(* C14 -- No input makes the pipeline fail with an undocumented error.
   A theorem schema over the models of the other layers: every public entry point, as a `res`-valued
   function (model/Total.v), never answers `Crash _`, and answers only its documented errors.
   Only property theorems live here; each is closed by `exact` and followed by Print Assumptions. *)
From RichModel Require Import Prelude Color Style Total SpecTotal.
From RichModel Require Markup AnsiDecode Frames TextOps.
From RichModel Require Wrap Layout.
From RichProofs Require Import TotalP TotalP2 TotalP3 TotalP4 TotalP5.

(* (1) Color.parse: every string; ColorParseError or a colour *)
Theorem C14_color_parse_total : forall s,
  (forall k, color_parse s <> Crash k)
  /\ ((exists c, color_parse s = Ok c) \/ color_parse s = Doc E_ColorParseError)
  /\ documented_b OP_color (code_of (color_parse s)) = true.
Proof. intros s. split; [exact (color_parse_total s)|split; [exact (color_parse_outcomes s)|exact (color_parse_documented s)]]. Qed.
Print Assumptions C14_color_parse_total.

Example C14_color_parse_nonvacuous :
  code_of (color_parse (lit "rgb(,,)")) = c_doc E_ColorParseError
  /\ code_of (color_parse (lit "rgb(1 2,3,4)")) = c_doc E_ColorParseError
  /\ code_of (color_parse [114; 103; 98; 40; 178; 44; 49; 44; 49; 41]) = c_doc E_ColorParseError
  /\ code_of (color_parse [114; 103; 98; 40; 1635; 44; 65299; 44; 49; 41]) = 0
  /\ code_of (color_parse (lit "color(255)")) = 0 /\ code_of (color_parse (lit "color(256)")) = c_doc E_ColorParseError.
Proof. vm_compute. repeat split. Qed.

(* the code as found (before the D9 repair committed in /repo) let ValueError out *)
Theorem C14_color_parse_asis_refuted : exists s, Color.parse false s = Crash K_ValueError.
Proof. exists (lit "rgb(,,)"). vm_compute. reflexivity. Qed.

(* (2) Style.parse: every string; StyleSyntaxError or a style (a ColorParseError never gets out) *)
Theorem C14_style_parse_total : forall d,
  (forall k, style_parse d <> Crash k)
  /\ ((exists s, style_parse d = Ok s) \/ style_parse d = Doc E_StyleSyntaxError)
  /\ documented_b OP_style (code_of (style_parse d)) = true.
Proof. intros d. split; [exact (style_parse_total d)|split; [exact (style_parse_outcomes d)|exact (style_parse_documented d)]]. Qed.
Print Assumptions C14_style_parse_total.

Example C14_style_parse_nonvacuous :
  code_of (style_parse (lit "bold on rgb(,,)")) = c_doc E_StyleSyntaxError
  /\ code_of (style_parse (lit "not")) = c_doc E_StyleSyntaxError
  /\ code_of (style_parse (lit "bold red on color(3) link x")) = 0.
Proof. vm_compute. repeat split. Qed.

(* (3) Style.normalize never raises *)
Theorem C14_style_normalize_total : forall d, exists x, style_normalize d = Ok x.
Proof. exact style_normalize_total. Qed.
Print Assumptions C14_style_normalize_total.

(* (4) markup.render: every string, every emoji oracle, both span-order variants; MarkupError or a Text.
   A StyleSyntaxError inside a tag name is absorbed by normalize's handler.  The entry point is C04's
   model with Style.normalize plugged in. *)
Theorem C14_markup_render_total : forall E asis s,
  (forall k, markup_render E asis s <> Crash k)
  /\ ((exists t, markup_render E asis s = Ok t) \/ markup_render E asis s = Doc E_MarkupError)
  /\ documented_b OP_markup (code_of (markup_render E asis s)) = true
  /\ markup_render E asis s = Markup.render CC norm_fn E asis s
  /\ (forall d, style_normalize d = Ok (norm_fn d)).
Proof.
  intros E asis s. split; [exact (markup_render_total E asis s)|].
  split; [exact (markup_render_outcomes E asis s)|]. split; [exact (markup_render_documented E asis s)|].
  split; [exact (markup_render_is_model E asis s)|exact norm_fn_spec].
Qed.
Print Assumptions C14_markup_render_total.

Example C14_markup_render_nonvacuous :
  code_of (markup_render (fun x => x) false (lit "[rgb(,,)]x[/]")) = 0
  /\ code_of (markup_render (fun x => x) false (lit "[/rgb(,,)]x")) = c_doc E_MarkupError.
Proof. exact markup_bad_style_in_tag. Qed.

(* (5) Console.get_style: every theme, name, default; MissingStyle or a style *)
Theorem C14_get_style_total : forall th n d,
  (forall k, get_style th n d <> Crash k)
  /\ ((exists v, get_style th n d = Ok v) \/ get_style th n d = Doc E_MissingStyle)
  /\ documented_b OP_get_style (code_of (get_style th n d)) = true.
Proof. intros th n d. split; [exact (get_style_total th n d)|split; [exact (get_style_outcomes th n d)|exact (get_style_documented th n d)]]. Qed.
Print Assumptions C14_get_style_total.

Theorem C14_get_style_default_ok : forall th n dn s, style_parse dn = Ok s -> exists v, get_style th n (Some dn) = Ok v.
Proof. exact get_style_default_ok. Qed.
Print Assumptions C14_get_style_default_ok.

Example C14_get_style_nonvacuous :
  code_of (get_style DEFAULT_THEME_NAMES (lit "rgb(,,)") None) = c_doc E_MissingStyle
  /\ code_of (get_style DEFAULT_THEME_NAMES (lit "repr.number") None) = 0
  /\ code_of (get_style DEFAULT_THEME_NAMES (lit "rgb(,,)") (Some (lit "none"))) = 0.
Proof. vm_compute. repeat split. Qed.

(* (6) AnsiDecoder.decode (repaired, D8): C19's decoder_total, cited *)
Theorem C14_decode_total : forall s, exists pss, decode true s = Ok pss.
Proof. exact decode_total. Qed.
Print Assumptions C14_decode_total.

Theorem C14_decode_asis_refuted : exists s, decode false s = Crash K_ValueError.
Proof. exact decode_asis_refuted. Qed.

(* (7) Text(s) and len(Text(s)) *)
Theorem C14_text_ctor_total : forall s, exists t, text_ctor s = Ok (t, zlen (TextOps.strip s)).
Proof. exact text_ctor_total. Qed.
Print Assumptions C14_text_ctor_total.

(* (8) Columns(items, width=cw): D10 *)
Theorem C14_columns_total : forall n cwid pl pr cf W,
  0 <= n -> 1 <= cwid -> 0 <= pl -> 0 <= pr ->
  exists r, columns_fixed_width true n cwid pl pr cf W = Ok r.
Proof. exact columns_fixed_total. Qed.
Print Assumptions C14_columns_total.

Theorem C14_columns_asis_refuted :
  Frames.columns_grid [1; 1; 1] (Some 100) 0 1 false false false 30 = Crash K_ZeroDivisionError
  /\ columns_fixed_width false 3 100 0 1 false 30 = Crash K_ZeroDivisionError
  /\ exists r, columns_fixed_width true 3 100 0 1 false 30 = Ok r.
Proof. exact columns_asis_refuted. Qed.

Theorem C14_columns_asis_is_frames : forall ws cwid pl pr eq cf rtl W,
  code_of (columns_fixed_width false (zlen ws) cwid pl pr cf W)
  = code_of (Frames.columns_grid ws (Some cwid) pl pr eq cf rtl W).
Proof. exact columns_asis_is_frames. Qed.
Print Assumptions C14_columns_asis_is_frames.

(* (9) Console.print(s, markup=False).
   FULL STATEMENT NOT PROVED:
     forall hl E s W, (forall p, in_range_b (zlen p) (hl p) = true) -> 1 <= W ->
       exists r, print_no_markup hl E s W = Ok r
   (hl = the highlighter oracle, spans within the text; E = the emoji oracle).
   Proved, unbounded: (a) Text.render's enter/leave sweep never fails on ANY text whose spans lie within it
   (every leave finds its id, the style stack is never empty when a segment is emitted) -- the only partial
   step of the chain; (b) Text("\n").join keeps spans within the text; (c) hence printing cannot fail as
   soon as the lines Text.wrap produced keep their spans inside themselves.
   Missing: that Text.wrap (split, expand_tabs, divide, rstrip_end, truncate) preserves span ranges --
   C02 proved content and fit of those lines, not their span ranges.  The hypothesis is evaluated by the
   harness (spec.lines_in_range) on the lines of the real Text.wrap of every generated string, and the
   highlighter hypothesis (spec.in_range) on the real ReprHighlighter's spans. *)
Theorem C14_text_render_total : forall t, Good t -> exists r, TextOps.render t = Ok r.
Proof. exact render_good_total. Qed.
Print Assumptions C14_text_render_total.

Theorem C14_join_keeps_spans : forall lines, Forall wf lines ->
  exists t, TextOps.join TextOps.FIXED NLT lines = Ok t /\ Good t.
Proof. exact join_nl_good. Qed.
Print Assumptions C14_join_keeps_spans.

Theorem C14_print_no_markup_total_partial : forall hl E s W,
  (let p := TextOps.plain (TextOps.ctor TextOps.FIXED (E s) (TextOps.default_meta 0) []) in
   Forall line_ok (wrapped p (hl p) W)) ->
  exists r, print_no_markup hl E s W = Ok r.
Proof. exact print_no_markup_total_partial. Qed.
Print Assumptions C14_print_no_markup_total_partial.

(* spans outside the text are what makes the sweep fail: the hypothesis is needed *)
Example C14_print_nonvacuous :
  code_of (print_no_markup (fun p => [(0, 2, 7); (1, 3, 8)]) (fun s => s) (lit "abc def") 3) = 0
  /\ code_of (render_text (lit "ab") [(1, 5, 7)] 10) = 0
  /\ code_of (render_text (lit "ab") [(3, 5, 7)] 10) = 100 + K_Other
  /\ code_of (render_text (lit "ab") [(2, 1, 7)] 10) = 100 + K_ValueError.
Proof. exact print_no_markup_nonvacuous. Qed.

(* (10) rendering and measuring renderable trees (Layout.render / Layout.measure of C01/C09).
   FULL STATEMENT NOT PROVED:
     forall cf r W, valid_opts r -> 1 <= W -> (exists ls, render cf r W = Ok ls) /\ (exists m, measure cf r W = Ok m)
   Proved, unbounded (every width, also W < 1 and far below the structural minimum; every nesting depth):
   the fragment Text, Padding, Panel, Align, Constrain, Styled, RenderGroup, Rule, Bar, ProgressBar, objects
   without __rich_measure__, __rich__ casts.  Missing: Table (calc_widths / ratio arithmetic and the row
   assembly answer in `res`), Columns without an explicit width (the `while column_count > 1` loop must be shown
   never to reach 0; for an explicit width see (8)) and Tree (fuel of the explicit stack): there the outcome
   classes of model and implementation are compared on generated trees at EVERY console width 1..200. *)
Theorem C14_render_total_partial : forall cf r W, simple r = true ->
  (exists ls, render cf r W = Ok ls) /\ (exists m, measure cf r W = Ok m).
Proof. intros cf r W H. split; [exact (render_simple_total cf r W H)|exact (measure_simple_total cf r W H)]. Qed.
Print Assumptions C14_render_total_partial.

Example C14_render_nonvacuous :
  simple (Layout.Panel (Layout.Group [Layout.Txt (lit "hello world") None None None; Layout.Rule (lit "t") [9472] 1] true)
                (Frames.mkPanel 0 true false false (lit "title") 1 true None (0, 1, 0, 1) None None)) = true.
Proof. reflexivity. Qed.
