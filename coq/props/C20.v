(* C20 -- Named styles resolve through a well-behaved theme stack.
   Only property theorems live here; each is closed by `exact` (or a one-line wrapper) and followed
   by Print Assumptions.  Style values are abstract tokens; Style.parse / str(style) / configparser
   are universally quantified oracles (hypotheses stated in the theorems, never axioms).
   The two call-site facts come from gen/ThemeFacts.v, regenerated from /repo on every run:
     ctx_forwards_inherit    -- ThemeContext.__enter__ passes inherit=self.inherit   (D6)
     config_escapes_percent  -- Theme.config doubles '%'
   Theorems (1), (5) and (6) are about the code as the facts describe it; on a tree where a fact is
   `false` the two `fact_*` lemmas below stop compiling, which is the alarm. *)
From RichModel Require Import Prelude Theme SpecTheme DrvTheme.
From RichGen Require ThemeFacts.
From RichProofs Require Import ThemeP ThemeP2 ThemeP3.

Lemma fact_ctx_forwards_inherit : ThemeFacts.ctx_forwards_inherit = true.
Proof. reflexivity. Qed.
Lemma fact_config_escapes_percent : ThemeFacts.config_escapes_percent = true.
Proof. reflexivity. Qed.

(* ------------------------------------------------------------------------------------------
   (1) lookup_spec: for EVERY history of push_theme / pop_theme / use_theme blocks / try blocks /
   raises / get_style calls (balanced or not, failing pops included), every probe name after
   every stack step, every get_style result (with its default=) and the escaping exception are
   those of the specification: "most recent defining theme, falling through inheriting pushes,
   then the base theme, else Style.parse, else MissingStyle". *)
Theorem C20_lookup_spec : forall parse base cmds probes, forallb wf_cmd cmds = true ->
  lookup_ok_b parse base cmds probes
    (observe parse conc ThemeFacts.ctx_forwards_inherit probes cmds (ts_init base)) = true.
Proof. rewrite fact_ctx_forwards_inherit. exact lookup_spec_fwd. Qed.
Print Assumptions C20_lookup_spec.

(* the same as a statement about states: after any history the console answers every
   get_style(name, default=d) as the specification's frame list does *)
Theorem C20_lookup_refines : forall parse base cmds s o t fr o' t', forallb wf_cmd cmds = true ->
  exec_list parse conc ThemeFacts.ctx_forwards_inherit cmds (ts_init base) = (s, o, t) ->
  exec_list parse (specm base) true cmds [] = (fr, o', t') ->
  o = o' /\ forall name d, get_style parse conc s name d = get_style parse (specm base) fr name d.
Proof. rewrite fact_ctx_forwards_inherit. exact final_lookup_refines. Qed.
Print Assumptions C20_lookup_refines.

(* the hypothesis wf_cmd (themes are dicts: unique keys) holds of everything Theme(...) builds *)
Theorem C20_theme_init_is_dict : forall parse defaults styles inherit d,
  uniq_keys defaults = true -> theme_init parse defaults styles inherit = Ok d -> uniq_keys d = true.
Proof. exact theme_init_uniq. Qed.
Print Assumptions C20_theme_init_is_dict.

Example C20_lookup_nonvacuous :
  let a := lit "a" in let b := lit "b" in
  let cmds := [CPush [(a, 2)] true; CUse [(b, 3)] false [CGet (inr a) (Some (inl 9)); CPop; CPop; CPop];
               CGet (inr b) None] in
  forallb wf_cmd cmds = true /\
  observe (fun _ => None) (specm [(a, 1); (b, 1)]) true [a; b] cmds []
  = ([OSnap [Ok 2; Ok 1]; OSnap [Doc 4; Ok 3]; OGet (Ok 9); OSnap [Ok 2; Ok 1]; OSnap [Ok 1; Ok 1];
      OSnap [Ok 1; Ok 1]; OSnap [Ok 1; Ok 1]], 5).
Proof. vm_compute. split; reflexivity. Qed.

(* ------------------------------------------------------------------------------------------
   (2) pop_restores *)
(* one push, one pop: the very same stack (so every lookup, with every default) *)
Theorem C20_pop_restores : forall th inherit s, ts_inv s -> ts_pop (ts_push th inherit s) = Ok s.
Proof. exact ts_pop_push. Qed.
Print Assumptions C20_pop_restores.

(* ts_inv ("the cached bound method points at the top entry") holds of every reachable state *)
Theorem C20_reachable_inv : forall parse fwd cmds base,
  ts_inv (fst (fst (exec_list parse conc fwd cmds (ts_init base)))).
Proof. intros parse fwd cmds base. exact (exec_list_inv parse fwd cmds (ts_init base) (ts_inv_init base)). Qed.
Print Assumptions C20_reachable_inv.

(* all balanced histories (SpecTheme.bal: nested explicit push..pop pairs, use_theme blocks and
   try blocks, with raises and failing get_style calls anywhere a block can catch them), from
   every reachable state: the stack is exactly as before, whether or not an exception escapes;
   holds for the as-is ThemeContext and for the repaired one *)
Theorem C20_balanced_restores : forall parse fwd cmds s, ts_inv s -> bal cmds ->
  fst (fst (exec_list parse conc fwd cmds s)) = s.
Proof.
  intros parse fwd cmds s I B. destruct (bal_restores parse fwd cmds B s I) as [o [t [E _]]]. rewrite E. reflexivity.
Qed.
Print Assumptions C20_balanced_restores.

(* checker form: every probe name resolves as before *)
Theorem C20_balanced_restores_lookups : forall parse fwd cmds s probes, ts_inv s -> bal cmds ->
  restored_b (snapshot parse conc probes s)
             (snapshot parse conc probes (fst (fst (exec_list parse conc fwd cmds s)))) = true.
Proof.
  intros parse fwd cmds s probes I B. rewrite (C20_balanced_restores parse fwd cmds s I B).
  exact (list_eqb_refl res_eqb res_eqb_refl _).
Qed.
Print Assumptions C20_balanced_restores_lookups.

(* a use_theme block is left by an exception: the theme is popped and the exception propagates *)
Example C20_exception_exit_nonvacuous :
  let a := lit "a" in
  bal [CUse [(a, 2)] true [CPush [(a, 3)] false; CPop; CGet (inr (lit "zz")) None; CGet (inl 5) None]] /\
  exec_list (fun _ => None) conc true
    [CUse [(a, 2)] true [CPush [(a, 3)] false; CPop; CGet (inr (lit "zz")) None; CGet (inl 5) None]]
    (ts_init [(a, 1)])
  = (ts_init [(a, 1)], Some E_MissingStyle,
     [EvSt (ts_push [(a, 2)] true (ts_init [(a, 1)]));
      EvSt (ts_push [(a, 3)] false (ts_push [(a, 2)] true (ts_init [(a, 1)])));
      EvSt (ts_push [(a, 2)] true (ts_init [(a, 1)]));
      EvGet (Doc E_MissingStyle);
      EvSt (ts_init [(a, 1)])]).
Proof.
  split; [|vm_compute; reflexivity].
  apply bal_use; [|constructor].
  apply (bal_pp _ _ [] _ bal_nil eq_refl). repeat constructor.
Qed.

(* ------------------------------------------------------------------------------------------
   (3) the base theme can never be popped *)
Theorem C20_base_not_poppable : forall base, ts_pop (ts_init base) = Doc E_ThemeStackError.
Proof. exact ts_pop_init. Qed.
Print Assumptions C20_base_not_poppable.

(* ... and no history, however unbalanced, removes or replaces it: after popping until
   ThemeStackError the console answers exactly as a fresh console on the base theme *)
Theorem C20_base_survives : forall parse fwd base cmds probes,
  let s := fst (fst (exec_list parse conc fwd cmds (ts_init base))) in
  base_ok_b parse base probes (snapshot parse conc probes (snd (pop_all (ts_depth s) s))) = true.
Proof. exact base_survives. Qed.
Print Assumptions C20_base_survives.

(* ------------------------------------------------------------------------------------------
   (4) use_theme(th, inherit=False) -- DESIGN D6 *)
Theorem C20_use_theme_inherit : forall parse th body s n,
  exists s1 rest,
    snd (exec parse conc ThemeFacts.ctx_forwards_inherit (CUse th false body) s) = EvSt s1 :: rest /\
    lookup1 parse conc s1 n =
    match dget th n with
    | Some v => Ok v
    | None => match parse n with Some v => Ok v | None => Doc E_MissingStyle end
    end.
Proof. rewrite fact_ctx_forwards_inherit. exact use_theme_no_inherit. Qed.
Print Assumptions C20_use_theme_inherit.

(* rich 9.10.0 as found (__enter__ calls push_theme(self.theme) without inherit=): lookup_spec is
   false; the witness is corpus/theme/d6_use_theme_inherit_false.json *)
Theorem C20_use_theme_asis_refuted : exists parse base cmds probes,
  forallb wf_cmd cmds = true /\
  lookup_ok_b parse base cmds probes (observe parse conc false probes cmds (ts_init base)) = false.
Proof. exact use_theme_asis_refuted. Qed.
Print Assumptions C20_use_theme_asis_refuted.

(* ------------------------------------------------------------------------------------------
   (5) config round trip, relative to the oracles:
       show_ok  -- C06's round trip Style.parse(str(s)) = s, and str(s) is one line of printable
                   ASCII without leading/trailing blank ('%' allowed);
       cp_ok    -- configparser reads back "[styles]" files of "name = value" lines with distinct
                   names over [a-z0-9_.-] and such values, '%' written doubled (validated against
                   the real configparser by the correspondence op cp_hyp). *)
Theorem C20_config_roundtrip :
  forall (parse : str -> option Z) (show : Z -> str) (cp : str -> option (list (str * str)))
         (style_ok : Z -> bool),
  (forall v, style_ok v = true -> value_ok (show v) = true /\ parse (show v) = Some v) ->
  (forall items, forallb item_ok items = true -> uniq_keys items = true ->
     cp (cfg_text (map (fun kv => (fst kv, esc_pct (snd kv))) items)) = Some items) ->
  forall defaults d, uniq_keys d = true -> theme_ok style_ok d = true ->
  exists d', from_file parse cp defaults (config show ThemeFacts.config_escapes_percent d) false = Ok d' /\
             (forall n, dget d' n = dget d n) /\ config_rt_b d d' = true.
Proof.
  intros parse show cp style_ok H1 H2 defaults d U T. rewrite fact_config_escapes_percent.
  exact (config_roundtrip parse show cp style_ok H1 H2 true defaults d U T (fun E => False_ind _ (diff_true_false E))).
Qed.
Print Assumptions C20_config_roundtrip.

(* a theme built by Theme(styles, inherit=i) reads back with the same flag as equal styles
   (reading a non-inheriting theme with from_file's default inherit=True adds the default styles:
   that is what the flag means, not a loss) *)
Theorem C20_config_roundtrip_same_flag :
  forall (parse : str -> option Z) (show : Z -> str) (cp : str -> option (list (str * str)))
         (style_ok : Z -> bool),
  (forall v, style_ok v = true -> value_ok (show v) = true /\ parse (show v) = Some v) ->
  (forall items, forallb item_ok items = true -> uniq_keys items = true ->
     cp (cfg_text (map (fun kv => (fst kv, esc_pct (snd kv))) items)) = Some items) ->
  forall defaults styles i d, uniq_keys defaults = true ->
  theme_init parse defaults styles i = Ok d -> theme_ok style_ok d = true ->
  exists d', from_file parse cp defaults (config show ThemeFacts.config_escapes_percent d) i = Ok d' /\
             (forall n, dget d' n = dget d n) /\ config_rt_b d d' = true.
Proof.
  intros parse show cp style_ok H1 H2 defaults styles i d U HI T. rewrite fact_config_escapes_percent.
  exact (config_roundtrip_same_flag parse show cp style_ok H1 H2 true defaults styles i d U HI T
           (fun E => False_ind _ (diff_true_false E))).
Qed.
Print Assumptions C20_config_roundtrip_same_flag.

(* rich 9.10.0 as found writes '%' undoubled: the round trip holds only for styles whose
   definition contains no '%' (no such link targets) ... *)
Theorem C20_config_roundtrip_asis_partial :
  forall (parse : str -> option Z) (show : Z -> str) (cp : str -> option (list (str * str)))
         (style_ok : Z -> bool),
  (forall v, style_ok v = true -> value_ok (show v) = true /\ parse (show v) = Some v) ->
  (forall items, forallb item_ok items = true -> uniq_keys items = true ->
     cp (cfg_text (map (fun kv => (fst kv, esc_pct (snd kv))) items)) = Some items) ->
  forall defaults d, uniq_keys d = true -> theme_ok style_ok d = true ->
  forallb (fun kv => no_pct (show (snd kv))) d = true ->
  exists d', from_file parse cp defaults (config show false d) false = Ok d' /\
             (forall n, dget d' n = dget d n) /\ config_rt_b d d' = true.
Proof.
  intros parse show cp style_ok H1 H2 defaults d U T NP.
  exact (config_roundtrip parse show cp style_ok H1 H2 false defaults d U T (fun _ => NP)).
Qed.
Print Assumptions C20_config_roundtrip_asis_partial.

(* ... and fails otherwise, with the driver's reading of configparser (DrvTheme.mini_cp, which the
   correspondence compares with the real one): Theme({"a": "link http://x/%20y"}).config does not
   read back.  Witness: corpus/theme/config_percent.json *)
Theorem C20_config_percent_asis_refuted :
  let show := fun _ : Z => lit "link http://x/%20y" in
  let parse := fun s : str => if str_eqb s (show 0) then Some 0 else None in
  let d := [(lit "a", 0)] in
  value_ok (show 0) = true /\ parse (show 0) = Some 0 /\ theme_ok (fun _ => true) d = true /\
  from_file parse mini_cp [] (config show false d) false = Crash K_Other /\
  from_file parse mini_cp [] (config show true d) false = Ok d.
Proof. vm_compute. repeat split; reflexivity. Qed.
Print Assumptions C20_config_percent_asis_refuted.

(* T1: every key of DEFAULT_STYLES (regenerated from /repo) is inside the oracle's name domain and
   the keys are distinct -- so the default theme itself is covered by (5) *)
Theorem C20_default_names_ok :
  forallb name_ok ThemeFacts.default_style_names = true /\ uniq_keys defaults = true.
Proof. vm_compute. split; reflexivity. Qed.
Print Assumptions C20_default_names_ok.
