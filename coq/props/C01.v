(* C01 -- Rendered output never exceeds the available width.
   Model: model/Layout.v -- renderable trees R (Text, Padding, Panel, Align, Constrain, Styled, groups, Rule,
   Bar, ProgressBar, Table, Columns, Tree, objects without __rich_measure__, __rich__ casts) with
   render cf r ro W = the lines of Segment.split_lines(console.render(r, width = W)), built by structural
   recursion from the models of C02 (Wrap.v), C07 (Ratio.v, Table.v), C08 (Frames.v), C13 (Segments.v).
   Checker: SpecLayout.fits_b.  Only property theorems live here. *)
From RichModel Require Import Prelude Cells Segments Ratio Frames Layout SpecLayout.
From RichModel Require Table Wrap.
From RichProofs Require Import LayoutP LayoutP2 LayoutP8 LayoutP9 LayoutP10 LayoutP3 LayoutP4 LayoutP5 LayoutP6 LayoutP7.
(* T2 tie: ratio_reduce/ratio_distribute/_collapse_widths and the measurement arithmetic regenerated from /repo and proved equal to the hand model *)
From RichProofs.bridge Require BridgeRatio BridgeMeasure.

(* The property, at full strength: EVERY nesting of the built-in renderables -- tables inside tables inside
   panels ... to any depth --, every layout option of the quantifier (`wrappable`: no text/column switches
   wrapping off, columns free to wrap, non-negative paddings ...), every width from the structural minimum,
   every content.  No hypothesis on table nesting is needed (DESIGN expected `table_depth r <= 1`): Padding,
   Panel, Tree and table cells go through Console.render_lines, which crops the child to the width handed
   down, so a table is extra + sum(widths) cells wide whatever its cells do; the solved widths sum to at most
   max(budget, #columns) (C01_calc_widths_bound) because Measurement.get normalises every cell measurement
   (C09_get_normalised).  The renderables that do NOT crop (Align, Constrain, Styled, groups, casts) may hand
   their child less than its structural minimum (Align renders at the child's measured maximum): the
   induction therefore carries two widths -- rendered at W' <= W, bounded by W >= smin (LayoutP7.Pfit).
   The one restriction inside `wrappable` that is a finding, not an option: a ProgressBar must be last in its
   group (C01_group_progress_bar_refuted below). *)
Theorem C01_render_fits : forall cf r W lines,
  wrappable r = true -> smin r <= W -> W <= cW cf ->
  render cf r ro0 W = Ok lines -> fits_b W (map line_text lines) = true.
Proof. exact render_fits. Qed.
Print Assumptions C01_render_fits.

(* a panel around a three-column table whose cells are a padded text, a nested table and a tree, at
   exactly its structural minimum: the hypotheses hold and every line has exactly that many cells *)
Definition ex_inner : R :=
  Tbl (mkTblSpec (Table.mkOpts true true true false false 0 (0, 1, 0, 1) false true false None None)
                 (Some 15) [] [] [mkColSpec (lit "h") [] Wrap.J_LEFT Wrap.OV_ELLIPSIS false None None None None] [false])
      [[Txt (lit "x y") None None None]].
Definition ex_tree : R := Tree (Txt [12354] None None None) [Tree (Txt (lit "kid") None None None) [] true] true.
Definition ex_nested : R :=
  Panel (Tbl (mkTblSpec (Table.mkOpts true true false false true 0 (0, 1, 0, 1) false true true None None)
                        (Some 3) (lit "T") [] [default_col; default_col; default_col] [false])
             [[Pad (Txt (lit "ab cd") None None None) 0 1 0 1 true; ex_inner; ex_tree]])
        (mkPanel 12 true false false [] 1 true None (0, 1, 0, 1) None None).
Example C01_render_fits_nonvacuous :
  wrappable ex_nested = true /\ table_depth ex_nested = 2 /\ smin ex_nested = 30
  /\ match render (mkCfg 30 true) ex_nested ro0 30 with
     | Ok lines => map line_len lines = repeat 30 (length lines) /\ length lines = 11%nat
     | _ => False
     end.
Proof. vm_compute. repeat split; reflexivity. Qed.

(* the corner that needed the collapse below the column count: an Align over a borderless table with two
   EMPTY columns.  The table measures (1, 1): its maximum is below one cell per column, Align renders it at
   width 1, narrower than its three one-cell columns, and it comes out exactly 3 = smin cells wide *)
Definition ex_align_empty : R :=
  Align (Tbl (mkTblSpec (Table.mkOpts false false false false false 0 (0, 0, 0, 0) false true false None None)
                        None [] [] [default_col; default_col; default_col] [false])
             [[Txt (lit "a") None None None; Txt [] None None None; Txt [] None None None]]) 1 true None.
Example C01_align_over_table_nonvacuous :
  wrappable ex_align_empty = true /\ smin ex_align_empty = 3
  /\ measure (mkCfg 3 true) ex_align_empty 3 = Ok (1, 1)
  /\ match render (mkCfg 3 true) ex_align_empty ro0 3 with Ok lines => map line_len lines = [3] | _ => False end.
Proof. vm_compute. repeat split; reflexivity. Qed.

(* the central step, for ANY cells (any renderables, any nesting below) and ANY width: a table is at most
   max(the width it was given, its borders + one cell per column) cells wide; title and caption included *)
Theorem C01_table_fits : forall cf t rows ro W,
  tbl_ok t = true -> ro_overflow ro <> Some Wrap.OV_IGNORE ->
  sfits (Z.max W (Table.extra_width (tb_o t) (length (tb_cols t)) + zlen (tb_cols t)))
        (table_stream t (table_cols cf t rows) ro W).
Proof. intros cf t rows ro W H1 H2. exact (proj1 (table_stream_fits cf t rows ro W H1 H2)). Qed.
Print Assumptions C01_table_fits.

(* ... which rests on two facts about rich/table.py that C07 left open.  (a) The collapse loop keeps every
   column at least one cell wide when there is one cell per column to hand out (all columns free to wrap): *)
Theorem C01_collapse_keeps_columns : forall widths wrapable M out,
  length wrapable = length widths -> Forall (fun b => b = true) wrapable ->
  Forall (fun w => 1 <= w) widths -> zlen widths <= M ->
  collapse_widths widths wrapable M = Ok out ->
  Forall (fun w => 1 <= w) out /\ length out = length widths /\
  sumZ out <= Z.max M (sumZ widths) /\ (M < sumZ widths -> sumZ out = M).
Proof. exact collapse_keeps_pos. Qed.
Print Assumptions C01_collapse_keeps_columns.

Example C01_collapse_nonvacuous : collapse_widths [7; 7; 7] [true; true; true] 4 = Ok [1; 1; 2].
Proof. vm_compute. reflexivity. Qed.

(* (b) _calculate_column_widths (repaired code, every path: ratio columns, collapse, re-measure, expand, table
   min_width) never hands out more than the budget, and exactly the budget when the table expands -- for both
   variants fm of the flexible minimum of ratio columns (fm = false: rich today; fm = true: with
   fixes/C07_ratio_column_minimum.diff; Layout.v uses the regenerated fact BoxChars.FLEXMIN_MEASURED, so the
   theorems hold for whichever tree is checked) *)
Theorem C01_calc_widths_fits : forall fm o cols M ws,
  cols <> [] -> Forall col_free cols -> pad_ok o ->
  zlen cols <= M -> Table.calc_widths_x fm false false o cols M = Ok ws ->
  length ws = length cols /\ Forall (fun w => 1 <= w) ws /\ sumZ ws <= M /\ (Table.t_expand o = true -> sumZ ws = M).
Proof. exact calc_widths_x_fits. Qed.
Print Assumptions C01_calc_widths_fits.

(* (c) below one cell per column: the collapse leaves every column at 0 or 1 cell (the water-filling is
   balanced), the re-measure floors every column at one cell, so the table is exactly #columns wide *)
Theorem C01_collapse_below_column_count : forall widths wrapable M out,
  length wrapable = length widths -> Forall (fun b => b = true) wrapable ->
  Forall (fun w => 1 <= w) widths -> widths <> [] ->
  M < zlen widths -> collapse_widths widths wrapable M = Ok out ->
  Forall (fun w => 0 <= w <= 1) out /\ length out = length widths.
Proof. exact collapse_small. Qed.
Print Assumptions C01_collapse_below_column_count.

Example C01_collapse_below_nonvacuous : collapse_widths [5; 2; 9] [true; true; true] 2 = Ok [1; 0; 1].
Proof. vm_compute. reflexivity. Qed.

Theorem C01_calc_widths_bound : forall fm o cols M ws,
  cols <> [] -> Forall col_free cols -> pad_ok o ->
  Table.calc_widths_x fm false false o cols M = Ok ws ->
  length ws = length cols /\ Forall (fun w => 1 <= w) ws /\ sumZ ws <= Z.max M (zlen cols).
Proof. exact calc_widths_x_bound. Qed.
Print Assumptions C01_calc_widths_bound.

(* (the table's own min_width option is inside the domain: it pads up to min(min_width, budget) only)

   KNOWN FINDING (genuine, low severity; found by C07's builder): a COLUMN min_width is re-imposed after the collapse.
   Table(Column(min_width=10), "b", "c", box=None, padding=0) with the row ("a", "b"*12, "c"*12) at W = 24 >= smin = 12
   is 26 cells wide: the collapse levels the three columns (8, 8, 8) and the re-measure clamps the first back up to 10.
   Such a column is not free to wrap below its minimum; `wrappable` (col_ok) excludes column width / min_width /
   no_wrap, and this witness shows the exclusion is necessary.  Replayed on the implementation
   (corpus/C01_known/C01-column-min-width-reimposed.json). *)
Theorem C01_column_min_width_refuted :
  smin col_minw_tbl = 12 /\ wrappable col_minw_tbl = false
  /\ exists lines, render (cf0 24) col_minw_tbl ro0 24 = Ok lines /\ map line_len lines = [26; 26]
                   /\ fits_b 24 (map line_text lines) = false.
Proof. exact column_min_width_refuted. Qed.
Print Assumptions C01_column_min_width_refuted.

(* KNOWN FINDING (genuine, low severity): ProgressBar.__rich_console__ ends without a new line -- Bar, Rule,
   Text and every frame end with one -- so inside a RenderGroup the next renderable continues the bar's line:
   RenderGroup(ProgressBar(total=100, completed=100), Text("x")) at W = 10 has a line of 11 cells (and
   Console.print silently crops the "x" away).  Both children are inside the option domain; `wrappable`
   excludes exactly this: a ProgressBar followed by a sibling in a group.  Replayed on the implementation
   (corpus/layout/group_progress_bar_then_text.json: model = implementation). *)
Theorem C01_group_progress_bar_refuted :
  smin pb_group = 1 /\ forallb wrappable [PBar 100 100 None false 0; Txt (lit "x") None None None] = true
  /\ wrappable pb_group = false
  /\ exists lines, render (cf0 10) pb_group ro0 10 = Ok lines /\ map line_len lines = [11]
                   /\ fits_b 10 (map line_text lines) = false.
Proof. exact group_progress_bar_refuted. Qed.
Print Assumptions C01_group_progress_bar_refuted.

(* the frames, at ANY width (also below their structural minimum) and for ANY child: *)
Theorem C01_padding_fits : forall c t r b l ex W, 0 <= l -> 0 <= r -> 0 <= W ->
  sfits W (stream_of (padding_lines c t r b l None ex W)).
Proof. exact padding_sfits. Qed.
Print Assumptions C01_padding_fits.

Theorem C01_panel_fits : forall c o W Wb cW', W <= Wb -> W <= cW' -> nonneg4 (p_pad o) = true ->
  (match p_title o with [] => 2 | _ => 4 end) <= Wb -> sfits Wb (stream_of (panel_lines false c o W cW')).
Proof. exact panel_sfits_any. Qed.
Print Assumptions C01_panel_fits.

Theorem C01_tree_fits : forall (t : tnode) W, sfits W (crender (tree_child t) W).
Proof. intros t W. exact (proj1 (tree_sfits t W)). Qed.
Print Assumptions C01_tree_fits.

Theorem C01_text_fits : forall s j ov nw ro W, 1 <= W ->
  or_else ov (ro_overflow ro) Wrap.OV_FOLD <> Wrap.OV_IGNORE -> sfits W (text_stream s j ov nw ro W).
Proof. exact text_stream_fits. Qed.
Print Assumptions C01_text_fits.

(* the structural minimum is tight on small cases: at smin everything is shown inside the width; one cell
   less and a column loses its only character / the title its only character / a double-width character is
   replaced by a space / the padded child gets no room; below borders + one cell per column the table overflows *)
Example C01_smin_tight_table :
  smin tb2 = 9 /\ wrappable tb2 = true /\ widest (render (cf0 9) tb2 ro0 9) = 9
  /\ nth 1 (texts (render (cf0 9) tb2 ro0 9)) [] = [9474; 32; 97; 32; 9474; 32; 99; 32; 9474]
  /\ nth 1 (texts (render (cf0 8) tb2 ro0 8)) [] = [9474; 32; 97; 32; 9474; 32; 32; 9474]
  /\ widest (render (cf0 4) tb2 ro0 4) = 5.
Proof. exact smin_table_tight. Qed.
Example C01_smin_tight_panel :
  smin pn1 = 5 /\ wrappable pn1 = true /\ widest (render (cf0 5) pn1 ro0 5) = 5 /\ widest (render (cf0 3) pn1 ro0 3) = 4.
Proof. exact smin_panel_tight. Qed.
Example C01_smin_tight_wide :
  smin (Txt [12354] None None None) = 2
  /\ render (cf0 2) (Txt [12354] None None None) ro0 2 = Ok [[mkSeg [12354] None false]]
  /\ texts (render (cf0 1) (Txt [12354] None None None) ro0 1) = [[]; [SP]].
Proof. exact smin_wide_tight. Qed.
Example C01_smin_tight_padding :
  smin (Pad (lit_t "a") 0 2 0 1 true) = 4
  /\ map line_text (match render (cf0 4) (Pad (lit_t "a") 0 2 0 1 true) ro0 4 with Ok l => l | _ => [] end) = [lit " a  "]
  /\ render (cf0 3) (Pad (lit_t "a") 0 2 0 1 true) ro0 3 = Ok [].
Proof. exact smin_padding_tight. Qed.
