(* C10 -- Live and progress displays leave a correct screen after any history.
   Only property theorems; each closed by `exact`/a one-line wrapper and followed by Print Assumptions.
   The screen is what the independent interpreter TermGrid makes of the characters written. *)
From RichModel Require Import Prelude Cells TermGrid Live SpecLive.
From RichGen Require Import LiveCodes.
From RichProofs Require Import TermGridP LiveP CursorP LiveP2 LiveP3 LiveP4 LiveP5 LiveP6.
From RichProofs.bridge Require BridgeLive.   (* tie 1 (T2): LiveRender.position_cursor/restore_cursor regenerated statement by statement *)

(* (1) erase_clears: position_cursor for a frame of h rows, interpreted with the cursor on the last
   of h non-blank rows (under `pre` further rows), blanks exactly those h rows and leaves the cursor
   on the first of them, column 0 -- every h, every page height, every number of rows above.
   The string is the one regenerated from rich/live_render.py (gen/LiveCodes.v). *)
Theorem C10_erase_clears : forall H pre h w,
  erase_ok_b H pre h (position_cursor (Some (w, Z.of_nat h))) = true.
Proof. exact erase_clears_b. Qed.
Print Assumptions C10_erase_clears.

(* the same fact on the zipper: n+1 rows [pre; cr] become blank, nothing else changes *)
Theorem C10_erase_clears_state : forall H n pre ab cr be co v vi, length pre = n ->
  interp H (mkTerm (pre ++ ab) cr be co (n + v) vi PGround) (erase_str n)
  = mkTerm ab [] (repeat [] n ++ be) 0 v vi PGround.
Proof. exact interp_erase. Qed.
Print Assumptions C10_erase_clears_state.

(* (2) screen_step: the unit of every history.  While live, every print / log / refresh is ONE
   write [erase old frame; user lines; new frame].  If the terminal shows P ++ R with the cursor on
   the last row of the region R (all of R on the page), then after the write it shows
   (P ++ printed lines) ++ new frame, cursor on the new frame's last row; nothing of the old frame
   remains, no row of P is touched, cursor visibility is unchanged; and the new frame is again
   wholly on the page when it is not taller than the page. *)
Theorem C10_screen_step : forall H t P R pc ls fl,
  live_at t P R ->
  (pc = erase_str (length R - 1) \/ (pc = [] /\ R = [[]])) ->
  lines_ok ls = true -> lines_ok fl = true ->
  let t' := interp H t (pc ++ lines_str ls ++ join_nl fl) in
  live_at0 t' (P ++ map row_of ls) (region_rows fl) /\ vis t' = vis t
  /\ ((length fl <= H)%nat -> (length (region_rows fl) - 1 <= vr t')%nat).
Proof. exact draw_step. Qed.
Print Assumptions C10_screen_step.

Example C10_screen_step_nonvacuous :
  live_at (interp 3 init (lit "p" ++ [10] ++ lit "a" ++ [10] ++ lit "b")) [row_of (lit "p")] [row_of (lit "a"); row_of (lit "b")].
Proof. vm_compute. repeat split; try discriminate; repeat constructor. Qed.

(* (2') screen_invariant: EVERY history (any length) of print / log / update(+-refresh) / refresh /
   start / stop -- before, during and after the session, Live, Status and Progress, transient or not,
   any overflow mode, any W and H -- run from a fresh terminal leaves exactly the printed lines
   followed by the frame last drawn (nothing after a transient stop), cursor on the frame's last row
   (first free row, column 0, when no frame is up), hidden exactly while started, and no operation
   raises.  Side condition `ops_ok` (computed along the run): every line is text; every frame that is
   actually drawn is not taller than the page (always true under crop/ellipsis: fit_live_len; not
   under `visible` and not for Progress, which have no overflow handling); a transient display stops
   with a frame shorter than the page (D23); start() is not called again after stop() (stale shape). *)
Theorem C10_screen_invariant : forall c f0 ops, nofault c -> ops_ok c (st0 c f0) ops = true ->
  let s := fst (run_ops c (st0 c f0) ops) in
  snd (run_ops c (st0 c f0) ops) = false
  /\ view_ok_b (Hn c) (g_live s) (g_printed s) (g_shown s) (out s) = true
  /\ cursor_vis_ok_b (Hn c) (started s) (out s) = true.
Proof. exact screen_invariant. Qed.
Print Assumptions C10_screen_invariant.

Example C10_screen_invariant_nonvacuous :
  let c := mkCfg false false OEllipsis 12 3 None None true false false false false false false false false in
  ops_ok c (st0 c (w_lines 2))
    [Print (w_lines 1); Start; Refresh; Print (w_lines 4); Update (w_lines 7) true; Log (w_lines 1);
     Update [] false; Print (w_lines 1); Update (w_lines 1) true; Start; Stop; Print (w_lines 1)] = true.
Proof. exact ops_ok_nonvacuous. Qed.

Theorem C10_overflow_handled_fits : forall o W H ls, o <> OVisible -> 1 <= H ->
  (length (fit_live o W H ls) <= Z.to_nat H)%nat.
Proof. exact fit_live_len. Qed.

(* after_stop: once the display is stopped the cursor is visible, in column 0 of the first free row,
   and the grid is exactly g_printed -- which stop() extended by the kept frame (Live.settle:
   nothing for a transient display) *)
Theorem C10_after_stop : forall c f0 ops, nofault c -> ops_ok c (st0 c f0) ops = true ->
  let s := fst (run_ops c (st0 c f0) ops) in
  started s = false -> after_stop_ok_b (Hn c) (g_printed s) [] (out s) = true.
Proof. exact after_stop. Qed.
Print Assumptions C10_after_stop.

(* cursor_never_above_region, PER CHARACTER: cut the output of such a history at operation boundaries;
   while the characters of one operation are replayed -- every intermediate parser state included --
   the cursor is never on a row above the first row below the lines printed before that operation
   (cursor_ok_b is the checker that the harness evaluates on the implementation's bytes). *)
Theorem C10_cursor_never_above : forall c f0 ops, nofault c -> ops_ok c (st0 c f0) ops = true ->
  cursor_ok_b (Hn c) (run_chunks c (st0 c f0) ops) = true.
Proof. exact cursor_never_above. Qed.
Print Assumptions C10_cursor_never_above.

(* (2'') The same three statements WITHOUT the `nofault` hypothesis: any render / get_renderable
   fault index, either exception kind, raising user renderables (PrintRaise).  A history runs until
   the first exception; the side condition `ops_ok_f` is `ops_ok` evaluated up to that point.
   Whatever raised: the screen shows the printed lines and the frame last drawn (a render that raises
   writes nothing and leaves the recorded shape alone; a raising start()/stop() only toggles the
   cursor), the cursor is hidden exactly while started, and it never went above the region. *)
Theorem C10_screen_invariant_any_fault : forall c f0 ops, ops_ok_f c (st0 c f0) ops = true ->
  let s := fst (run_ops c (st0 c f0) ops) in
  view_ok_b (Hn c) (g_live s) (g_printed s) (g_shown s) (out s) = true
  /\ cursor_vis_ok_b (Hn c) (started s) (out s) = true
  /\ cursor_ok_b (Hn c) (run_chunks c (st0 c f0) ops) = true.
Proof. exact screen_invariant_f. Qed.
Print Assumptions C10_screen_invariant_any_fault.

(* ... and for `with display: body`: start() raising (no __exit__), the body raising at any point
   (then stop() runs on the state the exception left), stop() raising -- after the block the screen
   is the printed lines followed by what stop() kept / what was drawn last.  Together with
   C10_cleanup_on_raise and C10_exception_propagates this is the property's second sentence. *)
Theorem C10_block_screen_any_fault : forall c f0 pre body, block_ok c f0 pre body = true ->
  let s := fst (run_block c f0 pre body) in
  view_ok_b (Hn c) (g_live s) (g_printed s) (g_shown s) (out s) = true
  /\ cursor_vis_ok_b (Hn c) (started s) (out s) = true.
Proof. exact block_screen. Qed.
Print Assumptions C10_block_screen_any_fault.

(* (2c) Histories that GO ON after an exception (the caller catches it): every operation runs, whatever
   raised before.  In particular the SAME display started again after a stop() whose final refresh
   raised: its frame is still on the screen (no final new line), the next start() takes it over, the next
   draw erases it, and -- because stop() restores vertical_overflow in a `finally` (T3 fact
   live_stop_restores_in_finally) -- tall frames of the new session are cropped again.  Side condition
   ops_ok2 = ops_ok per operation, plus: nothing is printed onto a frame parked by a faulted stop(). *)
Theorem C10_screen_invariant_resilient : forall c f0 ops, ops_ok2 c (st0 c f0) ops = true ->
  let s := run_all c (st0 c f0) ops in
  view_ok_b (Hn c) (g_live s) (g_printed s) (g_shown s) (out s) = true
  /\ cursor_vis_ok_b (Hn c) (started s) (out s) = true
  /\ cursor_ok_b (Hn c) (all_chunks c (st0 c f0) ops) = true.
Proof. exact screen_invariant_resilient. Qed.
Print Assumptions C10_screen_invariant_resilient.

Example C10_resilient_nonvacuous :
  forallb (fun k => ops_ok2 (rs_fault_cfg false k true) (st0 (rs_fault_cfg false k true) (w_lines 2)) rs_fault_ops
                    && ops_ok2 (rs_fault_cfg true k true) (st0 (rs_fault_cfg true k true) (w_lines 2)) rs_fault_ops)
          (seq 0 8) = true.
Proof. exact resilient_nonvacuous. Qed.

(* the restore written after the refresh instead of in a finally (seed C10-r3m3): a fault in stop()
   leaves "visible" behind, the tall frame of the next session is not cropped and cannot be erased *)
Theorem C10_restore_not_in_finally_refuted :
  let c := rs_fault_cfg false 1 false in
  view_of c (run_all c (st0 c (w_lines 2)) rs_fault_ops) = false.
Proof. exact restore_not_in_finally_refuted. Qed.

(* the repairs the generator and the side conditions rely on are in the code under test (a regression of
   any of them breaks this obligation instead of silently shrinking what is generated) *)
Example C10_repairs_in_place :
  live_stop_restores_overflow = true /\ live_stop_restores_in_finally = true /\ live_stop_resets_shape = true
  /\ progress_stop_resets_shape = true /\ live_stop_visible_unless_transient = true
  /\ live_transient_final_room = true /\ live_render_crops_to_page = true.
Proof. repeat split. Qed.

Example C10_any_fault_nonvacuous :
  forallb (fun k => block_ok (fx_cfg false true (Some k) None) (w_lines 2) [w_lines 1] fx_body
                    && block_ok (fx_cfg true false (Some k) None) (w_lines 2) [w_lines 1] fx_body
                    && block_ok (fx_cfg true false None (Some k)) (w_lines 2) [w_lines 1] fx_body)
          (seq 0 8) = true.
Proof. exact block_ok_nonvacuous. Qed.

(* WHAT THE ABSTRACTION COVERS.
   * print / log: an operation `Print ls` is "Console.print of something that renders to the lines ls";
     the theorems quantify over ALL ls.  Console.log goes through the same hook loop as Console.print
     (T3 facts below, regenerated from rich/console.py), so a log call -- with or without the
     log_time / log_path columns -- is a Print of the lines LogRender produces.  `Log ls` is the special
     case exercised by the harness (log_time=False, log_path=False: each line padded to the width);
     the text of the time / path columns is NOT modelled (it is covered only as "some lines").
   * Status.update(status=, spinner=, ...): inside the theorems as `Update f true` for the frame f that
     the (spinner, status) grid row renders to -- every f.  Which cells that row consists of
     (harness function status_lines, 1-3 cell spinners) is VALIDATED ONLY, by byte equality on every
     generated Status history; it is table layout (C07), not a C10 claim. *)
Example C10_print_and_log_apply_the_hooks :
  console_print_applies_hooks = true /\ console_log_applies_hooks = true.
Proof. split; reflexivity. Qed.

(* Status: rich/status.py is a thin wrapper and the model treats it as exactly that; the facts are
   regenerated from the source on every run (an edit breaks this obligation).  What the spinner and the
   status renderable look like is immaterial: every theorem quantifies over ALL frames. *)
Example C10_status_is_a_transient_live :
  status_live_transient = true /\ status_overflow_mode = 1 /\ status_update_refreshes = true
  /\ status_delegates = true /\ status_frame_is_grid_row = true.
Proof. repeat split. Qed.

(* (3) cleanup_on_raise, flags: after `with display: body`, whatever raised wherever (any fault
   index for render and for get_renderable, raising user renderables, nested start/stop in the body),
   the hook stack, the stdout/stderr redirection and the started flag are as before the block --
   for Live/Status as the code is, for Progress when the handler around the first refresh of start()
   runs for the injected exception: start_cleans c = progress_start_guarded && (start_cleanup_catches_base
   || the exception is an Exception subclass) -- T3 facts regenerated from rich/progress.py. *)
Theorem C10_cleanup_on_raise_flags : forall c f0 pre body,
  c_progress c = false \/ start_cleans c = true ->
  let s := fst (run_block c f0 pre body) in
  started s = false /\ hooks s = 0%nat /\ redir s = false.
Proof. exact block_restores_flags. Qed.
Print Assumptions C10_cleanup_on_raise_flags.

(* (3') cleanup_on_raise at full strength, stated with the spec checker that is also run on the
   implementation: after `with display: body` -- every fault index for render and get_renderable,
   raising user renderables, frames of ANY height (fitting or not), restarts inside the body -- the hook
   stack and the redirection are as before AND the replayed characters leave the cursor visible. *)
Theorem C10_cleanup_on_raise : forall c f0 pre body,
  c_progress c = false \/ start_cleans c = true ->
  lines_ok f0 = true -> forallb lines_ok pre = true -> forallb (op_text c) body = true ->
  let s := fst (run_block c f0 pre body) in
  cleanup_ok_b (Hn c) 0 (hooks s) (negb (redir s)) (out s) = true.
Proof. exact block_cleanup. Qed.
Print Assumptions C10_cleanup_on_raise.

(* ... and the exception propagates: if the faulty render / get_renderable call was reached anywhere
   in the block (start, body, stop), the block raises; PrintRaise raises by definition of `step` *)
Theorem C10_exception_propagates : forall c f0 pre body,
  fired c (fst (run_block c f0 pre body)) = true -> snd (run_block c f0 pre body) = true.
Proof. exact block_propagates. Qed.
Print Assumptions C10_exception_propagates.

Example C10_exception_propagates_nonvacuous :
  let c := mkCfg false true OEllipsis 12 4 (Some 2%nat) None true false false false false false false false false in
  fired c (fst (run_block c (w_lines 2) [w_lines 1] [Refresh; Print (w_lines 1); Refresh; Print (w_lines 1)])) = true.
Proof. vm_compute. reflexivity. Qed.

(* the cursor is hidden exactly while the display is started: every free-form history, faults,
   restarts and frames of any height included *)
Theorem C10_cursor_hidden_iff_started : forall c f0 ops,
  lines_ok f0 = true -> forallb (op_text c) ops = true ->
  let s := fst (run_ops c (st0 c f0) ops) in cursor_vis_ok_b (Hn c) (started s) (out s) = true.
Proof. exact cursor_vis_any_history. Qed.
Print Assumptions C10_cursor_hidden_iff_started.

(* the code in /repo today satisfies the hypothesis (breaks if the guard is removed again) *)
Example C10_start_guarded_today :
  progress_start_guarded = true /\ start_cleanup_catches_base = true
  /\ forall pr tr o W H fr fb base, start_cleans (cfg_today pr tr o W H fr fb base) = true.
Proof. split; [reflexivity|]. split; [reflexivity|]. intros. destruct base; reflexivity. Qed.

(* the same handler narrowed to `except Exception:` and a column raising KeyboardInterrupt / SystemExit
   (not an Exception subclass): the statement is false again *)
Theorem C10_cleanup_start_narrow_handler_refuted : exists c f0 pre body,
  c_start_guarded c = true /\ c_catches_base c = false /\ c_fault_base c = true /\
  let s := fst (run_block c f0 pre body) in
  snd (run_block c f0 pre body) = true /\ hooks s = 1%nat /\ redir s = true
  /\ vis (interp (Z.to_nat (c_H c)) init (out s)) = false.
Proof. exists (d18_narrow_cfg false), (w_lines 1), [], []. repeat split; exact (proj1 d18_narrow_refuted) || apply d18_narrow_refuted. Qed.

(* stdout/stderr are redirected exactly while started: every history, fault, restart *)
Theorem C10_redirected_iff_started : forall c f0 ops,
  let s := fst (run_ops c (st0 c f0) ops) in redir s = started s.
Proof. exact redirected_iff_started. Qed.
Print Assumptions C10_redirected_iff_started.

(* D18 as found: without the guard the statement is false *)
Theorem C10_cleanup_progress_start_asis_refuted : exists c f0 pre body,
  c_start_guarded c = false /\
  let s := fst (run_block c f0 pre body) in
  snd (run_block c f0 pre body) = true /\ hooks s = 1%nat /\ redir s = true
  /\ vis (interp (Z.to_nat (c_H c)) init (out s)) = false.
Proof. exists (d18_cfg false), (w_lines 1), [], []. split; [reflexivity|exact d18_asis_refuted]. Qed.
Print Assumptions C10_cleanup_progress_start_asis_refuted.

(* (4) after_stop for a transient display whose last frame is as tall as the page or taller: false of
   the code as found (D23), with or without the forced "visible" ... *)
Theorem C10_after_stop_transient_tall_refuted : forall guard,
  view_of (d23_cfg guard false) (d23_run guard false 5) = false.
Proof. intros []; [exact d23_guarded_still_refuted|exact d23_asis_refuted]. Qed.
Print Assumptions C10_after_stop_transient_tall_refuted.
(* ... and true of the repaired variant (no forced "visible" for a transient display, its last frame
   cropped to H-1 rows: T3 facts live_stop_visible_unless_transient, live_transient_final_room); in
   general the repaired frame meets the side condition of C10_after_stop by C10_overflow_handled_fits *)
Example C10_after_stop_transient_tall_repaired : view_of (d23_cfg true true) (d23_run true true 5) = true.
Proof. exact d23_repaired_ok. Qed.

(* excluded by hypothesis everywhere above, and why: no overflow handling in these two cases *)
Theorem C10_progress_too_tall_refuted : view_of (tall_cfg false) (tall_run false) = false.
Proof. exact progress_too_tall_refuted. Qed.
(* repaired (T3 fact live_render_crops_to_page): LiveRender crops to the page like _LiveRender; in
   general the cropped frame meets the side condition of C10_screen_invariant *)
Example C10_progress_too_tall_repaired : view_of (tall_cfg true) (tall_run true) = true.
Proof. exact progress_too_tall_repaired_ok. Qed.
Theorem C10_visible_too_tall_refuted :
  view_of vis_cfg (fst (run_ops vis_cfg (st0 vis_cfg (w_lines 5)) [Start; Refresh; Print (w_lines 1)])) = false.
Proof. exact visible_too_tall_refuted. Qed.

(* a second start() after stop() reuses the stale shape: the kept frame / printed lines are erased *)
Theorem C10_restart_refuted : forall tr,
  view_of (rs_cfg tr false) (fst (run_ops (rs_cfg tr false) (st0 (rs_cfg tr false) (w_lines 2)) rs_ops)) = false.
Proof. exact restart_refuted. Qed.
Print Assumptions C10_restart_refuted.
(* repaired (stop() forgets the shape, T3 fact *_stop_resets_shape): the same history is fine, and in
   general `ops_ok` then admits start() after stop(), so C10_screen_invariant covers restarts *)
Example C10_restart_repaired : forall tr,
  view_of (rs_cfg tr true) (fst (run_ops (rs_cfg tr true) (st0 (rs_cfg tr true) (w_lines 2)) rs_ops)) = true.
Proof. exact restart_repaired_ok. Qed.
Example C10_restart_in_side_condition : forall tr,
  ops_ok (rs_cfg tr true) (st0 (rs_cfg tr true) (w_lines 2)) rs_ops = true
  /\ ops_ok (rs_cfg tr false) (st0 (rs_cfg tr false) (w_lines 2)) rs_ops = false.
Proof. intros []; vm_compute; split; reflexivity. Qed.
