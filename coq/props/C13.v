(* C13 -- Cell-width arithmetic and line shaping are exact and history-independent.
   Only property theorems live here; each is closed by `exact` and followed by Print Assumptions. *)
From RichModel Require Import Prelude Cells Segments SpecCells.
From RichGen Require Import CellWidthTable.
From RichProofs Require Import CellsP SegmentsP SegmentsP2.
(* T2 tie: the cell functions regenerated from /repo are proved equal to the hand model (bridge lemmas) *)
From RichProofs.bridge Require BridgeCells BridgeSegment.

(* (1) the table lookup = linear scan, for EVERY sorted table and EVERY integer code point *)
Theorem C13_bsearch_is_linear : forall T cp,
  sorted_disjoint T = true -> T <> [] -> codepoint_cell_size_T T cp = Ok (lookup_linear T cp).
Proof. exact bsearch_is_linear. Qed.
Print Assumptions C13_bsearch_is_linear.

(* ... and today's table in /repo (regenerated into gen/CellWidthTable.v) is such a table *)
Theorem C13_cw_spec : forall cp, char_size_res cp = Ok (char_size cp) /\ char_size cp = cw cp /\ 0 <= cw cp <= 2.
Proof. intros cp. split; [exact (char_size_res_eq cp)|split; [exact (char_size_is_table cp)|exact (cw_range cp)]]. Qed.
Print Assumptions C13_cw_spec.

Example C13_cw_nonvacuous : cw 12354 = 2 /\ cw 769 = 0 /\ cw 0 = 0 /\ cw 97 = 1 /\ cw 1114111 = 1.
Proof. vm_compute. repeat split. Qed.

(* (2) cell width of a string = sum of the table widths *)
Theorem C13_cell_len_sum : forall s, cell_len s = sumZ (map cw s).
Proof. exact cell_len_sum. Qed.
Print Assumptions C13_cell_len_sum.

(* (3) caching never changes a result: any call history, any capacity, evictions included *)
Theorem C13_cache_transparent : forall cap calls,
  fst (run_cached cap [] calls) = map cell_len calls.
Proof. intros cap calls. exact (proj1 (cache_transparent cap calls [] (Forall_nil _))). Qed.
Print Assumptions C13_cache_transparent.

Theorem C13_cache_bounded : forall cap calls, (1 <= cap)%nat ->
  (length (snd (run_cached cap [] calls)) <= cap)%nat.
Proof. intros cap calls H. exact (cache_bounded cap H calls [] (Nat.le_0_l cap)). Qed.
Print Assumptions C13_cache_bounded.

Example C13_cache_evicts : snd (run_cached 2 [] [[97]; [98]; [99]; [97]]) = [([99], 1); ([97], 1)].
Proof. vm_compute. reflexivity. Qed.

(* (4) resizing: exactly n cells, a prefix of the original followed by spaces *)
Theorem C13_set_cell_size_spec : forall s n, 0 <= n -> resize_ok_b s n (set_cell_size s n) = true.
Proof. exact set_cell_size_spec. Qed.
Print Assumptions C13_set_cell_size_spec.

Example C13_resize_nonvacuous :
  set_cell_size [12354; 12354] 3 = [12354; 32] /\ set_cell_size [97; 769; 98] 1 = [97; 769].
Proof. vm_compute. split; reflexivity. Qed.

(* (5) chopping to a width of at least two *)
Theorem C13_chop_cells_spec : forall s w, 2 <= w -> chop_ok_b s w (chop_cells s w 0) = true.
Proof. exact chop_cells_spec. Qed.
Print Assumptions C13_chop_cells_spec.

Example C13_chop_needs_two : chop_ok_b [12354] 1 (chop_cells [12354] 1 0) = false.
Proof. vm_compute. reflexivity. Qed.

(* (6) line shaping: requested cell length, characters and styles unchanged, padding style *)
Theorem C13_adjust_line_length_spec : forall (line : list (seg Z)) n style pad,
  0 <= n -> adjust_ok_b line n style pad (adjust_line_length line n style pad) = true.
Proof. exact adjust_line_length_spec. Qed.
Print Assumptions C13_adjust_line_length_spec.

(* (7) split_and_crop_lines: every line of split_lines, shaped by adjust_line_length to the requested
   length with the requested padding style (this is the repaired code; see the refutation below) *)
Theorem C13_split_and_crop_lines_spec : forall segs n style pad incl, 0 <= n ->
  shape_ok_b n style pad incl (split_lines segs) (split_and_crop_lines false segs n style pad incl) = true.
Proof. exact split_and_crop_lines_spec. Qed.
Print Assumptions C13_split_and_crop_lines_spec.

(* (8) set_shape: given lines shaped to the width, blank padding lines up to the height *)
Theorem C13_set_shape_spec : forall lines width height style, 0 <= width ->
  let out := set_shape lines width height style in
  let h := match height with None => length lines | Some h => Z.to_nat h end in
  shape_ok_b width style true false lines (firstn (length lines) out) = true /\
  forallb (fun l => adjust_ok_b [] width style true l) (skipn (length lines) out) = true /\
  length out = Nat.max (length lines) h.
Proof. exact set_shape_spec. Qed.
Print Assumptions C13_set_shape_spec.

Example C13_shaping_nonvacuous :
  split_and_crop_lines false [mkSeg [97; 10; 12354; 12354] (Some 1) false] 3 (Some 7) true false
  = [[mkSeg [97] (Some 1) false; mkSeg [32; 32] (Some 7) false]; [mkSeg [12354; 32] (Some 1) false]].
Proof. vm_compute. reflexivity. Qed.

(* The behaviour of rich 9.10.0 as found (loop variable shadowing the padding style) violates the
   shaping contract; the witness was replayed on the implementation and repaired by a fix: commit. *)
Theorem C13_split_and_crop_asis_refuted : exists segs n style,
  shape_ok_b n style true false (split_lines segs) (split_and_crop_lines true segs n style true false) = false.
Proof. exists [mkSeg [10] None false], 1, (Some 0). vm_compute. reflexivity. Qed.
Print Assumptions C13_split_and_crop_asis_refuted.
