(* C07 -- Tables are rectangles that show every cell in its own column.
   Only property theorems live here; each is closed by `exact`/a one-line wrapper and followed by
   Print Assumptions.  Model: model/Ratio.v (rich/_ratio.py, Table._collapse_widths), model/Table.v
   (_calculate_column_widths, _measure_column, _render at the level of cell rectangles, box.py);
   cells are abstract (any measurement function, any rendering function).
   `bounded26` hypotheses: inside that range the exact rational rounding of the model is what
   CPython's float division + round/ceil computes (DESIGN section 3); the proofs do not need them. *)
From RichModel Require Import Prelude Cells Segments Ratio Table SpecTable.
From RichGen Require Import BoxChars.
From RichProofs Require Import RatioP TableP.

(* ================================================================= arithmetic kernels *)

(* ratio_distribute with the default minimums: non-negative parts that sum to the total *)
Theorem C07_ratio_distribute_sum : forall total ratios,
  bounded26 total -> Forall bounded26 ratios ->
  0 <= total -> Forall (fun r => 0 <= r) ratios -> 0 < sumZ ratios ->
  exists out, ratio_distribute total ratios None = Ok out /\
              distribute_sum_b total out = true /\ Forall (fun d => 0 <= d) out /\
              length out = length ratios.
Proof. intros total ratios _ _. exact (ratio_distribute_sum total ratios). Qed.
Print Assumptions C07_ratio_distribute_sum.

Example C07_ratio_distribute_nonvacuous : ratio_distribute 10 [1; 2; 0; 3] None = Ok [2; 4; 0; 4].
Proof. vm_compute. reflexivity. Qed.

(* with minimums the docstring's "guaranteed to sum to total" is false; what holds is >= *)
Theorem C07_ratio_distribute_sum_min_refuted :
  exists total ratios mins out,
    0 <= total /\ Forall (fun r => 0 < r) ratios /\ sumZ mins <= total /\
    ratio_distribute total ratios (Some mins) = Ok out /\ distribute_sum_b total out = false.
Proof. exact ratio_distribute_sum_min_refuted. Qed.
Print Assumptions C07_ratio_distribute_sum_min_refuted.

Theorem C07_ratio_distribute_ge : forall total ratios mins out,
  Forall (fun r => 0 <= r) (zip_mask ratios mins) -> length mins = length ratios -> mins <> [] ->
  ratio_distribute total ratios (Some mins) = Ok out -> total <= sumZ out.
Proof. exact ratio_distribute_ge. Qed.
Print Assumptions C07_ratio_distribute_ge.

(* every part reaches its minimum when every participating ratio is positive ... *)
Theorem C07_ratio_distribute_min : forall total ratios mins out,
  Forall (fun r => 0 < r) (zip_mask ratios mins) -> length mins = length ratios ->
  ratio_distribute total ratios (Some mins) = Ok out -> distribute_min_b mins out = true.
Proof. exact ratio_distribute_min. Qed.
Print Assumptions C07_ratio_distribute_min.

Example C07_ratio_distribute_min_nonvacuous :
  ratio_distribute 10 [1; 1] (Some [1; 9]) = Ok [5; 9] /\ distribute_min_b [1; 9] [5; 9] = true.
Proof. vm_compute. split; reflexivity. Qed.

(* ... and not when a zero ratio follows the last positive one (a `ratio=0` column after the
   other flexible columns ends up with width <= 0) *)
Theorem C07_ratio_distribute_min_refuted :
  exists total ratios mins out,
    Forall (fun r => 0 <= r) ratios /\ length mins = length ratios /\
    ratio_distribute total ratios (Some mins) = Ok out /\ distribute_min_b mins out = false.
Proof. exact ratio_distribute_min_refuted. Qed.
Print Assumptions C07_ratio_distribute_min_refuted.

(* ratio_reduce: each value goes down by 0..its maximum, by at most `total` overall ... *)
Theorem C07_ratio_reduce_bound : forall total ratios maxs vals,
  bounded26 total -> Forall bounded26 ratios ->
  length maxs = length ratios -> length vals = length ratios ->
  Forall (fun r => 0 <= r) ratios -> Forall (fun m => 0 <= m) maxs -> 0 <= total ->
  sumZ (zip_mask ratios maxs) <> 0 ->
  reduce_bound_b total maxs vals (ratio_reduce total ratios maxs vals) = true.
Proof. intros total ratios maxs vals _ _. exact (ratio_reduce_bound total ratios maxs vals). Qed.
Print Assumptions C07_ratio_reduce_bound.

(* ... by exactly `total` when no maximum can clip ... *)
Theorem C07_ratio_reduce_sum : forall total ratios maxs vals,
  bounded26 total -> Forall bounded26 ratios ->
  length maxs = length ratios -> length vals = length ratios ->
  Forall (fun r => 0 <= r) ratios -> 0 <= total -> Forall (fun m => total <= m /\ m <> 0) maxs ->
  0 < sumZ ratios ->
  reduce_sum_b total vals (ratio_reduce total ratios maxs vals) = true.
Proof. intros total ratios maxs vals _ _. exact (ratio_reduce_sum total ratios maxs vals). Qed.
Print Assumptions C07_ratio_reduce_sum.

Example C07_ratio_reduce_nonvacuous : ratio_reduce 5 [1; 1; 0] [5; 5; 5] [9; 9; 9] = [7; 6; 9].
Proof. vm_compute. reflexivity. Qed.

(* ... and the docstring's "guaranteed to sum to total" is false once a maximum clips *)
Theorem C07_ratio_reduce_sum_clipped_refuted :
  exists total ratios maxs vals,
    0 <= total /\ Forall (fun r => 0 < r) ratios /\ Forall (fun m => 0 < m) maxs /\
    reduce_sum_b total vals (ratio_reduce total ratios maxs vals) = false.
Proof. exact ratio_reduce_sum_clipped_refuted. Qed.
Print Assumptions C07_ratio_reduce_sum_clipped_refuted.

(* Table._collapse_widths: the `while` loop terminates within the model's own fuel (initial excess
   + 1; every pass removes at least one cell) and the result has the same length, is pointwise
   between 0 and the input, leaves non-wrapable columns alone, is never reduced below max_width,
   and sums to exactly max_width when every column may wrap -- for ALL width vectors. *)
Theorem C07_collapse_widths_spec : forall widths wrapable max_width,
  Forall bounded26 widths -> bounded26 max_width ->
  length wrapable = length widths -> Forall (fun w => 0 <= w) widths ->
  exists out, collapse_widths widths wrapable max_width = Ok out /\
              collapse_ok_b widths wrapable max_width out = true.
Proof.
  intros ws al mw _ _ Hl Hw. destruct (collapse_widths_spec ws al mw Hl Hw) as [out [H1 [H2 _]]].
  exists out. split; assumption.
Qed.
Print Assumptions C07_collapse_widths_spec.

Theorem C07_collapse_terminates : forall widths wrapable max_width,
  length wrapable = length widths -> Forall (fun w => 0 <= w) widths ->
  collapse_widths widths wrapable max_width <> Crash K_OutOfFuel.
Proof. exact collapse_fuel_enough. Qed.
Print Assumptions C07_collapse_terminates.

Example C07_collapse_nonvacuous : collapse_widths [10; 3; 8] [true; true; true] 12 = Ok [4; 3; 5].
Proof. vm_compute. reflexivity. Qed.

(* ================================================================= the rendered table *)

(* every Box(...) literal of rich/box.py (regenerated each run) has one-cell characters *)
Theorem C07_boxes_one_cell : forall i b, nth_box i = Some b -> box_w1 b = true.
Proof. exact nth_box_w1. Qed.
Print Assumptions C07_boxes_one_cell.

(* box rows are built from the same width vector: top, every separator level, bottom have cell
   width borders + sum of the widths *)
Theorem C07_box_rows_same_widths : forall b widths lv edge,
  box_w1 b = true -> widths <> [] -> Forall (fun w => 0 <= w) widths ->
  cell_len (get_top b widths) = box_extra true (length widths) + sumZ widths /\
  cell_len (get_bottom b widths) = box_extra true (length widths) + sumZ widths /\
  cell_len (get_row b widths lv edge) = box_extra edge (length widths) + sumZ widths.
Proof.
  intros b ws lv e H1 H2 H3.
  split; [exact (get_top_len b ws H1 H2 H3)|split; [exact (get_bottom_len b ws H1 H2 H3)|exact (get_row_len b ws lv e H1 H2 H3)]].
Qed.
Print Assumptions C07_box_rows_same_widths.

(* Every line of a rendered table body has the same cell width - borders plus the column widths.
   For ANY cells (crender is an arbitrary function from the column width to lines), any box with
   one-cell characters or none, any show_header/footer/edge/lines/leading/end_section, any
   non-negative width vector: rendering succeeds (no IndexError) and every line has cell width
   _extra_width + sum(widths).  `false` = blank `leading` rows on lines of their own (the repaired
   code, tied to /repo by gen/BoxChars.LEADING_MULTIPLIED below). *)
Theorem C07_table_rows_equal_width : forall o b widths rows,
  box_agrees o b -> widths <> [] -> Forall (fun w => 0 <= w) widths ->
  Forall (fun r => length (r_cells r) = length widths) rows ->
  exists lines, render_table false o b widths rows = Ok lines /\
                expand_exact_b (extra_width o (length widths) + sumZ widths) (map line_text lines) = true /\
                rect_b (map line_text lines) = true.
Proof. exact table_rows_equal_width. Qed.
Print Assumptions C07_table_rows_equal_width.

Example C07_table_rows_equal_width_nonvacuous :
  match render_table false d11_opts d11_box [1; 1] d11_rows with
  | Ok lines => length lines = 6%nat /\ map line_text lines <> [] /\ rect_b (map line_text lines) = true
  | _ => False
  end.
Proof. vm_compute. repeat split; discriminate. Qed.

(* D11: rich 9.10.0 as found multiplies the blank `leading` row inside one line *)
Theorem C07_table_leading_asis_refuted :
  exists o b widths rows lines,
    box_agrees o b /\ widths <> [] /\ Forall (fun w => 0 <= w) widths /\
    Forall (fun r => length (r_cells r) = length widths) rows /\
    render_table true o b widths rows = Ok lines /\ rect_b (map line_text lines) = false.
Proof. exact table_leading_asis_refuted. Qed.
Print Assumptions C07_table_leading_asis_refuted.

(* T3 tie: the `leading` branch of Table._render in /repo today emits the blank row once per line
   (breaks on the unrepaired tree, where the translator reports `true`) *)
Theorem C07_leading_fact : LEADING_MULTIPLIED = false.
Proof. reflexivity. Qed.

(* Rows appear in insertion order between the borders, each on lines of its own; what separates
   them are box rows built from the same widths. *)
Theorem C07_rows_in_order : forall lm o b widths rows lines,
  render_table lm o b widths rows = Ok lines ->
  exists blks,
    lines = table_top o b widths ++ concat blks ++ table_bottom o b widths /\
    Forall2 (fun ir blk =>
               let '(i, r) := ir in
               let first := (i =? 0)%nat in
               let last := (S i =? length rows)%nat in
               exists body, row_body o b widths first last r = Ok body /\
                 blk = row_pre o b widths last ++ body ++ row_post lm o b widths i (length rows) first last r)
            (indexed 0 rows) blks.
Proof. exact rows_in_order. Qed.
Print Assumptions C07_rows_in_order.

(* ================================================================= expand

   FULL STATEMENT (not proved in general):
     forall o cols avail ws, t_expand o = true ->
       Forall (fun c => c_width c = None /\ c_maxw c = None) cols -> smin <= avail ->
       table_widths false false o cols avail = Ok ws ->
       extra_width o (length cols) + sumZ ws = target_width o avail.
   PROVED (C07_table_expand_exact_partial): the case without ratio columns in which the table fits
   at its measured maxima (no collapse needed), for the code as found and as repaired.
   MISSING: the collapse path (needs: collapse leaves every column >= 1 when max_width >= #columns,
   and a cell contract "re-measuring at a smaller width returns that width") and ratio columns.
   Those paths are validated by expand_exact_b on the implementation's output for every generated
   table, and the code AS FOUND fails there: C07_table_expand_exact_stale_refuted (D21) and
   C07_table_expand_exact_capmin_refuted. *)
Theorem C07_table_expand_exact_partial : forall stale capmin o cols max_width,
  t_expand o = true -> (capmin = false \/ o_minw o = None) ->
  filter flexible cols = [] -> cols <> [] ->
  Forall (fun w => 1 <= w) (initial_widths o cols max_width) ->
  sumZ (initial_widths o cols max_width) <= max_width ->
  exists ws, calc_widths stale capmin o cols max_width = Ok ws /\ sumZ ws = max_width /\
             Forall (fun w => 1 <= w) ws /\ length ws = length cols.
Proof. exact calc_widths_expand_fits. Qed.
Print Assumptions C07_table_expand_exact_partial.

Example C07_table_expand_exact_nonvacuous :
  table_widths false false capmin_opts capmin_cols 40 = Ok [19; 18]
  /\ initial_widths capmin_opts capmin_cols 37 = [3; 3].
Proof. vm_compute. split; reflexivity. Qed.

(* ... composed with the rendering theorem: such a table is printed exactly `available` wide *)
Theorem C07_table_expand_exact_rendered : forall o b cols avail rows,
  box_agrees o b -> t_expand o = true -> filter flexible cols = [] -> cols <> [] ->
  let mw := target_width o avail - extra_width o (length cols) in
  Forall (fun w => 1 <= w) (initial_widths o cols mw) -> sumZ (initial_widths o cols mw) <= mw ->
  exists ws, table_widths false false o cols avail = Ok ws /\
    (Forall (fun r => length (r_cells r) = length ws) rows ->
     exists lines, render_table false o b ws rows = Ok lines /\
                   expand_exact_b (target_width o avail) (map line_text lines) = true).
Proof.
  intros o b cols avail rows Hb He Hf Hne mw Hp Hs.
  destruct (calc_widths_expand_fits false false o cols mw He (or_introl eq_refl) Hf Hne Hp Hs) as [ws [W1 [W2 [W3 W4]]]].
  exists ws. split; [exact W1|]. intros Hr.
  assert (Hne' : ws <> []) by (destruct ws; [destruct cols; [congruence|discriminate]|discriminate]).
  assert (Hw0 : Forall (fun w => 0 <= w) ws) by (eapply Forall_impl; [|exact W3]; simpl; intros; lia).
  destruct (table_rows_equal_width o b ws rows Hb Hne' Hw0 Hr) as [lines [L1 [L2 _]]].
  exists lines. split; [exact L1|]. rewrite W4, W2 in L2. unfold mw in L2.
  replace (extra_width o (length cols) + (target_width o avail - extra_width o (length cols)))
    with (target_width o avail) in L2 by lia. exact L2.
Qed.
Print Assumptions C07_table_expand_exact_rendered.

(* D21: as found, table_width is stale after the re-measure *)
Theorem C07_table_expand_exact_stale_refuted :
  exists o cols avail ws,
    t_expand o = true /\ o_minw o = None /\
    Forall (fun c => c_width c = None /\ c_maxw c = None /\ c_minw c = None /\ c_nowrap c = false) cols /\
    table_widths true true o cols avail = Ok ws /\
    extra_width o (length cols) + sumZ ws <> target_width o avail /\
    (exists ws', table_widths false false o cols avail = Ok ws' /\
                 extra_width o (length cols) + sumZ ws' = target_width o avail).
Proof. exact table_expand_exact_stale_refuted. Qed.
Print Assumptions C07_table_expand_exact_stale_refuted.

(* as found, `expand=True` together with `min_width` pads to min_width only *)
Theorem C07_table_expand_exact_capmin_refuted :
  exists o cols avail ws,
    t_expand o = true /\ filter flexible cols = [] /\
    Forall (fun c => c_width c = None /\ c_maxw c = None) cols /\
    table_widths false true o cols avail = Ok ws /\
    extra_width o (length cols) + sumZ ws <> target_width o avail /\
    (exists ws', table_widths false false o cols avail = Ok ws' /\
                 extra_width o (length cols) + sumZ ws' = target_width o avail).
Proof. exact table_expand_exact_capmin_refuted. Qed.
Print Assumptions C07_table_expand_exact_capmin_refuted.

(* cell_chars_in_own_column ("for fold columns every non-whitespace character of every cell
   appears, in order, inside that column's span and nowhere else"): NOT a theorem here -- it needs
   the wrapping model of C02 for the cell contents.  What is proved is the frame it lives in
   (C07_table_rows_equal_width + C07_rows_in_order: the cell rectangles are exactly the column
   spans computed from the width vector); the statement itself is checked by
   SpecTable.cells_in_columns_b on the implementation's output for every generated table, with the
   column spans recomputed from the top border of the output. *)
