(* C07 -- Tables are rectangles that show every cell in its own column.
   Only property theorems live here; each is closed by `exact`/a one-line wrapper and followed by
   Print Assumptions.  Model: model/Ratio.v (rich/_ratio.py, Table._collapse_widths), model/Table.v
   (_calculate_column_widths, _measure_column, _render at the level of cell rectangles, box.py);
   cells are abstract (any measurement function, any rendering function).
   `bounded26` hypotheses: inside that range the exact rational rounding of the model is what
   CPython's float division + round/ceil computes (DESIGN section 3); the proofs do not need them. *)
From RichModel Require Import Prelude Cells Segments Ratio Table SpecTable.
From RichModel Require Frames Layout Wrap.
From RichGen Require Import BoxChars.
From RichProofs Require Import RatioP TableP LayoutP2 TableP2 TableP3 TableP4.
(* T2 tie: ratio_reduce/ratio_distribute/_collapse_widths and the table padding arithmetic regenerated from /repo and proved equal to the hand model *)
From RichProofs.bridge Require BridgeRatio BridgeMeasure.

(* ================================================================= arithmetic kernels *)

(* ratio_distribute with the default minimums: non-negative parts that sum to the total *)
Theorem C07_ratio_distribute_sum : forall total ratios,
  bounded26 total -> Forall bounded26 ratios ->
  0 <= total -> Forall (fun r => 0 <= r) ratios -> 0 < sumZ ratios ->
  exists out, ratio_distribute total ratios None = Ok out /\
              distribute_sum_b total out = true /\ Forall (fun d => 0 <= d) out /\
              length out = length ratios.
Proof. intros total ratios _ _. exact (ratio_distribute_sum total ratios). Qed.
Print Assumptions C07_ratio_distribute_sum.

Example C07_ratio_distribute_nonvacuous : ratio_distribute 10 [1; 2; 0; 3] None = Ok [2; 4; 0; 4].
Proof. vm_compute. reflexivity. Qed.

(* with minimums the docstring's "guaranteed to sum to total" is false; what holds is >= *)
Theorem C07_ratio_distribute_sum_min_refuted :
  exists total ratios mins out,
    0 <= total /\ Forall (fun r => 0 < r) ratios /\ sumZ mins <= total /\
    ratio_distribute total ratios (Some mins) = Ok out /\ distribute_sum_b total out = false.
Proof. exact ratio_distribute_sum_min_refuted. Qed.
Print Assumptions C07_ratio_distribute_sum_min_refuted.

Theorem C07_ratio_distribute_ge : forall total ratios mins out,
  Forall (fun r => 0 <= r) (zip_mask ratios mins) -> length mins = length ratios -> mins <> [] ->
  ratio_distribute total ratios (Some mins) = Ok out -> total <= sumZ out.
Proof. exact ratio_distribute_ge. Qed.
Print Assumptions C07_ratio_distribute_ge.

(* every part reaches its minimum when every participating ratio is positive ... *)
Theorem C07_ratio_distribute_min : forall total ratios mins out,
  Forall (fun r => 0 < r) (zip_mask ratios mins) -> length mins = length ratios ->
  ratio_distribute total ratios (Some mins) = Ok out -> distribute_min_b mins out = true.
Proof. exact ratio_distribute_min. Qed.
Print Assumptions C07_ratio_distribute_min.

Example C07_ratio_distribute_min_nonvacuous :
  ratio_distribute 10 [1; 1] (Some [1; 9]) = Ok [5; 9] /\ distribute_min_b [1; 9] [5; 9] = true.
Proof. vm_compute. split; reflexivity. Qed.

(* ... and not when a zero ratio follows the last positive one (a `ratio=0` column after the
   other flexible columns ends up with width <= 0) *)
Theorem C07_ratio_distribute_min_refuted :
  exists total ratios mins out,
    Forall (fun r => 0 <= r) ratios /\ length mins = length ratios /\
    ratio_distribute total ratios (Some mins) = Ok out /\ distribute_min_b mins out = false.
Proof. exact ratio_distribute_min_refuted. Qed.
Print Assumptions C07_ratio_distribute_min_refuted.

(* ratio_reduce: each value goes down by 0..its maximum, by at most `total` overall ... *)
Theorem C07_ratio_reduce_bound : forall total ratios maxs vals,
  bounded26 total -> Forall bounded26 ratios ->
  length maxs = length ratios -> length vals = length ratios ->
  Forall (fun r => 0 <= r) ratios -> Forall (fun m => 0 <= m) maxs -> 0 <= total ->
  sumZ (zip_mask ratios maxs) <> 0 ->
  reduce_bound_b total maxs vals (ratio_reduce total ratios maxs vals) = true.
Proof. intros total ratios maxs vals _ _. exact (ratio_reduce_bound total ratios maxs vals). Qed.
Print Assumptions C07_ratio_reduce_bound.

(* ... by exactly `total` when no maximum can clip ... *)
Theorem C07_ratio_reduce_sum : forall total ratios maxs vals,
  bounded26 total -> Forall bounded26 ratios ->
  length maxs = length ratios -> length vals = length ratios ->
  Forall (fun r => 0 <= r) ratios -> 0 <= total -> Forall (fun m => total <= m /\ m <> 0) maxs ->
  0 < sumZ ratios ->
  reduce_sum_b total vals (ratio_reduce total ratios maxs vals) = true.
Proof. intros total ratios maxs vals _ _. exact (ratio_reduce_sum total ratios maxs vals). Qed.
Print Assumptions C07_ratio_reduce_sum.

Example C07_ratio_reduce_nonvacuous : ratio_reduce 5 [1; 1; 0] [5; 5; 5] [9; 9; 9] = [7; 6; 9].
Proof. vm_compute. reflexivity. Qed.

(* ... and the docstring's "guaranteed to sum to total" is false once a maximum clips *)
Theorem C07_ratio_reduce_sum_clipped_refuted :
  exists total ratios maxs vals,
    0 <= total /\ Forall (fun r => 0 < r) ratios /\ Forall (fun m => 0 < m) maxs /\
    reduce_sum_b total vals (ratio_reduce total ratios maxs vals) = false.
Proof. exact ratio_reduce_sum_clipped_refuted. Qed.
Print Assumptions C07_ratio_reduce_sum_clipped_refuted.

(* Table._collapse_widths: the `while` loop terminates within the model's own fuel (initial excess
   + 1; every pass removes at least one cell) and the result has the same length, is pointwise
   between 0 and the input, leaves non-wrapable columns alone, is never reduced below max_width,
   and sums to exactly max_width when every column may wrap -- for ALL width vectors. *)
Theorem C07_collapse_widths_spec : forall widths wrapable max_width,
  Forall bounded26 widths -> bounded26 max_width ->
  length wrapable = length widths -> Forall (fun w => 0 <= w) widths ->
  exists out, collapse_widths widths wrapable max_width = Ok out /\
              collapse_ok_b widths wrapable max_width out = true.
Proof.
  intros ws al mw _ _ Hl Hw. destruct (collapse_widths_spec ws al mw Hl Hw) as [out [H1 [H2 _]]].
  exists out. split; assumption.
Qed.
Print Assumptions C07_collapse_widths_spec.

Theorem C07_collapse_terminates : forall widths wrapable max_width,
  length wrapable = length widths -> Forall (fun w => 0 <= w) widths ->
  collapse_widths widths wrapable max_width <> Crash K_OutOfFuel.
Proof. exact collapse_fuel_enough. Qed.
Print Assumptions C07_collapse_terminates.

Example C07_collapse_nonvacuous : collapse_widths [10; 3; 8] [true; true; true] 12 = Ok [4; 3; 5].
Proof. vm_compute. reflexivity. Qed.

(* ================================================================= the rendered table *)

(* every Box(...) literal of rich/box.py (regenerated each run) has one-cell characters *)
Theorem C07_boxes_one_cell : forall i b, nth_box i = Some b -> box_w1 b = true.
Proof. exact nth_box_w1. Qed.
Print Assumptions C07_boxes_one_cell.

(* box rows are built from the same width vector: top, every separator level, bottom have cell
   width borders + sum of the widths *)
Theorem C07_box_rows_same_widths : forall b widths lv edge,
  box_w1 b = true -> widths <> [] -> Forall (fun w => 0 <= w) widths ->
  cell_len (get_top b widths) = box_extra true (length widths) + sumZ widths /\
  cell_len (get_bottom b widths) = box_extra true (length widths) + sumZ widths /\
  cell_len (get_row b widths lv edge) = box_extra edge (length widths) + sumZ widths.
Proof.
  intros b ws lv e H1 H2 H3.
  split; [exact (get_top_len b ws H1 H2 H3)|split; [exact (get_bottom_len b ws H1 H2 H3)|exact (get_row_len b ws lv e H1 H2 H3)]].
Qed.
Print Assumptions C07_box_rows_same_widths.

(* Every line of a rendered table body has the same cell width - borders plus the column widths.
   For ANY cells (crender is an arbitrary function from the column width to lines), any box with
   one-cell characters or none, any show_header/footer/edge/lines/leading/end_section, any
   non-negative width vector: rendering succeeds (no IndexError) and every line has cell width
   _extra_width + sum(widths).  `false` = blank `leading` rows on lines of their own (the repaired
   code, tied to /repo by gen/BoxChars.LEADING_MULTIPLIED below). *)
Theorem C07_table_rows_equal_width : forall o b widths rows,
  box_agrees o b -> widths <> [] -> Forall (fun w => 0 <= w) widths ->
  Forall (fun r => length (r_cells r) = length widths) rows ->
  exists lines, render_table false o b widths rows = Ok lines /\
                expand_exact_b (extra_width o (length widths) + sumZ widths) (map line_text lines) = true /\
                rect_b (map line_text lines) = true.
Proof. exact table_rows_equal_width. Qed.
Print Assumptions C07_table_rows_equal_width.

Example C07_table_rows_equal_width_nonvacuous :
  match render_table false d11_opts d11_box [1; 1] d11_rows with
  | Ok lines => length lines = 6%nat /\ map line_text lines <> [] /\ rect_b (map line_text lines) = true
  | _ => False
  end.
Proof. vm_compute. repeat split; discriminate. Qed.

(* D11: rich 9.10.0 as found multiplies the blank `leading` row inside one line *)
Theorem C07_table_leading_asis_refuted :
  exists o b widths rows lines,
    box_agrees o b /\ widths <> [] /\ Forall (fun w => 0 <= w) widths /\
    Forall (fun r => length (r_cells r) = length widths) rows /\
    render_table true o b widths rows = Ok lines /\ rect_b (map line_text lines) = false.
Proof. exact table_leading_asis_refuted. Qed.
Print Assumptions C07_table_leading_asis_refuted.

(* T3 tie: the `leading` branch of Table._render in /repo today emits the blank row once per line
   (breaks on the unrepaired tree, where the translator reports `true`) *)
Theorem C07_leading_fact : LEADING_MULTIPLIED = false.
Proof. reflexivity. Qed.

(* The options a cell is rendered under are its column's (justify, overflow, no_wrap), whatever the
   table itself inherits (console.print(table, no_wrap=True), soft_wrap, options.update(...)): Table
   passes all three to ConsoleOptions.update, and update keeps only on None.  Tied to /repo by the T3
   fact UPDATE_NONE_KEEPS (every field of ConsoleOptions.update is guarded by `is not None`); with a
   truthiness test an inherited no_wrap could not be switched off and fold columns would be cut. *)
Theorem C07_cell_options_override : forall inh j ov nw,
  cell_copts UPDATE_NONE_KEEPS inh j ov nw = mkCopts j ov nw.
Proof. intros inh j ov nw. unfold cell_copts, co_update. destruct nw; reflexivity. Qed.
Print Assumptions C07_cell_options_override.

Theorem C07_cell_options_truthiness_refuted : exists inh j ov nw,
  cell_copts false inh j ov nw <> mkCopts j ov nw.
Proof. exists (mkCopts 0 0 true), 0, 0, false. discriminate. Qed.
Print Assumptions C07_cell_options_truthiness_refuted.

(* Rows appear in insertion order between the borders, each on lines of its own; what separates
   them are box rows built from the same widths. *)
Theorem C07_rows_in_order : forall lm o b widths rows lines,
  render_table lm o b widths rows = Ok lines ->
  exists blks,
    lines = table_top o b widths ++ concat blks ++ table_bottom o b widths /\
    Forall2 (fun ir blk =>
               let '(i, r) := ir in
               let first := (i =? 0)%nat in
               let last := (S i =? length rows)%nat in
               exists body, row_body o b widths first last r = Ok body /\
                 blk = row_pre o b widths last ++ body ++ row_post lm o b widths i (length rows) first last r)
            (indexed 0 rows) blks.
Proof. exact rows_in_order. Qed.
Print Assumptions C07_rows_in_order.

(* ================================================================= expand

   "When the table is asked to expand (and no column carries an explicit width cap) that width is
   exactly the available width", for available widths at or above the structural minimum.
   Domain = Table.expand_dom_b, the SAME boolean the harness evaluates before it demands
   expand_exact_b of the implementation's printed table: expand (or Table.width) set; no column has
   width, min_width or no_wrap (max_width and ratio, if given, >= 1 -- a max_width cap does not
   even disturb exactness, so it is allowed although the property text excludes it); horizontal
   padding >= 0; one cell per column beyond the borders (structural minimum).  Cells: ANY cells whose
   Measurement.get is normalised (cell_fun_ok; always true of what Measurement.get returns, proved
   for text cells: text_cells_ok).  EVERY path of the repaired _calculate_column_widths: ratio
   columns, collapse, re-measure, table min_width; the solver does not fail (no AssertionError /
   StopIteration / fuel), every column keeps >= 1 cell, borders + widths = the width asked for, and
   every printed body line is exactly that wide.  Rests on C01's collapse_keeps_pos.  `fm` = both
   variants of the flexible minimum of ratio columns (as found / fixes/C07_ratio_column_minimum.diff);
   table_widths_x false = table_widths (TableP2.calc_widths_x_false). *)
Theorem C07_table_expand_exact : forall fm o b cols avail rows,
  box_agrees o b -> expand_dom_b o cols avail = true ->
  Forall (fun c => Forall cell_fun_ok (c_cells c)) cols ->
  exists ws, table_widths_x fm false false o cols avail = Ok ws /\ length ws = length cols /\
    Forall (fun w => 1 <= w) ws /\
    extra_width o (length cols) + sumZ ws = target_width o avail /\
    (Forall (fun r => length (r_cells r) = length ws) rows ->
     exists lines, render_table false o b ws rows = Ok lines /\
                   expand_exact_b (target_width o avail) (map line_text lines) = true).
Proof. exact table_expand_exact_dom. Qed.
Print Assumptions C07_table_expand_exact.

(* non-vacuous on the ratio + collapse + re-measure path (the D21 witness) and the plain path *)
Example C07_table_expand_exact_nonvacuous :
  expand_dom_b d21_opts d21_cols 28 = true /\ Forall (fun c => Forall cell_fun_ok (c_cells c)) d21_cols /\
  table_widths false false d21_opts d21_cols 28 = Ok [7; 5; 12] /\
  expand_dom_b capmin_opts capmin_cols 40 = true /\ table_widths false false capmin_opts capmin_cols 40 = Ok [19; 18].
Proof.
  split; [vm_compute; reflexivity|]. split; [unfold d21_cols; repeat (constructor; [cbn [c_cells]; apply text_cells_ok|]); constructor|].
  split; [vm_compute; reflexivity|]. split; vm_compute; reflexivity.
Qed.

(* the domain's "no column min_width" is needed (column min_width is outside C07's quantifier):
   the collapse levels such a column like any other, the re-measure clamps it back up *)
Example C07_table_expand_exact_minw_needed :
  calc_widths false false minw_opts minw_cols 24 = Ok [10; 8; 8] /\ sumZ [10; 8; 8] <> 24.
Proof. exact table_expand_exact_minw_needed. Qed.

(* KNOWN FINDING C07-ratio-column-one-cell: as found, a ratio column is only guaranteed
   (width or 1) + padding cells; in the expand domain, far above the structural minimum, it can get
   fewer cells than the measured minimum of its cell (a double-width character then disappears);
   with the measured minimum as flexible minimum (the proposed fix) it does not *)
Theorem C07_ratio_column_minimum_asis_refuted :
  exists o cols avail ws w0 rest,
    expand_dom_b o cols avail = true /\
    table_widths_x false false false o cols avail = Ok ws /\ ws = w0 :: rest /\
    (exists c cs f fs, cols = c :: cs /\ c_cells c = f :: fs /\ w0 < fst (f avail)) /\
    (exists ws', table_widths_x true false false o cols avail = Ok ws' /\ ws' = [2; 18]).
Proof. exact ratio_column_minimum_asis_refuted. Qed.
Print Assumptions C07_ratio_column_minimum_asis_refuted.

(* D21: as found, table_width is stale after the re-measure *)
Theorem C07_table_expand_exact_stale_refuted :
  exists o cols avail ws,
    t_expand o = true /\ o_minw o = None /\
    Forall (fun c => c_width c = None /\ c_maxw c = None /\ c_minw c = None /\ c_nowrap c = false) cols /\
    table_widths true true o cols avail = Ok ws /\
    extra_width o (length cols) + sumZ ws <> target_width o avail /\
    (exists ws', table_widths false false o cols avail = Ok ws' /\
                 extra_width o (length cols) + sumZ ws' = target_width o avail).
Proof. exact table_expand_exact_stale_refuted. Qed.
Print Assumptions C07_table_expand_exact_stale_refuted.

(* as found, `expand=True` together with `min_width` pads to min_width only *)
Theorem C07_table_expand_exact_capmin_refuted :
  exists o cols avail ws,
    t_expand o = true /\ filter flexible cols = [] /\
    Forall (fun c => c_width c = None /\ c_maxw c = None) cols /\
    table_widths false true o cols avail = Ok ws /\
    extra_width o (length cols) + sumZ ws <> target_width o avail /\
    (exists ws', table_widths false false o cols avail = Ok ws' /\
                 extra_width o (length cols) + sumZ ws' = target_width o avail).
Proof. exact table_expand_exact_capmin_refuted. Qed.
Print Assumptions C07_table_expand_exact_capmin_refuted.

(* ================================================================= every cell in its own column

   For ANY cells whose lines fit their column width (raw_ok: line_len <= w; content characters are
   at least one cell wide): the content characters (not whitespace, not box characters) found inside
   column j's span of the printed table -- spans computed from the width vector as col_spans does --
   are exactly those of column j's cells, row after row, line after line, and no content character
   lies outside a span or across a boundary.  Header and footer are rows like the others. *)
Theorem C07_cells_in_columns_any_cells : forall o b widths rows lines,
  box_agrees o b -> Forall (fun w => 0 <= w) widths ->
  Forall (row_fit (skip_of b) widths) rows -> render_table false o b widths rows = Ok lines ->
  cells_in_columns_b widths (o_box o) (o_edge o) (skip_of b)
    (map (fun e => (true, e)) (table_vals b widths rows)) (map line_text lines) = true.
Proof. intros o b widths rows lines Hb Hw. exact (render_table_cells_in_columns o b widths Hb Hw rows lines). Qed.
Print Assumptions C07_cells_in_columns_any_cells.

(* ... and text cells with overflow "fold" are such cells: Text, or Padding(Text) as _get_cells
   builds it, rendered through Console.render_lines at the column width (C01's Layout.text_child /
   Frames.padding_child), keeps every non-whitespace character of the text, in order (C02:
   wrap_keeps_nonspace_all, wrap_fits_all), provided the column leaves two cells of content width
   (cell_room) and the text has no zero-width non-whitespace characters (wide_ok).  Hence: for
   columns with overflow fold every non-whitespace character of every cell appears, in order,
   inside that column's span of cells and nowhere else -- all rows, by induction over the rows. *)
Theorem C07_cell_chars_in_own_column : forall cf o b widths rows lines,
  box_agrees o b -> widths <> [] -> Forall (fun w => 0 <= w) widths ->
  Forall (trow_ok (skip_of b) widths) rows ->
  render_table false o b widths (map (text_row cf) rows) = Ok lines ->
  cells_in_columns_b widths (o_box o) (o_edge o) (skip_of b)
    (map (fun e => (true, e)) (col_texts (skip_of b) (length widths) rows)) (map line_text lines) = true.
Proof. exact table_text_cells_in_columns. Qed.
Print Assumptions C07_cell_chars_in_own_column.

Definition cc_ro : Layout.ropts := Layout.mkRO None (Some Wrap.OV_FOLD) false.
Definition cc_pad : option (Z * Z * Z * Z) := Some (0, 1, 0, 1).
Definition cc_rows : list (list tcell * bool) :=
  [([(cc_pad, cc_ro, lit "ab cd"); (cc_pad, cc_ro, [12354; 12354; 120])], false);
   ([(cc_pad, cc_ro, lit "e"); (cc_pad, cc_ro, lit "fg hij")], false)].
Example C07_cell_chars_nonvacuous :
  Forall (trow_ok (skip_of d11_box) [4; 5]) cc_rows /\
  match render_table false d11_opts d11_box [4; 5] (map (text_row (Layout.mkCfg 80 true)) cc_rows) with
  | Ok lines => map line_text lines <> [] /\
                col_texts (skip_of d11_box) 2 cc_rows = [lit "abcde"; [12354; 12354; 120] ++ lit "fghij"]
  | _ => False
  end.
Proof.
  assert (T : forall w s, 4 <= w -> wide_ok (skip_of d11_box) s -> tcell_ok (skip_of d11_box) (w, (cc_pad, cc_ro, s))).
  { intros w s Hw Hs. unfold tcell_ok. split; [split; [reflexivity|right; reflexivity]|].
    split; [cbn [cell_room cc_pad]; lia|exact Hs]. }
  assert (Wk : forall s, forallb (fun c => negb (keepc (skip_of d11_box) c) || (1 <=? char_size c)) s = true ->
                         wide_ok (skip_of d11_box) s).
  { intros s H. rewrite forallb_forall in H. apply Forall_forall. intros c Hc Hk. specialize (H c Hc).
    rewrite Hk in H. cbn [negb orb] in H. apply Z.leb_le. exact H. }
  split.
  - unfold cc_rows.
    repeat (apply Forall_cons;
            [split; [reflexivity|cbn [combine fst];
                     repeat (apply Forall_cons; [apply T; [lia|apply Wk; vm_compute; reflexivity]|]); apply Forall_nil]|]).
    apply Forall_nil.
  - vm_compute. split; [discriminate|reflexivity].
Qed.
