(* dumb line pump: bytes -> extracted Z list -> Model.run_line -> bytes *)
let rec pos_of_int n =
  if n = 1 then Model.XH
  else if n land 1 = 0 then Model.XO (pos_of_int (n lsr 1))
  else Model.XI (pos_of_int (n lsr 1))
let z_of_int n = if n = 0 then Model.Z0 else Model.Zpos (pos_of_int n)
let rec int_of_pos = function
  | Model.XH -> 1
  | Model.XO p -> 2 * int_of_pos p
  | Model.XI p -> 2 * int_of_pos p + 1
let int_of_z = function Model.Z0 -> 0 | Model.Zpos p -> int_of_pos p | Model.Zneg _ -> 63
let () =
  let buf = Buffer.create 4096 in
  try
    while true do
      let line = input_line stdin in
      let n = String.length line in
      let rec explode i acc = if i < 0 then acc else explode (i - 1) (z_of_int (Char.code line.[i]) :: acc) in
      let out = Model.run_line (explode (n - 1) []) in
      Buffer.clear buf;
      List.iter (fun z -> Buffer.add_char buf (Char.chr (int_of_z z land 255))) out;
      Buffer.add_char buf '\n';
      print_string (Buffer.contents buf)
    done
  with End_of_file -> ()
