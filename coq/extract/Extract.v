(* Extraction of the executable models: ExtrOcamlBasic only; Z/N/positive stay inductive. *)
From Coq Require Extraction.
From Coq Require Import ExtrOcamlBasic.
From RichModel Require Import Driver.
Extraction "model.ml" Driver.run_line.
