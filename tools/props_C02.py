CONFIG = {
        "props_file": "props/C02.v",
        "layers": ["wrap", "t2"],
        "ops": {"t2": ["t2.chop_cells", "t2.set_cell_size", "t2.cw_range"]},
        "drv_modules": ["DrvWrap", "DrvT2Cells"],
        "gen_files": ["UnicodeSpace.v", "WrapFacts.v", "CellWidthTable.v", "T2_Cells.v"],
        "exhaustive": [
            "all 1,114,112 code points: model is_space (generated range list) vs str.isspace, re \\s, re \\S, str.strip, str.rstrip, str.split, \\s+$",
        ],
        "theorems": {
            "C02_wrap_fits": "full: every string/span set, width >= 1, every justify mode, every overflow except ignore, wrapped or no_wrap, both model variants",
            "C02_divide_line_lines_fit": "full (central lemma): offsets monotone, lines concatenate to the string, every line right-stripped fits; all strings incl. zero-width/double-width/any whitespace, width >= 2",
            "C02_wrap_keeps_nonspace": "full: all strings incl. tabs/newlines/zero-width/double-width, all span sets, widths >= 2, every justify mode incl. full, overflow fold, both model variants",
            "C02_wrap_breaks_only_long_words": "full, at the level of Text.wrap's output (breaks_only_long_b): all strings incl. tabs/newlines, widths >= 2, every justify mode, both model variants",
            "C02_divide_line_breaks_only_long": "full: every break offset is a word start or lies inside a word wider than the width",
            "C02_wrap_styles": "full, ONE theorem at the level of Text.wrap: every overflow mode, every justify mode incl. full, wrapped or no_wrap, all strings, ALL span sets, widths >= 2; repaired divide/pad_left (= /repo now); hypothesis: style equality is decidable (seqb reflects =)",
            "C02_divide_styles": "full for the repaired Text.divide: every character keeps exactly its ordered covering styles, no hypothesis on the spans",
            "C02_divide_styles_asis_partial": "the pre-fix Text.divide is correct when all span styles are pairwise different",
            "C02_wrap_styles_asis_refuted": "refutation witness (D15, fixed in /repo): value-keyed order dict changes which colour wins",
            "C02_wrap_styles_pad_asis_refuted": "refutation witness (fixed in /repo): justify center/right + overflow=ignore shifts spans by a negative pad",
        },
        "level_text": "Machine-checked Coq theorems, unbounded in strings, span sets and widths, about an executable model of rich._wrap (words, divide_line) and Text.wrap with everything it calls (split, expand_tabs, divide, Span.split, rstrip_end, truncate, pad, Lines.justify). The interpreter's whitespace class is regenerated and compared on every code point; regex sources, call-site keywords and pass order of Text.wrap are regenerated from /repo and pinned by proof; model and implementation are compared per output line (characters and, per character, the ordered covering style tokens) on generated inputs, and the four spec checkers of the theorems are evaluated on the implementation's own output.",
        "level_note": "Main model variant = repaired (fixes/C02_divide_span_order.diff and fixes/C02_pad_negative_count.diff, both committed in /repo); on a tree without them the corpus witnesses fail styles_kept_b on the implementation (VIOLATION). Styles are abstract tokens; on the implementation side a duck-typed free 'later wins' style algebra replaces rich.style.Style (Text.wrap never renders). Input domain excludes the four characters Text.__init__ strips (C05/D1). Whitespace characters are not compared by (c): padding, tab expansion and justify regenerate whitespace (a space inserted by justify='full' takes the style of its neighbours by design).",
        "assumptions": [
            "CPython str/list/dict/re semantics as modelled (str.isspace class regenerated and swept exhaustively)",
            "styles are opaque values with a decidable equality (dict-key equality of Span tuples)",
            "plain text free of \\x08 \\x0b \\x0c \\r (stripped by Text.__init__, outside C02)",
        ],
    }
