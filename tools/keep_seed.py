#!/venv/bin/python
"""keep_seed.py <pid> <srcdir> <name> <caught: yes|no> "<what the check reported>"  -> /verif/seeded/<pid>-<name>/"""
import json, os, shutil, sys
pid, src, name, caught, reported = sys.argv[1:6]
dst = f"/verif/seeded/{pid}-{name}"
os.makedirs(dst, exist_ok=True)
for f in ("patch.diff", "demo.py"):
    shutil.copy(os.path.join(src, f), dst)
meta = json.load(open(os.path.join(src, "meta.json"))) if os.path.exists(os.path.join(src, "meta.json")) else {}
meta.update({"property": pid, "caught_by_check": caught, "check_reported": reported,
             "what_was_run": "tools/try_seed.sh: scratch worktree of /repo; demo exits 0 on pristine and 1 with the patch; tools/run_baseline.py unchanged (430 pass); VERIF_REPO=<worktree> ./check " + pid})
json.dump(meta, open(os.path.join(dst, "meta.json"), "w"), indent=1)
print(dst)
