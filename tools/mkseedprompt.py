#!/venv/bin/python
"""print the prompt for a mutation-seeding sub-agent: only the property text and a worktree path"""
import json, sys
pid = sys.argv[1]; n = int(sys.argv[2]) if len(sys.argv) > 2 else 3
props = {json.loads(l)['id']: json.loads(l) for l in open('/verif/properties.jsonl')}
p = props[pid]
print(open('/verif/tools/SEED_PROMPT.md').read().format(
    WT=f"/tmp/seedwt_{pid}", TITLE=p['title'], STATEMENT=p['statement'], QUANT=p['quantifier']['text'],
    FILES=", ".join(p['anchors']['files']), N=n, ID=pid))
