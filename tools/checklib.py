"""The check driver (DESIGN section 6): translate -> build -> hygiene -> correspondence ->
witness replay -> decide -> evidence."""
import fcntl, glob, hashlib, json, os, random, re, subprocess, sys, time

VERIF = os.path.dirname(os.path.dirname(os.path.abspath(__file__)))
COQ = os.path.join(VERIF, "coq")
BUILD = os.path.join(COQ, "build")
PY = "/venv/bin/python"
sys.path.insert(0, os.path.join(VERIF, "tools"))
sys.path.insert(0, os.path.join(VERIF, "tools", "corr"))

import common  # noqa: E402
from props import PROPS  # noqa: E402

FORBIDDEN = re.compile(
    r"\b(Admitted|admit|Axiom|Axioms|Parameter|Parameters|Conjecture|Abort All)\b|Unset\s+Guard|bypass_check|"
    r"type-in-type|impredicative-set|Admit\s+Obligations|Unset\s+Universe\s+Checking|Unset\s+Positivity")
OBLIGATION = re.compile(r"^\s*(?:Local\s+|Global\s+|#\[[^\]]*\]\s*)*(Theorem|Lemma|Corollary|Example|Fact|Proposition|Remark)\s+([A-Za-z0-9_']+)", re.M)

ALLOWED_AXIOMS = set()   # the development is meant to be closed under the global context


def sh(cmd, cwd=None, timeout=3600, env=None):
    p = subprocess.run(cmd, shell=True, cwd=cwd, stdout=subprocess.PIPE, stderr=subprocess.STDOUT,
                       timeout=timeout, env=env)
    out = p.stdout.decode(errors="replace")
    out = "\n".join(l for l in out.split("\n") if "conda.cli.condarc" not in l)
    return p.returncode, out


class Lock:
    def __enter__(self):
        os.makedirs(BUILD, exist_ok=True)
        self.f = open(os.path.join(BUILD, ".lock"), "w")
        fcntl.flock(self.f, fcntl.LOCK_EX)
        return self

    def __exit__(self, *a):
        fcntl.flock(self.f, fcntl.LOCK_UN)
        self.f.close()


def strip_comments(src):
    out = []
    depth = 0
    i = 0
    n = len(src)
    while i < n:
        if src.startswith("(*", i):
            depth += 1
            i += 2
        elif src.startswith("*)", i) and depth > 0:
            depth -= 1
            i += 2
        else:
            if depth == 0:
                out.append(src[i])
            i += 1
    return "".join(out)


# ------------------------------------------------------------------ steps 1-2

def translate():
    rc, out = sh(f"{PY} {VERIF}/tools/translate/run.py")
    line = [l for l in out.split("\n") if l.startswith("{")]
    if rc != 0 or not line:
        return {"error": out[-2000:], "files": {}, "untranslatable": [{"file": "*", "why": "translator crashed"}],
                "differs_from_baseline": []}
    return json.loads(line[-1])


def vfiles():
    fs = []
    for d in ("gen", "model", "proofs", "props", "extract"):
        fs += sorted(glob.glob(os.path.join(COQ, d, "**", "*.v"), recursive=True))
    return [os.path.relpath(f, COQ) for f in fs]


def ensure_makefile():
    files = vfiles()
    with open(os.path.join(COQ, "_CoqProject")) as f:
        head = f.read()
    text = head + "\n".join(files) + "\n"
    path = os.path.join(COQ, "_CoqProject.all")
    old = open(path).read() if os.path.exists(path) else None
    if old != text or not os.path.exists(os.path.join(COQ, "Makefile")):
        with open(path, "w") as f:
            f.write(text)
        rc, out = sh("coq_makefile -f _CoqProject.all -o Makefile", cwd=COQ)
        if rc != 0:
            raise RuntimeError("coq_makefile failed: " + out)


def make(targets, timeout=3000):
    t = " ".join(targets)
    rc, out = sh(f"timeout {timeout} make -j16 -k {t}", cwd=COQ, timeout=timeout + 60)
    return rc, out


def build_driver():
    """extract + compile the OCaml pump; returns (ok, log)"""
    rc, out = make(["extract/Extract.vo"])
    if rc != 0:
        return False, out
    os.makedirs(BUILD, exist_ok=True)
    src_ml = os.path.join(COQ, "model.ml")
    # coqc writes model.ml into its cwd (coq/)
    if os.path.exists(src_ml):
        new = open(src_ml).read()
        dst = os.path.join(BUILD, "model.ml")
        if not os.path.exists(dst) or open(dst).read() != new:
            open(dst, "w").write(new)
            open(os.path.join(BUILD, "model.mli"), "w").write(open(os.path.join(COQ, "model.mli")).read())
        os.remove(src_ml)
        os.remove(os.path.join(COQ, "model.mli"))
    drvsrc = open(os.path.join(COQ, "extract", "drv.ml")).read()
    dst = os.path.join(BUILD, "drv.ml")
    if not os.path.exists(dst) or open(dst).read() != drvsrc:
        open(dst, "w").write(drvsrc)
    exe = os.path.join(BUILD, "drv")
    need = (not os.path.exists(exe)) or any(
        os.path.getmtime(os.path.join(BUILD, f)) > os.path.getmtime(exe) for f in ("model.ml", "model.mli", "drv.ml"))
    if not os.path.exists(os.path.join(BUILD, "model.ml")):
        return False, "model.ml missing (extraction did not run)"
    if need:
        rc, out2 = sh("ocamlfind ocamlopt -w -a model.mli model.ml drv.ml -o drv", cwd=BUILD, timeout=600)
        if rc != 0:
            return False, out + out2
    return True, out


def closure(target_v):
    """project .v files that target_v (relative to coq/) depends on, transitively, incl. itself"""
    dpath = os.path.join(COQ, ".Makefile.d")
    deps = {}
    if os.path.exists(dpath):
        text = open(dpath).read().replace("\\\n", " ")
        for line in text.split("\n"):
            if ":" not in line:
                continue
            lhs, rhs = line.split(":", 1)
            outs = [x for x in lhs.split() if x.endswith(".vo")]
            ins = [x[:-1] for x in rhs.split() if x.endswith(".vo") and not x.startswith("/")]
            for o in outs:
                deps[o[:-1]] = ins
    seen = []
    todo = [target_v]
    while todo:
        f = todo.pop()
        if f in seen:
            continue
        seen.append(f)
        todo += deps.get(f, [])
    return sorted(seen)


def hygiene(files):
    bad = []
    for f in files:
        src = strip_comments(open(os.path.join(COQ, f)).read())
        for m in FORBIDDEN.finditer(src):
            bad.append(f"{f}: {m.group(0)}")
        if re.search(r"^\s*(Variable|Variables|Hypothesis|Hypotheses|Context)\b", src, re.M):
            # allowed only inside sections: crude check -- every such line must be between Section/End
            depth = 0
            for line in src.split("\n"):
                if re.match(r"\s*Section\b", line):
                    depth += 1
                elif re.match(r"\s*End\b", line) and depth > 0:
                    depth -= 1
                elif re.match(r"\s*(Variable|Variables|Hypothesis|Hypotheses|Context)\b", line) and depth == 0:
                    bad.append(f"{f}: section-less {line.strip()[:40]}")
    return bad


def count_obligations(files):
    names = []
    for f in files:
        if f.startswith(("proofs/", "props/")):
            src = strip_comments(open(os.path.join(COQ, f)).read())
            names += [f"{f}:{m.group(2)}" for m in OBLIGATION.finditer(src)]
    return names


def compile_props(prop_file):
    """always re-run coqc on props/Cnn.v to capture Print Assumptions output"""
    rc, out = sh(f"timeout 600 coqc -q -Q model RichModel -Q gen RichGen -Q proofs RichProofs -Q props RichProps "
                 f"-w -notation-overridden {prop_file}", cwd=COQ, timeout=700)
    return rc, out


def parse_assumptions(out):
    """-> (closed_count, list of axiom blocks)"""
    closed = len(re.findall(r"Closed under the global context", out))
    axioms = []
    for m in re.finditer(r"Axioms:\n((?:.+\n?)+?)(?:\n|$)", out):
        axioms.append(m.group(1).strip())
    return closed, axioms


# ------------------------------------------------------------------ known findings

def load_known():
    p = os.path.join(VERIF, "known_findings.json")
    if not os.path.exists(p):
        return []
    return json.load(open(p))


# ------------------------------------------------------------------ main check

def write_replay(pid, name, obj):
    d = os.path.join(VERIF, "replays", pid)
    os.makedirs(d, exist_ok=True)
    path = os.path.join(d, name + ".json")
    obj = dict(obj)
    obj["property"] = pid
    obj["how_to_replay"] = f"./check {pid} --replay {path}"
    with open(path, "w") as f:
        json.dump(obj, f, indent=1)
    return path


def shrink_case(layer_name, op, arg, kind, specop=None):
    """shrink a disagreeing / spec-failing input, keeping the same kind of failure"""
    layer = common.load_layer(layer_name)

    def still(cands):
        cases = [(op, c) for c in cands]
        r = common.compare(layer_name, cases)
        bad = set()
        if kind == "spec":
            for f in r.spec_failures:
                bad.add(common.dumps(f["arg"]))
        else:
            for d in r.disagreements:
                if not isinstance(d["impl"], dict) or True:
                    bad.add(common.dumps(d["arg"]))
        return [common.dumps(c) in bad for c in cands]
    try:
        return common.shrink(layer_name, op, arg, still, max_rounds=25, max_cands=200)
    except Exception:
        return arg


def run_check(pid, tier="quick", seed=0, replay=None):
    t0 = time.time()
    cfg = PROPS[pid]
    violations = []       # (replay_path, no_failing_input_found: bool)
    known_printed = []
    notes = []
    ev = {"property_id": pid, "tier": tier, "seed": seed, "level": "proof", "coverage": {}, "assumptions": []}
    cov = ev["coverage"]

    with Lock():
        tr = translate()
        ensure_makefile()
        drv_ok, drv_log = build_driver()
        prop_v = cfg["props_file"]
        rc_make, make_log = make([prop_v + "o"])
        files = closure(prop_v)
        rc_props, props_out = (1, "") if rc_make != 0 else compile_props(prop_v)
    cov["translator"] = tr
    broken = []
    if tr.get("untranslatable"):
        for u in tr["untranslatable"]:
            if u["file"] in cfg.get("gen_files", []) or u["file"] == "*":
                broken.append({"kind": "translator", "item": u["file"], "why": u["why"]})
    if not drv_ok:
        broken.append({"kind": "model-build", "item": "extract/Extract.vo", "coq_error": drv_log[-1500:]})
    if rc_make != 0 or rc_props != 0:
        errs = re.findall(r'File "\./([^"]+)", line (\d+)[^\n]*\n((?:.*\n){0,12})', make_log + props_out)
        first = errs[0] if errs else ("?", "0", (make_log + props_out)[-800:])
        broken.append({"kind": "proof", "file": first[0], "line": int(first[1]), "coq_error": first[2][:1200]})
    bad = hygiene(files)
    if bad:
        broken.append({"kind": "hygiene", "items": bad})
    closed, axioms = parse_assumptions(props_out)
    unexpected_axioms = [a for a in axioms if not all(x.split(":")[0].strip() in ALLOWED_AXIOMS for x in a.split("\n") if ":" in x and not x.startswith(" "))]
    if unexpected_axioms:
        broken.append({"kind": "axioms", "items": unexpected_axioms})
    obligations = count_obligations(files)
    cov["obligations"] = len(obligations)
    cov["discharged"] = len(obligations) if (rc_make == 0 and rc_props == 0 and not bad) else 0
    cov["checker_cmd"] = f"cd {COQ} && make {prop_v}o && coqc {prop_v}  (Coq 8.16.1, full .vo build, Print Assumptions under every property theorem)"
    cov["print_assumptions"] = {"closed_under_global_context": closed, "axiom_blocks": axioms}
    cov["theorems"] = cfg.get("theorems", {})
    cov["closure_files"] = files
    cov["trusted_base"] = cfg.get("trusted_base", []) + [
        "Coq 8.16.1 kernel incl. vm_compute; no native_compute",
        "tools/translate (AST -> Gallina data), extraction with ExtrOcamlBasic only, OCaml 4.13.1, coq/extract/drv.ml",
        "correspondence harness tools/corr (generators, canonicalisation), CPython 3.12 semantics as modelled",
    ]

    # ---- correspondence
    corr_total = 0
    corr_distinct = 0
    spec_checked = 0
    disagreements = []
    spec_failures = []
    samples = []
    per_layer = {}
    if drv_ok:
        k = 0
        for layer_name in cfg["layers"]:
            layer = common.load_layer(layer_name)
            rng = random.Random(f"{seed}:{pid}:{layer_name}")
            cases = []
            cdir = os.path.join(VERIF, "corpus", layer_name)
            for cf in sorted(glob.glob(os.path.join(cdir, "*.json"))):
                c = json.load(open(cf))
                cases.append((c["op"], c["arg"]))
            ncorpus = len(cases)
            gen = layer.generate(rng, tier)
            if cfg.get("ops"):
                gen = [c for c in gen if c[0] in cfg["ops"].get(layer_name, [c[0]])]
            if broken and tier == "quick":
                # a tie or proof broke: densify the search (DESIGN section 4 "Bridging")
                rng2 = random.Random(f"{seed}:dense:{pid}:{layer_name}")
                gen += layer.generate(rng2, "thorough")
            cases += gen
            r = common.compare(layer_name, cases)
            corr_total += r.cases
            corr_distinct += r.distinct
            spec_checked += r.spec_checked
            disagreements += r.disagreements
            spec_failures += r.spec_failures
            samples += r.samples[:2]
            per_layer[layer_name] = {"cases": r.cases, "distinct": r.distinct, "corpus": ncorpus, "by_op": r.by_op,
                                     "impl_exceptions": r.impl_errors, "arg_size_log2_hist": r.size_hist,
                                     "spec_checks_on_impl_output": r.spec_checked}
    cov["correspondence"] = per_layer
    cov["programs"] = corr_distinct
    cov["traces_validated_against_impl"] = corr_distinct
    cov["disagreements_checked"] = len(disagreements)
    cov["samples"] = samples + [{"obligation": o} for o in obligations[:2]]
    cov["exhaustive_sweeps"] = cfg.get("exhaustive", [])

    # ---- known findings
    known = [kf for kf in load_known() if kf.get("property") == pid and kf.get("status") == "known"]

    def is_known(layer_name, op, arg):
        for kf in known:
            w = kf.get("witness")
            if w and w.get("layer") == layer_name and w.get("op") == op and w.get("arg") == arg:
                return kf
            pred = kf.get("matcher")
            if pred:
                layer = common.load_layer(layer_name)
                fn = getattr(layer, pred, None)
                if fn and kf.get("layer") == layer_name and fn(op, arg):
                    return kf
        return None

    # replay known witnesses on the implementation
    for kf in known:
        w = kf.get("witness")
        if not w:
            continue
        r = common.compare(w["layer"], [(w["op"], w["arg"])])
        if r.spec_failures or r.disagreements:
            line = f"KNOWN-FINDING: property={pid} {kf['what_fails']}"
            print(line)
            known_printed.append(line)

    # ---- decide
    seen_sig = set()
    for f in spec_failures:
        if is_known(f["layer"], f["op"], f["arg"]):
            continue
        sig = (f["layer"], f["op"], f["specop"])
        if sig in seen_sig:
            continue
        seen_sig.add(sig)
        small = shrink_case(f["layer"], f["op"], f["arg"], "spec")
        if is_known(f["layer"], f["op"], small):
            continue
        rr = common.compare(f["layer"], [(f["op"], small)])
        path = write_replay(pid, f"spec_{f['op']}_{len(violations)}", {
            "kind": "failing-input", "seed": seed, "layer": f["layer"], "op": f["op"], "input": small,
            "original_input": f["arg"], "spec_checker": f["specop"],
            "implementation_says": (rr.spec_failures[0]["impl"] if rr.spec_failures else f["impl"]),
            "model_says": (rr.disagreements[0]["model"] if rr.disagreements else "agrees with implementation"),
            "obligation": None})
        violations.append((path, False))
    if not violations:
        unexplained = [d for d in disagreements if not is_known(d["layer"], d["op"], d["arg"])]
        seen_sig = set()
        for d in unexplained:
            sig = (d["layer"], d["op"])
            if sig in seen_sig:
                continue
            seen_sig.add(sig)
            small = shrink_case(d["layer"], d["op"], d["arg"], "diff")
            rr = common.compare(d["layer"], [(d["op"], small)])
            dd = rr.disagreements[0] if rr.disagreements else d
            # search: does the implementation fail the spec-level checker on inputs near this one?
            layer = common.load_layer(d["layer"])
            near = [(d["op"], c) for c in list(common.shrink_candidates(small))[:300]] + [(d["op"], small), (d["op"], d["arg"])]
            rs = common.compare(d["layer"], near)
            if rs.spec_failures:
                f = rs.spec_failures[0]
                path = write_replay(pid, f"spec_{f['op']}_{len(violations)}", {
                    "kind": "failing-input", "seed": seed, "layer": f["layer"], "op": f["op"], "input": f["arg"],
                    "spec_checker": f["specop"], "implementation_says": f["impl"], "obligation": None})
                violations.append((path, False))
            else:
                path = write_replay(pid, f"corr_{d['op']}_{len(violations)}", {
                    "kind": "broken-correspondence", "seed": seed, "layer": d["layer"], "op": d["op"],
                    "input": dd["arg"], "model_says": dd["model"], "implementation_says": dd["impl"],
                    "obligation": {"correspondence": f"model op {d['op']} of layer {d['layer']} vs rich", "theorems_resting_on_it": list(cfg.get('theorems', {}).keys())}})
                violations.append((path, True))
    if not violations and broken:
        for b in broken:
            path = write_replay(pid, f"obligation_{b['kind']}_{len(violations)}", {
                "kind": "broken-obligation", "seed": seed, "obligation": b,
                "note": "no input was found on which the implementation fails the spec-level checkers; the property is no longer shown"})
            violations.append((path, True))

    for path, nofail in violations:
        print(f"VIOLATION property={pid} replay={path}" + (" no-failing-input-found" if nofail else ""))

    cov["known_findings_printed"] = known_printed
    cov["broken"] = broken
    cov["spec_checks_on_impl_output"] = spec_checked
    cov["explanation"] = cfg.get("explanation", "")
    ev["assumptions"] = cfg.get("assumptions", [])
    ev["violations"] = len(violations)
    ev["wall_s"] = round(time.time() - t0, 1)
    os.makedirs(os.path.join(VERIF, "evidence"), exist_ok=True)
    with open(os.path.join(VERIF, "evidence", pid + ".json"), "w") as f:
        json.dump(ev, f, indent=1)
    ok = not violations
    print(f"{pid} {tier}: obligations {cov['discharged']}/{cov['obligations']}, correspondence {corr_distinct} distinct cases, "
          f"{spec_checked} spec checks on implementation output, {len(disagreements)} disagreements, "
          f"{len(violations)} violations, {ev['wall_s']}s")
    return 0 if ok else 1


def run_replay(pid, path):
    obj = json.load(open(path))
    if obj.get("kind") in ("failing-input", "broken-correspondence"):
        r = common.compare(obj["layer"], [(obj["op"], obj["input"])])
        print(json.dumps({"disagreements": r.disagreements, "spec_failures": r.spec_failures}, indent=1)[:4000])
        return 1 if (r.disagreements or r.spec_failures) else 0
    print(json.dumps(obj.get("obligation"), indent=1))
    return run_check(pid, "quick", 0)


def setup():
    with Lock():
        tr = translate()
        ensure_makefile()
        ok, log = build_driver()
        if not ok:
            print(log[-3000:])
            return 1
        rc, out = make([], timeout=7000)
        if rc != 0:
            print(out[-3000:])
            return 1
    print("setup ok")
    return 0


def main(argv):
    if "--setup" in argv:
        return setup()
    pid = argv[0]
    tier = os.environ.get("VERIF_TIER", "quick")
    seed = int(os.environ.get("VERIF_SEED", "0"))
    replay = None
    i = 1
    while i < len(argv):
        if argv[i] == "--tier":
            tier = argv[i + 1]
            i += 2
        elif argv[i] == "--replay":
            replay = argv[i + 1]
            i += 2
        else:
            i += 1
    if replay:
        return run_replay(pid, replay)
    return run_check(pid, tier, seed)
