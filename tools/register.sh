#!/bin/sh
# usage: tools/register.sh <pid> <glob-fragment>...   e.g. tools/register.sh C02 Wrap wrap
# runs the check on /repo, regenerates MANIFEST.json and commits the property's files
PID=$1; shift
cd /verif
./check $PID > /tmp/reg_$PID.log 2>&1; RC=$?
tail -3 /tmp/reg_$PID.log
if [ $RC -ne 0 ]; then echo "CHECK FAILED rc=$RC (not registering)"; exit 1; fi
grep -qx $PID tools/registered.txt || echo $PID >> tools/registered.txt
sort -o tools/registered.txt tools/registered.txt
/venv/bin/python tools/mkmanifest.py
git add tools/registered.txt MANIFEST.json evidence/$PID.json tools/props_$PID.py coq/props/$PID.v notes/$PID.md known_findings.json 2>/dev/null
for g in $(/venv/bin/python -c "import sys; sys.path.insert(0,'tools'); from props import PROPS; print(' '.join(PROPS['$PID'].get('gen_files',[])))"); do git add coq/gen_baseline/$g 2>/dev/null; done
for frag in "$@"; do
  git add coq/model/*$frag*.v coq/proofs/*$frag*.v coq/gen_baseline/*$frag*.v tools/corr/l_*$frag*.py tools/translate/t_*$frag*.py corpus/*$frag* fixes/${PID}_* 2>/dev/null
done
git commit -qm "$PID: model, theorems, correspondence layer registered" && git log --oneline | head -1
