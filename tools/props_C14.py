CONFIG = {
    "props_file": "props/C14.v",
    "layers": ["total"],
    "drv_modules": ["DrvTotal"],
    "gen_files": ["ColorNames.v", "ColorRegex.v", "StyleTables.v", "MarkupRegex.v", "ThemeFacts.v", "AnsiRegex.v", "SgrMap.v",
                  "ControlCodes.v"],
    "exhaustive": [
        "correspondence: EVERY string of up to 4 tokens (quick) / 5 tokens (thorough) over the 31-fragment alphabet "
        "(rgb( ) , space 1 25 superscript-two arabic-three fullwidth-three # a f color( on not link bold [ ] / \\ = ESC m ; ]8; BEL "
        "wide zero-width newline tab) fed to Color.parse, Style.parse, markup.render, AnsiDecoder.decode "
        "(Text, Style.normalize, get_style: 3 resp. 4), and every string of up to 5 / 6 tokens over a 11-13 fragment core alphabet "
        "per entry point; every str.isdigit character inside an SGR sequence and an rgb() component; "
        "Console.print with and without markup on every string of up to 2 / 3 tokens",
        "SGR sequences ESC [ p1;...;pk m for EVERY parameter list of up to 5 (quick) / 6 (thorough) parameters over {empty, 0, 1, 2, 5, 38, 48, 255, 300, x, superscript-two}: every truncation of 38;2;r;g;b and 38;5;n with and without a trailing semicolon; digit runs of 4300 / 4301 / 5000 ASCII and non-ASCII digits (CPython int() conversion limit) in every numeric position of rgb(), color(), style words, markup tags, SGR parameters and printed markup, one position at a time",
        "Columns(width=cw): every item count 1..6 (12) x 16 column widths x 15 console widths x both fill orders",
        "renderable trees (generator of l_layout) x EVERY console width 1..200: render and measure outcome classes",
    ],
    "theorems": {
        "C14_color_parse_total": "full: every string; Ok or ColorParseError, never an undocumented escape",
        "C14_color_parse_asis_refuted": "refutation witness of the code before the D9 repair (rgb(,,) -> ValueError)",
        "C14_style_parse_total": "full: every string; Ok or StyleSyntaxError (ColorParseError never escapes)",
        "C14_style_normalize_total": "full: every string; never raises",
        "C14_markup_render_total": "full: every string, every emoji oracle, both span-order variants; Ok or MarkupError; equal to C04's model with Style.normalize as the oracle",
        "C14_get_style_total": "full: every theme, name and default; Ok or MissingStyle",
        "C14_get_style_default_ok": "full: a parsable default= never lets MissingStyle out",
        "C14_decode_total": "full (repaired decoder, D8): cites C19's decode_total",
        "C14_decode_asis_refuted": "refutation witness of rich 9.10.0 as found (D8: ESC [ superscript-two m -> ValueError)",
        "C14_text_ctor_total": "full: every string; len(Text(s)) = number of characters kept",
        "C14_columns_total": "full (repaired, D10): every item count, column width >= 1, padding >= 0, both fill orders, every console width",
        "C14_columns_asis_refuted": "refutation witness of rich 9.10.0 as found (D10: Columns(width=100) at width 30 -> ZeroDivisionError) + the repaired code passes the same input",
        "C14_columns_asis_is_frames": "full: the as-found variant is C08's Frames.columns_grid with an explicit width",
        "C14_print_no_markup_total": "full: Console.print(s, markup=False) never fails -- every string, every width (also < 1), every emoji oracle, every highlighter oracle whose spans lie within the text; no hypothesis on Text.wrap any more",
        "C14_wrap_keeps_spans": "full: Text.wrap (split, expand_tabs, divide, rstrip_end, truncate; justify default, overflow fold, repaired divide) keeps every span inside its line: all texts with in-range spans, all style types, every width >= 1",
        "C14_join_keeps_spans": "full: Text('\\n').join of lines with in-range spans succeeds and keeps the spans in range",
        "C14_text_render_total": "full: Text.render's enter/leave sweep never fails on ANY text whose spans lie within it (unbounded in text and spans)",
        "C14_render_total": "full over constructors, nesting depth, widths (every W, also < 1 and far below the structural minimum), console widths and inherited options: Text, Padding, Panel, Align, Constrain, Styled, RenderGroup, Rule, Bar, ProgressBar, Table, Columns, Tree, no-measure objects, __rich__ casts; option domain `valid` restricts only tables (padding >= 0, >= 1 column, columns without fixed width/min_width/no_wrap, max_width >= 1, ratio >= 1; Table(width=) and Table(min_width=) are inside); outside it correspondence only",
        "C14_measure_total": "full, same domain as C14_render_total",
        "C14_calc_widths_total": "full: Table._calculate_column_widths (both variants of the ratio-column minimum) never fails at ANY budget (also below one cell per column, <= 0) and answers one width >= 1 per column, expanding or not, ratio columns and table min_width included; columns free to wrap (cites C01's LayoutP10)",
        "C14_columns_grid_total": "full: the Columns width search terminates with a column count >= 1 and the grid is built, for any measured widths <= console width, any padding, equal / column_first / right_to_left",
        "C14_columns_fixed_is_frames": "full: the repaired Columns(width=) of (8) is C08's columns_grid_fixed, class for class",
    },
    "level_text": "Machine-checked Coq theorems, unbounded in the input strings, stating that each public entry point of rich (Color.parse, Style.parse, Style.normalize, markup.render, Console.get_style, AnsiDecoder.decode, Text, Console.print without markup, Columns, rendering and measuring renderable trees) as a res-valued function built from the executable models of the other layers never answers an undocumented escape; outcome classes of model and implementation compared on every string over a token alphabet of syntax fragments up to a length bound, random Unicode, and renderable trees at every width 1..200.",
    "level_note": "Trusted: Coq kernel + vm_compute, the AST translator, extraction, OCaml, the harness; the models of the other layers (Color.v, Style.v, Markup.v, AnsiDecode.v, TextOps.v, Wrap.v, Frames.v, Layout.v) and their own correspondence checks. Nothing is `_partial` any more. Remaining restriction: the option domain `valid` of C14_render_total / C14_measure_total excludes only Column(width= / min_width= / no_wrap=True) (missing: calc_widths_x_total / _bound for columns that are not col_free); Columns(width=) is proved at the Frames level (C14_columns_total), the tree language of Layout.v has Columns without explicit width. D8 and D10 are fixed in /repo (909e789, ef09520).",
    "assumptions": ["the default ReprHighlighter only adds spans that lie within the text (oracle hl; validated on every generated string)", "_emoji_replace is a pure str -> str function (oracle E)", "functools.lru_cache is a pure memo (Color.parse, Style.parse, Style.normalize)", "the theme stack answers Style objects for the names it knows (nothing is parsed for them)"],
}
