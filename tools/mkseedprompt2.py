#!/venv/bin/python
"""round-2 prompt: as mkseedprompt.py, plus the mechanisms already tried (so that new ones are chosen)"""
import glob, json, os, subprocess, sys
pid = sys.argv[1]; n = int(sys.argv[2]) if len(sys.argv) > 2 else 3
base = subprocess.run(["/venv/bin/python", "/verif/tools/mkseedprompt.py", pid, str(n)], capture_output=True, text=True).stdout
base = base.replace(f"/tmp/seed_{pid}/", f"/tmp/seed2_{pid}/")
tried = []
for d in sorted(glob.glob(f"/verif/seeded/{pid}-m*")):
    m = json.load(open(os.path.join(d, "meta.json")))
    tried.append("  - " + str(m.get("summary", ""))[:300].replace("\n", " ") + " [files: " + ", ".join(m.get("files", []) if isinstance(m.get("files"), list) else [str(m.get("files"))]) + "]")
extra = ("\nThis is a second round. The following changes were already produced by someone else; choose DIFFERENT "
         "mechanisms (different functions or different aspects of the property), and prefer subtler ones — interactions "
         "between two functions, rarely-taken branches, option combinations, state carried between calls:\n" + "\n".join(tried) + "\n")
print(base + extra)
