"""Layer `frames` (C08): Padding, Panel, Align, Constrain, Styled, Rule, Bar, ProgressBar, Columns
(placement), Tree.

Children are abstract in the model.  For the ops with a child the implementation side wraps the real
child in a recording proxy; what the frame asked of it (measurements and segment streams per width)
becomes the oracle table handed to the model, so these ops are compared through `spec.corr_*`
(model lines computed from the recorded tables == implementation lines).  Independently of the model,
the spec-level checkers (`spec.frame_ok`, ...) get the child rendered ALONE at the documented inner
width and the frame's lines.
"""
from common import s2t, t2s

OPS = {
    "padding": {"spec_only": True}, "panel": {"spec_only": True}, "align": {"spec_only": True},
    "constrain": {"spec_only": True}, "styled": {"spec_only": True}, "tree": {"spec_only": True},
    "rule": {}, "bar": {}, "pbar": {}, "columns": {"res": True}, "columns_render": {"spec_only": True},
    "columns_twice": {"spec_only": True}, "columns_alias": {"spec_only": True}, "container_twice": {"spec_only": True},
    "print_frame": {"spec_only": True}, "print_width": {},
}

ASCII = "abcXYZ 09-_"
WIDE = "あ中\U0001f600Ａ"
ZERO = "́​"
BOX_NAMES = ["ASCII", "ASCII2", "ASCII_DOUBLE_HEAD", "SQUARE", "SQUARE_DOUBLE_HEAD", "MINIMAL",
             "MINIMAL_HEAVY_HEAD", "MINIMAL_DOUBLE_HEAD", "SIMPLE", "SIMPLE_HEAD", "SIMPLE_HEAVY",
             "HORIZONTALS", "ROUNDED", "HEAVY", "HEAVY_EDGE", "HEAVY_HEAD", "DOUBLE", "DOUBLE_EDGE"]
ALIGN = ["left", "center", "right"]
ZW_OK = [True]      # generator may put zero-width characters into titles (exercises Text.rstrip_end)


# ---------------------------------------------------------------- generators
def rtext(rng, maxlen=12, nl=True, zero=False, spaces=True):
    n = rng.choice([0, 1, 2, 3, 5, 8, maxlen])
    pool = rng.choice([ASCII, ASCII, ASCII, WIDE, ASCII + WIDE, None])
    if pool is None:       # range-boundary code points of the width table of the tree under check
        wide, zz = width_edges()
        pool = ASCII[:6] + "".join(rng.sample(wide, min(4, len(wide)))) + \
            ("".join(rng.sample(zz, min(2, len(zz)))) if zero else "")
    if zero and rng.random() < 0.5:
        pool = pool + ZERO
    if not spaces:
        pool = pool.replace(" ", "")
    s = "".join(rng.choice(pool) for _ in range(n))
    if nl and s and rng.random() < 0.4:
        k = rng.randint(0, len(s))
        s = s[:k] + "\n" + s[k:]
    return s


_EDGES = [None]


def width_edges():
    """first / last code points of the ranges of rich/_cell_widths.py, read with ast from the tree under check:
    (width-2 characters, width-0 characters); whitespace, controls and surrogates left out"""
    if _EDGES[0] is None:
        import ast, os
        import common
        wide, zero = [], []
        try:
            with open(os.path.join(common.REPO, "rich", "_cell_widths.py"), encoding="utf-8") as f:
                tree = ast.parse(f.read())
            rows = []
            for node in tree.body:
                if isinstance(node, ast.Assign) and any(getattr(t, "id", None) == "CELL_WIDTHS" for t in node.targets):
                    rows = [tuple(r) for r in ast.literal_eval(node.value)]
            for (a, b, w) in sorted(rows):
                for cp in {a, b}:
                    if cp < 0x300 or 0xD800 <= cp <= 0xDFFF or cp > 0x10FFFF:
                        continue
                    ch = chr(cp)
                    if ch.isspace() or ch in "\x08\x0b\x0c\r\x1c\x1d\x1e\x85\u2028\u2029":
                        continue
                    (wide if w == 2 else zero if w in (0, -1) else []).append(ch)
        except Exception:
            pass
        _EDGES[0] = (wide or list(WIDE), zero or list(ZERO))
    return _EDGES[0]


def rlong(rng):
    """a long unbreakable run mixing double-width and narrow characters (incl. width-table boundaries), so that a
    frame has to crop it and the crop point falls inside / next to wide characters"""
    wide, zero = width_edges()
    pool = WIDE + "".join(rng.sample(wide, min(6, len(wide)))) + rng.choice(["", "", "ab", "x"])
    n = rng.choice([6, 10, 20, 40])
    s = "".join(rng.choice(pool) for _ in range(n))
    if rng.random() < 0.3:
        k = rng.randint(0, len(s))
        s = s[:k] + "\n" + s[k:]
    return s


def rpad(rng):
    k = rng.random()
    if k < 0.25:
        return [rng.randint(0, 3)]
    if k < 0.5:
        return [rng.randint(0, 2), rng.randint(0, 4)]
    return [rng.randint(0, 2), rng.randint(0, 4), rng.randint(0, 2), rng.randint(0, 4)]


def rstyle(rng):
    return [] if rng.random() < 0.5 else [rng.randint(1, 6)]


def rchild(rng, depth=0):
    """child descriptor (nested int lists)"""
    k = rng.random()
    if k < 0.12:
        return [6, s2t(rlong(rng))]
    if depth >= 2 or k < 0.55:
        return [0, s2t(rtext(rng, rng.choice([4, 12, 30]), zero=rng.random() < 0.2))]
    if k < 0.65:
        return [1, rchild(rng, depth + 1), rpad(rng), rng.randint(0, 1)]
    if k < 0.78:
        return [2, rchild(rng, depth + 1), rng.randrange(len(BOX_NAMES)), s2t(rtext(rng, 8, nl=False)) if rng.random() < 0.5 else [],
                rng.randint(0, 1), [] if rng.random() < 0.7 else [rng.randint(4, 30)], rpad(rng)]
    if k < 0.86:
        return [3, rchild(rng, depth + 1), rng.randrange(3), rng.randint(0, 1), [] if rng.random() < 0.6 else [rng.randint(1, 20)]]
    if k < 0.96:
        ncol = rng.randint(1, 3)
        rows = [[s2t(rtext(rng, 6, nl=False)) for _ in range(ncol)] for _ in range(rng.randint(0, 3))]
        return [4, ncol, rows, rng.randint(0, 1), rng.randrange(len(BOX_NAMES))]
    return [5, s2t(rtext(rng, 6, nl=False)), rng.randrange(3)]


def rwidth(rng, smin):
    k = rng.random()
    if k < 0.35:
        return max(1, smin + rng.randint(0, 3))
    if k < 0.7:
        return rng.randint(max(1, smin), max(smin, 1) + 30)
    return rng.choice([60, 80, 100, 150, 200, rng.randint(max(1, smin), 200)])


def generate(rng, tier):
    cases = []
    k = 1 if tier == "quick" else 12
    for _ in range(350 * k):
        pad = rpad(rng)
        p4 = unpack(pad)
        W = rwidth(rng, p4[1] + p4[3] + 2)
        cases.append(("padding", [rchild(rng), W, pad, rstyle(rng), rng.randint(0, 1)]))
    for _ in range(500 * k):
        pad = rpad(rng) if rng.random() < 0.7 else [0, 1]
        p4 = unpack(pad)
        title = s2t(rtext(rng, rng.choice([3, 8, 20]), nl=rng.random() < 0.2, zero=ZW_OK[0] and rng.random() < 0.15)) if rng.random() < 0.6 else []
        W = rwidth(rng, p4[1] + p4[3] + 4 + (2 if title else 0))
        cW = W if rng.random() < 0.8 else W + rng.randint(0, 10)
        box = [rng.randrange(len(BOX_NAMES)), rng.randint(0, 1), 1 if rng.random() < 0.25 else 0, 1 if rng.random() < 0.2 else 0]
        width = [] if rng.random() < 0.7 else [rng.randint(p4[1] + p4[3] + 4, 40)]
        cases.append(("panel", [rchild(rng), W, cW, box, title, rng.randrange(3), rng.randint(0, 1), width, pad,
                                rstyle(rng), rstyle(rng)]))
    for _ in range(350 * k):
        W = rwidth(rng, 2)
        cW = W if rng.random() < 0.7 else W + rng.randint(0, 10)
        width = [] if rng.random() < 0.6 else [rng.randint(1, 30)]
        st = [] if rng.random() < 0.6 else [rstyle(rng)]
        cases.append(("align", [rchild(rng), W, cW, rng.randrange(3), rng.randint(0, 1), width, st]))
    for _ in range(100 * k):
        W = rwidth(rng, 2)
        cases.append(("constrain", [rchild(rng), W, [] if rng.random() < 0.2 else [rng.randint(1, 40)]]))
        cases.append(("styled", [rchild(rng), W, rstyle(rng)]))
    # ---- rules
    for _ in range(700 * k):
        zero = rng.random() < 0.12
        title = s2t(rtext(rng, rng.choice([3, 8, 30]), nl=rng.random() < 0.2, zero=zero)) if rng.random() < 0.7 else []
        kc = rng.random()
        if kc < 0.4:
            chars = "─"
        elif kc < 0.6:
            chars = rng.choice(["-", "=", "*", "ab", "-=", "━"])
        elif kc < 0.85:
            chars = rng.choice(["あ", "あ-", "-あ", "中あ", "\U0001f600", "Ａ", "　"])
        else:
            chars = rng.choice(["á", "-​", "あ́"])
        W = rng.choice([1, 2, 3, 4, 5, 6, 7, rng.randint(1, 20), rng.randint(1, 60), rng.randint(1, 200)])
        cases.append(("rule", [title, s2t(chars), rng.randrange(3), 1 if rng.random() < 0.2 else 0, W]))
    # ---- bars
    for _ in range(500 * k):
        size = rng.choice([1, 2, 7, 10, 100, rng.randint(1, 1000)])
        b = rng.randint(-2, size + 2)
        e = rng.randint(-2, size + 3)
        W = rng.choice([1, 2, 3, rng.randint(1, 40), rng.randint(1, 200)])
        width = [] if rng.random() < 0.5 else [rng.choice([0, 1, W, W + 3, rng.randint(1, 50)])]
        cases.append(("bar", [size, b, e, width, W]))
    for _ in range(700 * k):
        total = rng.choice([0, 1, 3, 100, rng.randint(1, 1000)])
        comp = rng.choice([0, total, total + 5, -3, rng.randint(0, max(1, total))])
        W = rng.choice([1, 2, 3, rng.randint(1, 40), rng.randint(1, 200)])
        width = [] if rng.random() < 0.5 else [rng.choice([0, 1, W, W + 3, rng.randint(1, 50)])]
        pulse = 1 if rng.random() < 0.3 else 0
        t = rng.randint(0, 100)
        has_color = rng.randint(0, 1)
        cases.append(("pbar", [total, comp, width, pulse, t, 1 if rng.random() < 0.25 else 0, has_color,
                               1 if rng.random() < 0.25 else 0, W]))
    # ---- columns placement (abstract items: their measured maxima)
    for _ in range(900 * k):
        n = rng.choice([0, 1, 2, 3, 4, 5, 7, 8, 9, 12, rng.randint(1, 30)])
        W = rng.choice([rng.randint(1, 20), rng.randint(5, 60), rng.randint(20, 200)])
        big = rng.choice([3, 8, 20])
        ws = [min(W, rng.randint(0, big)) for _ in range(n)]
        width = [] if rng.random() < 0.8 else [rng.randint(1, 25)]
        pl, pr = rng.randint(0, 3), rng.randint(0, 3)
        cases.append(("columns", [ws, width, pl, pr, rng.randint(0, 1), rng.randint(0, 1), rng.randint(0, 1), W]))
    for _ in range(250 * k):
        n = rng.choice([1, 2, 3, 5, 8, 13, rng.randint(1, 25)])
        labels = [s2t("i%d%s" % (i, "x" * rng.randint(0, 5))) for i in range(n)]
        W = rng.randint(10, 120)
        pl, pr = rng.randint(0, 3), rng.randint(0, 3)
        width = [] if rng.random() < 0.8 or W < 8 + max(pl, pr) else [rng.randint(8, min(20, W - max(pl, pr)))]
        cases.append(("columns_render", [labels, width, pl, pr, rng.randint(0, 1),
                                         rng.randint(0, 1), rng.randint(0, 1), rng.randrange(4), rng.randint(0, 1), W]))
    # ---- the SAME object rendered twice; content given as list / tuple / generator / iter / map; aliasing
    for _ in range(120 * k):
        n = rng.choice([1, 2, 3, 5, 8, rng.randint(1, 20)])
        labels = [s2t("i%d%s" % (i, "x" * rng.randint(0, 4))) for i in range(n)]
        W = rng.randint(10, 100)
        cases.append(("columns_twice", [labels, rng.randrange(5), rng.randint(0, 2), rng.randint(0, 2), rng.randint(0, 1),
                                        rng.randint(0, 1), rng.randint(0, 1), rng.randint(0, 1), W]))
    for _ in range(60 * k):
        n = rng.choice([1, 2, 3, 5, 8])
        labels = [s2t("i%d" % i) for i in range(n)]
        cases.append(("columns_alias", [labels, rng.randint(1, 3), rng.randint(0, 1), rng.randint(0, 1), rng.randint(10, 80)]))
    for _ in range(120 * k):
        n = rng.choice([1, 2, 3, 5, rng.randint(1, 9)])
        labels = [s2t("i%d%s" % (i, "x" * rng.randint(0, 4))) for i in range(n)]
        cases.append(("container_twice", [labels, rng.randrange(1, 4), rng.randrange(5), rng.randint(0, 1), rng.randint(24, 90)]))
    # ---- frames printed through console.print(r, width=N) / console.log(r): N below, equal to, above W, 0, none
    for _ in range(260 * k):
        W = rng.choice([rng.randint(8, 30), rng.randint(20, 80)])
        N = rng.choice([[], [0], [W], [W - rng.randint(1, 6)], [W + rng.randint(1, 30)], [rng.randint(6, 120)]])
        kind = rng.randrange(6)
        text = s2t(rtext(rng, rng.choice([4, 12, 30]), nl=False).strip() or "x")   # empty bodies: log prints a blank line, render none
        labels = [s2t("i%d" % i) for i in range(rng.randint(1, 7))]
        via_log = 1 if (not N and rng.random() < 0.5) else 0
        cases.append(("print_frame", [kind, text, labels, rng.randrange(3), rng.randint(0, 1), N, W, via_log]))
        cases.append(("print_width", [N, W]))
    # ---- trees
    for _ in range(350 * k):
        def node(d):
            nk = 0 if d >= 3 else rng.choice([0, 0, 1, 2, 3])
            lab = [0, s2t(rtext(rng, rng.choice([4, 12]), nl=rng.random() < 0.3))] if rng.random() < 0.85 else rchild(rng, 1)
            return [lab, [rng.choice([0, 0, 0, 1, 2]), rng.choice([0, 0, 0, 1, 2])], 1 if rng.random() < 0.8 else 0,
                    [node(d + 1) for _ in range(nk)]]
        t = node(0)
        W = rwidth(rng, 4 * 3 + 2)
        cases.append(("tree", [1 if rng.random() < 0.2 else 0, 1 if rng.random() < 0.2 else 0, W, t]))
    return cases


def unpack(pad):
    if len(pad) == 1:
        return [pad[0]] * 4
    if len(pad) == 2:
        return [pad[0], pad[1], pad[0], pad[1]]
    return list(pad)


# ---------------------------------------------------------------- implementation side
_styles = {}


def _style(opt):
    from rich.style import Style
    if not opt:
        return Style.null()
    k = opt[0]
    if k not in _styles:
        _styles[k] = Style.parse(f"color({k})")
    return _styles[k]


def _tok(style):
    if style is None or style.color is None:
        return []
    return [style.color.number]


def _useg(g):
    return [s2t(g.text), _tok(g.style), 1 if g.is_control else 0]


def _fl(line):
    out = []
    for g in line:
        if g.is_control:
            continue
        tk = _tok(g.style)
        for c in g.text:
            out.append([ord(c), tk])
    return out


def _fls(lines):
    return [_fl(l) for l in lines]


def _text(line):
    return "".join(g.text for g in line if not g.is_control)


class Proxy:
    """records what a frame asks of its child"""

    def __init__(self, inner):
        self.inner = inner
        self.m = {}
        self.r = {}

    def __rich_measure__(self, console, max_width):
        from rich.measure import Measurement
        m = Measurement.get(console, self.inner, max_width)
        self.m[max_width] = [m.minimum, m.maximum]
        return m

    def __rich_console__(self, console, options):
        segs = list(console.render(self.inner, options))
        self.r[options.max_width] = segs
        yield from segs

    def tables(self):
        return [[[w, a, b] for w, (a, b) in sorted(self.m.items())],
                [[w, [_useg(g) for g in segs]] for w, segs in sorted(self.r.items())]]


def build_child(d):
    from rich.text import Text
    from rich.padding import Padding
    from rich.panel import Panel
    from rich.align import Align
    from rich.table import Table
    from rich.rule import Rule
    from rich import box as rbox
    k = d[0]
    if k == 0:
        return Text(t2s(d[1]))
    if k == 1:
        return Padding(build_child(d[1]), tuple(d[2]), expand=bool(d[3]))
    if k == 2:
        return Panel(build_child(d[1]), getattr(rbox, BOX_NAMES[d[2]]), title=Text(t2s(d[3])) if d[3] else None,
                     expand=bool(d[4]), width=d[5][0] if d[5] else None, padding=tuple(d[6]))
    if k == 3:
        return Align(build_child(d[1]), ALIGN[d[2]], pad=bool(d[3]), width=d[4][0] if d[4] else None)
    if k == 4:
        t = Table(box=getattr(rbox, BOX_NAMES[d[4]]), show_header=False, expand=bool(d[3]))
        for _ in range(d[1]):
            t.add_column()
        for row in d[2]:
            t.add_row(*[Text(t2s(c)) for c in row])
        return t
    if k == 5:
        return Rule(Text(t2s(d[1])), align=ALIGN[d[2]])
    if k == 6:
        return Text(t2s(d[1]), no_wrap=True, overflow="ignore")
    raise KeyError(k)


def console_opts(W, cW=None, legacy=False, ascii_only=False, safe_box=True, color_system=None, no_color=False):
    import io, dataclasses
    from rich.console import Console
    con = Console(width=cW if cW is not None else W, file=io.StringIO(), color_system=color_system,
                  legacy_windows=bool(legacy), safe_box=bool(safe_box), no_color=bool(no_color), _environ={})
    opts = con.options.update(width=W) if cW is not None and cW != W else con.options
    if ascii_only:
        opts = dataclasses.replace(opts, encoding="ascii")
    return con, opts


def lines_of(con, fr, opts):
    """the frame's own lines: split at newlines, NOT cropped (render_lines would mask an over-wide line)"""
    from rich.segment import Segment
    return list(Segment.split_lines(con.render(fr, opts)))


class RenderedTwiceDiffers(Exception):
    pass


def lines_twice(con, fr, opts):
    """render the SAME object twice, measuring in between (as Live does); the second rendering is returned and
    must equal the first -- a frame object that exhausts or mutates its content shows up here"""
    from rich.measure import Measurement
    first = lines_of(con, fr, opts)
    try:
        Measurement.get(con, fr, opts.max_width)
    except Exception:
        pass
    second = lines_of(con, fr, opts)
    if [[(g.text, g.style, g.is_control) for g in l] for l in first] != \
            [[(g.text, g.style, g.is_control) for g in l] for l in second]:
        raise RenderedTwiceDiffers("second rendering of the same object differs from the first")
    return second


def child_alone(con, opts, child, inner, style=None, pad=False):
    """the child rendered alone at the inner width"""
    return con.render_lines(child, opts.update(width=inner), style=style, pad=pad)


def impl(op, arg):
    from rich.segment import Segment
    from rich.measure import Measurement
    if op == "padding":
        cd, W, pad, st, expand = arg
        from rich.padding import Padding
        con, opts = console_opts(W)
        px = Proxy(build_child(cd))
        style = _style(st)
        fr = Padding(px, tuple(pad), style=style, expand=bool(expand))
        lines = lines_twice(con, fr, opts)
        t, r, b, l = unpack(pad)
        wd = Segment.get_shape(lines)[0]
        inner = (W if expand else wd) - l - r
        cl = child_alone(con, opts, px.inner, inner, style=style)
        blank = s2t(" " * (W if expand else wd))
        spec = [[W] if expand else [], t, b, s2t(" " * l), s2t(" " * r), [[blank] * t], [[blank] * b], _fls(cl)]
        return [[px.tables(), W, unpack(pad), st, expand], _fls(lines), spec]
    if op == "panel":
        cd, W, cW, bx, title, talign, expand, width, pad, st, bst = arg
        from rich.panel import Panel
        from rich.text import Text
        from rich import box as rbox
        con, opts = console_opts(W, cW, legacy=bx[2], ascii_only=bx[3], safe_box=bx[1])
        px = Proxy(build_child(cd))
        style = _style(st)
        fr = Panel(px, getattr(rbox, BOX_NAMES[bx[0]]), title=Text(t2s(title)) if title else None,
                   title_align=ALIGN[talign], expand=bool(expand), width=width[0] if width else None,
                   padding=tuple(pad), style=style, border_style=_style(bst))
        lines = lines_twice(con, fr, opts)
        t, r, b, l = unpack(pad)
        border = _tok(style + _style(bst))
        wd = Segment.get_shape(lines)[0]
        # documented geometry: expanding -> full (or requested) width; else whatever width it chose
        full = min(W, width[0]) if width else W
        inner = wd - 2 - l - r
        box = getattr(rbox, BOX_NAMES[bx[0]]).substitute(opts, safe=bool(bx[1]))
        from rich.style import Style
        cl = child_alone(con, opts, px.inner, inner, style=Style.null())
        cl = [list(Segment.apply_style(line, style)) for line in cl]
        blank = " " * (wd - 2)
        if wd - 2 < 1:
            # below the structural minimum: Console.render draws nothing at width < 1, so the inner Padding
            # (rows included) vanishes and only the two border rows remain
            t = b = 0
        tops = [] if title else [[s2t(box.get_top([wd - 2]))] + [s2t(box.mid_left + blank + box.mid_right)] * t]
        bots = [[s2t(box.mid_left + blank + box.mid_right)] * b + [s2t(box.get_bottom([wd - 2]))]]
        exp_w = [full] if (expand and not (title and width)) else []
        spec = [exp_w, t + 1, b + 1, s2t(box.mid_left + " " * l), s2t(" " * r + box.mid_right), tops, bots, _fls(cl)]
        marg = [px.tables(), W, cW, bx, title, talign, expand, width, unpack(pad), st, border, STRIP[0]]
        return [marg, _fls(lines), spec]
    if op == "align":
        cd, W, cW, how, pad, width, st = arg
        from rich.align import Align
        con, opts = console_opts(W, cW)
        px = Proxy(build_child(cd))
        style = _style(st[0]) if st else None
        fr = Align(px, ALIGN[how], style=style, pad=bool(pad), width=width[0] if width else None)
        lines = lines_twice(con, fr, opts)
        # documented: the child rendered at min(its maximum, width, available), as a block
        mx = Measurement.get(con, px.inner).maximum
        inner = min(mx, width[0], W) if width else min(mx, W)
        cl = lines_of(con, px.inner, opts.update(width=inner))   # Align forwards the child's own lines, uncropped
        if style is not None:
            cl = [list(Segment.apply_style(line, style)) for line in cl]
        bw = max([sum(g.cell_length for g in line) for line in cl] + [0])
        excess = max(0, W - bw)
        left = [0, excess // 2, excess][how]
        right = excess - left if (pad or how == 2) else 0
        spec = [[W] if (pad or how == 2) and bw <= W else [], 0, 0, s2t(" " * left), s2t(" " * right), [], [], _fls(cl)]
        return [[px.tables(), W, cW, how, pad, width, st], _fls(lines), spec]
    if op in ("constrain", "styled"):
        cd, W, x = arg
        con, opts = console_opts(W)
        px = Proxy(build_child(cd))
        if op == "constrain":
            from rich.constrain import Constrain
            fr = Constrain(px, x[0] if x else None)
            inner = min(x[0], W) if x else W
        else:
            from rich.styled import Styled
            fr = Styled(px, _style(x))
            inner = W
        lines = lines_of(con, fr, opts)
        cl = lines_of(con, px.inner, opts.update(width=inner))   # transparent wrappers: uncropped child lines
        return [[px.tables(), W, x], _fls(lines), [_fls(cl)]]
    if op == "rule":
        title, chars, how, ascii_only, W = arg
        from rich.rule import Rule
        from rich.text import Text
        con, opts = console_opts(W, ascii_only=ascii_only)
        fr = Rule(Text(t2s(title)) if title else "", characters=t2s(chars), align=ALIGN[how])
        return [s2t(_text(l)) for l in lines_of(con, fr, opts)]
    if op == "bar":
        size, b, e, width, W = arg
        from rich.bar import Bar
        con, opts = console_opts(W)
        lines = lines_of(con, Bar(size, b, e, width=width[0] if width else None), opts)
        assert len(lines) == 1
        return s2t(_text(lines[0]))
    if op == "pbar":
        total, comp, width, pulse, t, ascii_, has_color, no_color, W = arg
        from rich.progress_bar import ProgressBar
        con, opts = console_opts(W, ascii_only=ascii_, color_system="standard" if has_color else None, no_color=no_color)
        fr = ProgressBar(total=total, completed=comp, width=width[0] if width else None, pulse=bool(pulse), animation_time=t)
        lines = lines_of(con, fr, opts)
        assert len(lines) <= 1
        return s2t(_text(lines[0])) if lines else []
    if op == "columns":
        ws, width, pl, pr, equal, cf, rtl, W = arg
        items = [Fixed(w) for w in ws]
        cc, grid = columns_table(items, width, (0, pr, 0, pl), equal, cf, rtl, None, W)
        return [cc, grid]
    if op == "columns_render":
        labels, width, pl, pr, equal, cf, rtl, al, expand, W = arg
        import re
        from rich.columns import Columns
        from rich.text import Text
        items = [Text(t2s(s)) for s in labels]
        con, opts = console_opts(W)
        fr = Columns(items, (0, pr, 0, pl), width=width[0] if width else None, equal=bool(equal), column_first=bool(cf),
                     right_to_left=bool(rtl), align=[None, "left", "center", "right"][al], expand=bool(expand))
        lines = [_text(l) for l in lines_of(con, fr, opts)]
        cc, grid = columns_table(items, width, (0, pr, 0, pl), equal, cf, rtl, [None, "left", "center", "right"][al], W)
        # read the rendered lines: item numbers by (line, column position)
        seen = []
        for ln in lines:
            seen.append([int(m.group(1)) for m in re.finditer(r"i(\d+)x*", ln)])
        return [len(labels), cc, grid, seen]
    if op == "print_width":
        # the width Console.print hands to the renderable, observed from inside
        N, W = arg
        import io
        from rich.console import Console
        seen = []

        class Spy:
            def __rich_console__(self, console, options):
                seen.append(options.max_width)
                return
                yield
        con = Console(file=io.StringIO(), width=W, color_system=None, legacy_windows=False, _environ={})
        con.print(Spy(), width=N[0] if N else None)
        return seen[0] if seen else -1
    if op == "print_frame":
        kind, text, labels, how, flag, N, W, via_log = arg
        import io
        from rich.console import Console
        from rich.text import Text
        body = Text(t2s(text))

        def make():
            if kind == 0:
                from rich.panel import Panel
                return Panel(body, title=Text("t") if flag else None, title_align=ALIGN[how]), True
            if kind == 1:
                from rich.padding import Padding
                return Padding(body, (1, 2)), True
            if kind == 2:
                from rich.align import Align
                return Align(body, ALIGN[how]), True
            if kind == 3:
                from rich.rule import Rule
                return Rule(body if flag else "", align=ALIGN[how]), True
            if kind == 4:
                from rich.columns import Columns
                return Columns([Text(t2s(x)) for x in labels], column_first=bool(flag)), False
            from rich.tree import Tree
            tr = Tree(body)
            for x in labels:
                tr.add(Text(t2s(x)))
            return tr, True
        fr, exact = make()
        con = Console(file=io.StringIO(), width=W, color_system=None, legacy_windows=False, _environ={},
                      log_time=False, log_path=False)
        px = None
        if via_log:
            # console.log lays the renderable out inside a grid column whose width the TABLE chooses from the frame's
            # measurement (not necessarily W): record the width the frame was actually given and what it rendered
            px = Proxy(fr)
            con.log(px)
        else:
            con.print(fr, width=N[0] if N else None)
        out = con.file.getvalue()
        printed = out.split("\n")
        if printed and printed[-1] == "":
            printed.pop()
        # the same frame rendered directly at the candidate widths (the checker picks the model's effective width)
        cands = sorted({W} | ({N[0], min(N[0], W)} if N else set()))
        table = []
        for w in cands:
            if w < 1:
                table.append([w, []])
                continue
            c2, o2 = console_opts(w)
            table.append([w, [s2t(_text(l)) for l in lines_of(c2, make()[0], o2)]])
        if via_log:
            # the grid pads every line to the console width: compare without trailing blanks.  Required: the frame was
            # given at most W cells and its own lines (at the width it was given) are printed intact; not the exact
            # line width (the column is as wide as the table decides -- C07's business)
            exact = False
            from rich.segment import Segment
            if not px.r or max(px.r) > W:
                raise AssertionError("console.log handed the frame more than the console width")
            given = max(px.r)
            own = [_text(l) for l in Segment.split_lines(px.r[given])]
            printed = [x.rstrip(" ") for x in printed]
            table = [[W, [s2t(x.rstrip(" ")) for x in own]]]
        return [N, W, 1 if exact else 0, table, [s2t(x) for x in printed]]
    if op == "columns_twice":
        labels, src, pl, pr, equal, cf, rtl, measure, W = arg
        from rich.columns import Columns
        from rich.text import Text
        items = [Text(t2s(x)) for x in labels]
        con, opts = console_opts(W)
        fr = Columns(_source(items, src), (0, pr, 0, pl), equal=bool(equal), column_first=bool(cf), right_to_left=bool(rtl))
        l1 = [_text(l) for l in lines_of(con, fr, opts)]
        cc1, g1 = _grid_of_columns(fr, items, con, opts)
        if measure:
            Measurement.get(con, fr, W)
        l2 = [_text(l) for l in lines_of(con, fr, opts)]
        cc2, g2 = _grid_of_columns(fr, items, con, opts)
        return [len(items), cc1, g1, cc2, g2, [s2t(x) for x in l1], [s2t(x) for x in l2]]
    if op == "columns_alias":
        labels, extra, cf, rtl, W = arg
        from rich.columns import Columns
        from rich.text import Text
        items = [Text(t2s(x)) for x in labels]
        shared = list(items)
        con, opts = console_opts(W)
        a = Columns(shared, column_first=bool(cf), right_to_left=bool(rtl))
        b = Columns(shared, column_first=bool(cf), right_to_left=bool(rtl))
        extras = [Text("e%d" % i) for i in range(extra)]
        for x in extras:
            a.add_renderable(x)
        cca, ga = _grid_of_columns(a, items + extras, con, opts)
        ccb, gb = _grid_of_columns(b, items + extras, con, opts)
        return [len(items), extra, cca, ga, ccb, gb]
    if op == "container_twice":
        labels, kind, src, measure, W = arg
        import re
        from rich.text import Text
        items = [Text(t2s(x)) for x in labels]
        con, opts = console_opts(W)
        if kind == 1:
            from rich.console import RenderGroup
            fr = RenderGroup(*_source(items, src))
        elif kind == 2:
            from rich.tree import Tree
            fr = Tree(Text("root"))
            for x in _source(items, src):
                fr.add(x)
        else:
            from rich.panel import Panel
            from rich.table import Table
            tb = Table(show_header=False)
            tb.add_column()
            for x in _source(items, src):
                tb.add_row(x)
            fr = Panel(tb)
        l1 = [_text(l) for l in lines_of(con, fr, opts)]
        if measure:
            Measurement.get(con, fr, W)
        l2 = [_text(l) for l in lines_of(con, fr, opts)]

        def seen(ls):
            return [[int(m.group(1))] for ln in ls for m in re.finditer(r"i(\d+)x*", ln)]
        return [len(items), seen(l1), seen(l2), [s2t(x) for x in l1], [s2t(x) for x in l2]]
    if op == "tree":
        ascii_, legacy, W, t = arg
        from rich.tree import Tree
        from rich.style import Style
        con, opts = console_opts(W, legacy=legacy, ascii_only=ascii_)
        proxies = []

        def gstyle(gs):
            tri = [None, True, False]
            return Style(bold=tri[gs[0]], underline2=tri[gs[1]])

        def mk(d, parent):
            px = Proxy(build_child(d[0]))
            proxies.append(px)
            if parent is None:
                nd = Tree(px, guide_style=gstyle(d[1]), expanded=bool(d[2]), style=Style.null())
            else:
                nd = parent.add(px, guide_style=gstyle(d[1]), expanded=bool(d[2]), style=Style.null())
            kids = [mk(k, nd) for k in d[3]]
            return (px, d, kids, nd)
        root = mk(t, None)
        lines = [_text(l) for l in lines_twice(con, root[3], opts)]

        def tab(n):
            px, d, kids, _ = n
            return [px.tables(), d[1], d[2], [tab(k) for k in kids]]

        def pre(n, depth):
            px, d, kids, _ = n
            lab = [s2t(_text(l)) for l in child_alone(con, opts, px.inner, W - 4 * depth, pad=True)]
            out = [[depth, lab]]
            if d[2]:
                for k in kids:
                    out += pre(k, depth + 1)
            return out
        return [[ascii_, legacy, W, tab(root)], [s2t(l) for l in lines], pre(root, 0)]
    raise KeyError(op)


def _source(items, src):
    """the same items as a list / tuple / generator / iterator / map object"""
    if src == 0:
        return list(items)
    if src == 1:
        return tuple(items)
    if src == 2:
        return (x for x in items)
    if src == 3:
        return iter(items)
    return map(lambda x: x, items)


def _grid_of_columns(fr, items, con, opts):
    """(column count, rows of item indices) of the table a Columns object builds NOW"""
    from rich.align import Align
    from rich.constrain import Constrain
    out = list(fr.__rich_console__(con, opts))
    if not out:
        return 0, []
    table = out[0]
    index = {id(x): i for i, x in enumerate(items)}

    def ident(cell):
        while isinstance(cell, (Align, Constrain)):
            cell = cell.renderable
        if isinstance(cell, str) and cell == "":
            return -1
        return index.get(id(cell), 999)
    return len(table.columns), [[ident(col._cells[r]) for col in table.columns] for r in range(len(table.rows))]


class Fixed:
    """an item whose measured maximum is a given number"""

    def __init__(self, w):
        self.w = w

    def __rich_measure__(self, console, max_width):
        from rich.measure import Measurement
        return Measurement(self.w, self.w)

    def __rich_console__(self, console, options):
        from rich.segment import Segment
        yield Segment("x" * min(self.w, options.max_width))


def columns_table(items, width, padding, equal, cf, rtl, align, W):
    """the table Columns builds: (column count, rows of item indices, -1 = blank)"""
    from rich.columns import Columns
    from rich.align import Align
    from rich.constrain import Constrain
    con, opts = console_opts(W)
    fr = Columns(items, padding, width=width[0] if width else None, equal=bool(equal), column_first=bool(cf),
                 right_to_left=bool(rtl), align=align)
    out = list(fr.__rich_console__(con, opts))
    if not out:
        return 0, []
    table = out[0]
    index = {id(x): i for i, x in enumerate(items)}

    def ident(cell):
        while isinstance(cell, (Align, Constrain)):
            cell = cell.renderable
        if isinstance(cell, str) and cell == "":
            return -1
        return index[id(cell)]
    nrows = len(table.rows)
    grid = [[ident(col._cells[r]) for col in table.columns] for r in range(nrows)]
    return len(table.columns), grid


STRIP = [0]   # 0 = the title / rule line is emitted without Text.wrap (repaired code); 1 = rich 9.10.0 as found


def model_case(op, arg):
    if op == "rule":
        return op, arg + [STRIP[0]]
    return op, arg


def _int(x):
    return isinstance(x, int) and not isinstance(x, bool)


def _opt(x, lo=None):
    return isinstance(x, list) and (x == [] or (len(x) == 1 and _int(x[0]) and (lo is None or x[0] >= lo)))


def _str(x):
    return isinstance(x, list) and all(_int(c) and 0 <= c < 0x110000 and not 0xD800 <= c <= 0xDFFF for c in x)


def _strs(x):
    return isinstance(x, list) and all(_str(y) for y in x)


def _pad(x):
    return isinstance(x, list) and len(x) in (1, 2, 4) and all(_int(v) and v >= 0 for v in x)


def _child(d):
    if not (isinstance(d, list) and d and _int(d[0])):
        return False
    k = d[0]
    try:
        if k in (0, 6):
            return len(d) == 2 and _str(d[1])
        if k == 1:
            return len(d) == 4 and _child(d[1]) and _pad(d[2]) and d[3] in (0, 1)
        if k == 2:
            return (len(d) == 7 and _child(d[1]) and _int(d[2]) and 0 <= d[2] < len(BOX_NAMES) and _str(d[3])
                    and d[4] in (0, 1) and _opt(d[5], 0) and _pad(d[6]))
        if k == 3:
            return len(d) == 5 and _child(d[1]) and d[2] in (0, 1, 2) and d[3] in (0, 1) and _opt(d[4], 0)
        if k == 4:
            return (len(d) == 5 and _int(d[1]) and d[1] >= 1 and isinstance(d[2], list)
                    and all(_strs(r) and len(r) == d[1] for r in d[2]) and d[3] in (0, 1)
                    and _int(d[4]) and 0 <= d[4] < len(BOX_NAMES))
        if k == 5:
            return len(d) == 3 and _str(d[1]) and d[2] in (0, 1, 2)
    except Exception:
        return False
    return False


def _node(t):
    return (isinstance(t, list) and len(t) == 4 and _child(t[0]) and isinstance(t[1], list) and len(t[1]) == 2
            and all(v in (0, 1, 2) for v in t[1]) and t[2] in (0, 1) and isinstance(t[3], list) and all(_node(k) for k in t[3]))


def shape_ok(op, a):
    """does the argument have the shape (and value ranges) the generator of this op produces?  Shrunk / malformed
    arguments must never be reported as a failure of the implementation."""
    try:
        if not isinstance(a, list):
            return False
        b = (0, 1)
        if op == "padding":
            return len(a) == 5 and _child(a[0]) and _int(a[1]) and a[1] >= 1 and _pad(a[2]) and _opt(a[3]) and a[4] in b
        if op == "panel":
            return (len(a) == 11 and _child(a[0]) and _int(a[1]) and a[1] >= 1 and _int(a[2]) and a[2] >= a[1]
                    and isinstance(a[3], list) and len(a[3]) == 4 and _int(a[3][0]) and 0 <= a[3][0] < len(BOX_NAMES)
                    and all(v in b for v in a[3][1:]) and _str(a[4]) and 9 not in a[4] and a[5] in (0, 1, 2) and a[6] in b
                    and _opt(a[7], 0) and _pad(a[8]) and _opt(a[9]) and _opt(a[10]))
        if op == "align":
            return (len(a) == 7 and _child(a[0]) and _int(a[1]) and a[1] >= 1 and _int(a[2]) and a[2] >= a[1]
                    and a[3] in (0, 1, 2) and a[4] in b and _opt(a[5], 0)
                    and isinstance(a[6], list) and (a[6] == [] or (len(a[6]) == 1 and _opt(a[6][0]))))
        if op in ("constrain", "styled"):
            return len(a) == 3 and _child(a[0]) and _int(a[1]) and a[1] >= 1 and _opt(a[2], 0)
        if op == "tree":
            return len(a) == 4 and a[0] in b and a[1] in b and _int(a[2]) and a[2] >= 1 and _node(a[3])
        if op == "columns_render":
            return (len(a) == 10 and _strs(a[0]) and a[0] and _opt(a[1], 1) and all(_int(v) and v >= 0 for v in a[2:4])
                    and all(v in b for v in a[4:7]) and a[7] in (0, 1, 2, 3) and a[8] in b and _int(a[9]) and a[9] >= 10
                    and (not a[1] or a[9] >= a[1][0] + max(a[2], a[3])))
        if op == "columns_twice":
            return (len(a) == 9 and _strs(a[0]) and a[0] and a[1] in range(5) and all(_int(v) and v >= 0 for v in a[2:4])
                    and all(v in b for v in a[4:8]) and _int(a[8]) and a[8] >= 10)
        if op == "columns_alias":
            return (len(a) == 5 and _strs(a[0]) and a[0] and _int(a[1]) and a[1] >= 1 and a[2] in b and a[3] in b
                    and _int(a[4]) and a[4] >= 10)
        if op == "container_twice":
            return (len(a) == 5 and _strs(a[0]) and a[0] and a[1] in (1, 2, 3) and a[2] in range(5) and a[3] in b
                    and _int(a[4]) and a[4] >= 24)
        if op == "print_frame":
            return (len(a) == 8 and a[0] in range(6) and _str(a[1]) and a[1] and _strs(a[2]) and a[2] and a[3] in (0, 1, 2)
                    and a[4] in b and _opt(a[5], 0) and _int(a[6]) and a[6] >= 8 and a[7] in b and not (a[7] and a[5]))
    except Exception:
        return False
    return True


def spec_cases(op, arg, out):
    if not shape_ok(op, arg):
        return []       # a malformed (e.g. shrunk) argument: a harness error is not a finding
    if isinstance(out, dict):
        # an exception where none is expected: let the corr op fail visibly
        if op in ("padding", "panel", "align", "constrain", "styled", "tree", "columns_render", "columns_twice",
                  "columns_alias", "container_twice", "print_frame"):
            return [("spec.frame_ok", [[], 0, 0, [], [], [], [], [[[120, []]]], []])]
        return []
    if op in ("padding", "panel", "align"):
        marg, lines, spec = out
        return [("spec.corr_" + op, [marg, lines]), ("spec.frame_ok", spec + [lines])]
    if op in ("constrain", "styled"):
        marg, lines, spec = out
        return [("spec.corr_" + op, [marg, lines]), ("spec.same_chars", [spec[0], lines])]
    if op == "tree":
        marg, lines, pre = out
        return [("spec.corr_tree", [marg, lines]), ("spec.tree_dfs", [pre, lines])]
    if op == "rule":
        return [("spec.rule_exact", [arg[4], out])]
    if op == "bar":
        return [("spec.bar_within", [arg[4] if not arg[3] or arg[3][0] == 0 else min(arg[3][0], arg[4]), 1, out])]
    if op == "pbar":
        w = arg[8] if not arg[2] or arg[2][0] == 0 else min(arg[2][0], arg[8])
        exact = 1 if (arg[3] or (arg[6] and not arg[7])) else 0
        return [("spec.bar_within", [w, exact, out])]
    if op == "columns":
        if out[0] != 0:
            return []
        cc, grid = out[1]
        return [("spec.columns_once", [arg[5], arg[6], len(arg[0]), cc, grid])]
    if op == "print_frame":
        return [("spec.print_ok", out)]
    if op == "columns_twice":
        n, cc1, g1, cc2, g2, l1, l2 = out
        return [("spec.columns_once", [arg[5], arg[6], n, cc1, g1]), ("spec.columns_once", [arg[5], arg[6], n, cc2, g2]),
                ("spec.same_grid", [g1, g2]), ("spec.same_render", [l1, l2])]
    if op == "columns_alias":
        n, extra, cca, ga, ccb, gb = out
        return [("spec.columns_once", [arg[2], arg[3], n + extra, cca, ga]), ("spec.columns_once", [arg[2], arg[3], n, ccb, gb])]
    if op == "container_twice":
        n, s1, s2, l1, l2 = out
        return [("spec.columns_once", [0, 0, n, 1, s1]), ("spec.columns_once", [0, 0, n, 1, s2]), ("spec.same_render", [l1, l2])]
    if op == "columns_render":
        n, cc, grid, seen = out
        # the rendered lines, read as a grid of item numbers, must be the table and pass the checker
        sgrid = [row + [-1] * (cc - len(row)) if not arg[6] else [-1] * (cc - len(row)) + row for row in seen if row]
        return [("spec.columns_once", [arg[5], arg[6], n, cc, grid]),
                ("spec.columns_once", [arg[5], arg[6], n, cc, sgrid])]
    return []


def describe(op, arg):
    return None
