"""Layer `total` (C14: no input makes the pipeline fail with an undocumented error).

Every op answers with OUTCOME CODES: 0 returned, 10+e documented error e (common.DOC_ERRORS), 100+k undocumented
escape k (common.CRASH_ERRORS; 199 = an exception class not in the table).  Model and implementation are compared
on the code; `spec.documented [op, codes]` (SpecTotal.documented_b) is evaluated on the implementation's codes.

entry points (op numbers of SpecTotal.v):
  0 Color.parse   1 Style.parse   2 Style.normalize   3 markup.render   4 console.get_style(s)
  5 console.get_style(s, default=d)   6 list(AnsiDecoder().decode(s))   7 len(Text(s))
  8 console.print(s, markup=False)    9 console.print(s)   10 render tree   11 measure tree   12 Columns(width=)

ops
  t.one    [op, extras, s]                      one string
  t.block  [op, extras, alphabet, prefix, n]    ALL strings prefix + t1..tn, ti in alphabet (lexicographic): list of codes
  t.print  [markup, s, W, E s, hl spans, len, lines]   Console(width=W).print(s, markup=...); the oracles' graphs (E s, the
                                                ReprHighlighter spans on a text of length len) are recorded from the
                                                implementation; `lines` = [len, spans] of every line of the real Text.wrap:
                                                spec.in_range / spec.lines_in_range evaluate the hypotheses of
                                                C14_print_no_markup_total_partial on them
  t.columns [n, cwid, pl, pr, column_first, W]  Columns(n one-cell items, width=cwid, padding=(0,pr,0,pl)) at width W
  t.tree_widths [cfg, R, lo, hi]                [render code, measure code] for every console width lo..hi-1
extras: [asis] for markup (span order variant: no influence on the code), [fix_d8] for decode, [default] for op 5.
The harness detects which decoder / Columns variant the tree under test implements (as found / repaired) from the
defect witnesses and compares with that variant of the model; the spec checker then reports the undocumented
escape of an unrepaired tree as a VIOLATION.
"""
import itertools
import common
from common import s2t, t2s, DOC_ERRORS, CRASH_ERRORS

OPS = {"t.one": {}, "t.block": {}, "t.print": {"noshrink": True}, "t.columns": {}, "t.tree_widths": {"noshrink": True}}   # print cases carry oracle graphs

OP_COLOR, OP_STYLE, OP_NORM, OP_MARKUP, OP_GET, OP_GETD, OP_DECODE, OP_TEXT, OP_PRINT, OP_PRINTM, OP_RENDER, OP_MEASURE, OP_COLUMNS = range(13)
STR_OPS = [OP_COLOR, OP_STYLE, OP_NORM, OP_MARKUP, OP_GET, OP_GETD, OP_DECODE, OP_TEXT]

ESC, BEL = "\x1b", "\x07"
# the token alphabet of syntax-significant fragments (property text)
TOKENS = ["rgb(", ")", ",", " ", "1", "25", "\u00b2", "\u0663", "\uff13", "#", "a", "f", "color(", "on", "not",
          "link", "bold", "[", "]", "/", "\\", "=", ESC, "m", ";", "]8;", BEL, "\u4e2d", "\u200b", "\n", "\t"]
# per entry point: the fragments its own syntax reacts to (swept two tokens deeper than the full alphabet)
CORE = {
    OP_COLOR: ["rgb(", ")", ",", " ", "1", "25", "\u00b2", "#", "f", "color(", "\n", "default"],
    OP_STYLE: ["rgb(", ")", ",", " ", "1", "\u00b2", "on", "not", "link", "bold", "red", "\n"],
    OP_NORM: ["rgb(", ")", ",", " ", "1", "\u00b2", "on", "not", "link", "bold", "RED", "\t"],
    OP_MARKUP: ["[", "]", "/", "\\", "=", " ", "bold", "rgb(,,)", "\n", "a", "not", "#"],
    OP_GET: ["rgb(", ")", ",", " ", "1", "\u00b2", "on", "not", "link", "repr.number", "red", "."],
    OP_GETD: ["rgb(", ")", ",", " ", "1", "on", "not", "link", "rule.line", "red", "bold"],
    OP_DECODE: [ESC, "[", "m", ";", "1", "38", "48", "5", "2", "0", "\u00b2", "]8;", "\\", "x", "\n"],
    OP_TEXT: ["\x08", "\x0b", "\x0c", "\r", "\n", "a", "\u4e2d", "\u200b", ESC, "\t", "\x00"],
}
GETD_DEFAULTS = ["none", "bold", "nope nope"]

# detected variants of the tree under test: [decoder repaired?], [Columns repaired?]
FIX_D8 = [1]
FIX_D10 = [1]
ASIS_MARKUP = [0]
_detected = [False]


def code_of_exc(e):
    name = type(e).__name__
    if name in DOC_ERRORS:
        return 10 + DOC_ERRORS[name]
    return 100 + CRASH_ERRORS.get(name, 99)


def code(f):
    try:
        f()
    except Exception as e:   # noqa
        return code_of_exc(e)
    return 0


def detect():
    """which variants does the tree under test implement? (run once, in the harness process)"""
    if _detected[0]:
        return
    _detected[0] = True
    got = common.run_impl("total", [("t.probe", [])], repo=common.REPO)
    r = got[0].get("ok") if got else None
    if isinstance(r, list) and len(r) == 2:
        FIX_D8[0] = 1 if r[0] == 0 else 0
        FIX_D10[0] = 1 if r[1] == 0 else 0


# ---------------------------------------------------------------- generators
def blocks(op, extras, alphabet, maxlen, chunk):
    """cover every string of 0..maxlen tokens by blocks of at most about `chunk` strings"""
    out = []
    a = [s2t(t) for t in alphabet]
    k = len(alphabet)
    for length in range(0, maxlen + 1):
        # prefix length p: smallest with k**(length-p) <= chunk
        p = 0
        while k ** (length - p) > chunk and p < length:
            p += 1
        for pre in itertools.product(alphabet, repeat=p):
            out.append(("t.block", [op, extras, a, s2t("".join(pre)), length - p]))
    return out


def extras_for(op, rng=None, k=0):
    if op == OP_MARKUP:
        return [ASIS_MARKUP[0]]
    if op == OP_DECODE:
        return [FIX_D8[0]]
    if op == OP_GETD:
        return [s2t(GETD_DEFAULTS[k % len(GETD_DEFAULTS)])]
    return []


def isdigit_chars():
    import sys
    return [chr(c) for c in range(sys.maxunicode + 1) if chr(c).isdigit()]


def runicode(rng, digits):
    """random Unicode: surrogate-free astral, controls, str.isdigit characters, the syntax characters"""
    n = rng.choice([1, 2, 3, 5, 8, 13, 21])
    out = []
    for _ in range(n):
        k = rng.random()
        if k < 0.2:
            out.append(rng.choice(TOKENS))
        elif k < 0.35:
            out.append(rng.choice(digits))
        elif k < 0.5:
            out.append(chr(rng.randrange(0, 0x20)) if rng.random() < 0.8 else chr(rng.randrange(0x7f, 0xa1)))
        elif k < 0.65:
            out.append(chr(rng.randrange(0x10000, 0x110000)))
        elif k < 0.8:
            c = rng.randrange(0x80, 0x10000)
            out.append(chr(c) if not (0xd800 <= c <= 0xdfff) else "\ufffd")
        else:
            out.append(rng.choice("rgb(),#0123456789abcdef colr[]/\\=;m:\x1b"))
    return "".join(out)


def gen_prints(rng, strings, widths=None):
    """t.print cases need the oracles' graphs: ask the implementation for E(s) and the highlighter spans"""
    cases = []
    reqs = []
    for s in strings:
        for mk in (0, 1):
            if mk == 1 and ":" in s:
                continue          # the emoji pass acts per chunk inside markup.render: kept out of the oracle
            reqs.append((mk, s, rng.choice(widths or [1, 2, 3, 5, 8, 20, 80, rng.randint(1, 200)])))
    got = common.run_impl("total", [("t.hl", [[mk, s2t(s), W] for mk, s, W in reqs[i:i + 300]])
                                    for i in range(0, len(reqs), 300)], repo=common.REPO)
    flat = []
    for r in got:
        flat += r.get("ok", [])
    if len(flat) != len(reqs):
        return cases
    for (mk, s, W), g in zip(reqs, flat):
        if g == []:      # markup.render failed: nothing to highlight
            g = [s2t(s), [], 0, []]
        cases.append(("t.print", [mk, s2t(s), W, g[0], g[1], g[2], g[3]]))
    return cases


def generate(rng, tier):
    detect()
    quick = tier == "quick"
    cases = []
    # ---- exhaustive token strings: full alphabet to length 4 (quick) / 5 (thorough), core alphabets two deeper
    full_len = 4 if quick else 5
    core_len = 5 if quick else 6
    for op in STR_OPS:
        flen = full_len
        if op in (OP_GET, OP_GETD, OP_NORM):
            flen = 3 if quick else 4   # same parser as Style.parse; the deeper full sweep runs for op 1
        if op == OP_TEXT:
            flen = 3 if quick else 4   # Text(...) only filters four control characters
        cases += blocks(op, extras_for(op), TOKENS, flen, 32000)
        cl = core_len
        if quick and op in (OP_GET, OP_GETD, OP_NORM, OP_TEXT):
            cl = 4             # same parser as Style.parse (op 1 runs the deeper sweep)
        cases += blocks(op, extras_for(op, k=1), CORE[op], cl, 32000)
    # ---- random Unicode
    digits = isdigit_chars()
    n = 1500 if quick else 30000
    strs = [runicode(rng, digits) for _ in range(n)]
    for i, s in enumerate(strs):
        for op in STR_OPS:
            cases.append(("t.one", [op, extras_for(op, k=i), s2t(s)]))
    # every str.isdigit character inside an SGR sequence and an rgb() component
    for lo in range(0, len(digits), 64):
        chunk = [s2t(d) for d in digits[lo:lo + 64]]
        cases.append(("t.block", [OP_DECODE, [FIX_D8[0]], chunk, s2t(ESC + "["), 1]))
        cases.append(("t.block", [OP_COLOR, [], chunk, s2t("rgb(1,2,"), 1]))
    # ---- digit runs around CPython's int() conversion limit (4300) in every numeric position, one at a time
    #      (the extracted model is quadratic in the string length: a few seconds per string)
    R = {"ok": "1" * 4300, "a1": "7" * 4301, "a5": "0" * 4999 + "9", "n1": "\u0663" * 4301, "n5": "\uff13" * 5000}
    LONG = [R["a1"], R["n1"], R["a5"]] if quick else [R["ok"], R["a1"], R["a5"], R["n1"], R["n5"]]
    def one(op, s, k=0):
        cases.append(("t.one", [op, extras_for(op, k=k), s2t(s)]))
    for x in LONG:
        for s in (f"rgb({x},0,0)", f"rgb(0,{x},0)", f"rgb(0,0,{x})", f"color({x})", f"rgb({x},{x},{x})"):
            one(OP_COLOR, s)
        for s in (f"bold on rgb({x},0,0)", f"rgb(0,{x},0) link x", f"not bold rgb(0,0,{x})", f"on color({x})"):
            one(OP_STYLE, s)
        one(OP_NORM, f"rgb(0,{x},0)")
        one(OP_GET, f"on rgb({x},0,0)")
        one(OP_GETD, f"rgb(0,0,{x})")
        for s in (f"[rgb({x},0,0)]x[/]", f"[b]x[/rgb(0,0,{x})]", f"[on rgb(0,{x},0)]x"):
            one(OP_MARKUP, s)
        for s in (f"{ESC}[{x}m", f"a{ESC}[38;5;{x}mz", f"{ESC}[38;2;{x};0;0m", f"{ESC}[48;2;0;{x};0m", f"{ESC}[38;2;0;0;{x}m",
                  f"{ESC}[1;{x};1m", f"{ESC}[{x};{x}m"):
            one(OP_DECODE, s)
        one(OP_TEXT, x)
    NUM0 = ["0", "255", "256", "", "\u00b2", " 1 "]
    for last in NUM0:                                                  # rgb(a,b,c), all short combinations
        cases.append(("t.block", [OP_COLOR, [], [s2t(v + ",") for v in NUM0], s2t("rgb("), 2, s2t(last + ")")]))
    # ---- SGR sequences ESC [ p1;...;pk m, k = 0..5 parameters (every truncation of 38;2;r;g;b / 38;5;n, with and
    #      without a trailing ';', sequences ending right after 38 / 48), text around them
    SGRP = ["", "0", "1", "2", "5", "38", "48", "255", "300", "x", "\u00b2"]
    def sgr(toks, kmax, pre="a" + ESC + "[", post="mz"):
        for k in range(0, kmax + 1):
            if k == 0:
                cases.append(("t.one", [OP_DECODE, [FIX_D8[0]], s2t(pre + post)]))
                continue
            for last in toks:
                cases.append(("t.block", [OP_DECODE, [FIX_D8[0]], [s2t(x + ";") for x in toks], s2t(pre), k - 1, s2t(last + post)]))
    sgr(SGRP, 5 if quick else 6)
    sgr(["38", "48", "2", "5"], 4, pre=ESC + "[1;", post="m" + ESC + "[0m")
    # ---- Console.print: all token strings up to 2 (quick) / 3 tokens, random token strings, random Unicode
    pl = 2 if quick else 3
    pstr = ["".join(t) for L in range(0, pl + 1) for t in itertools.product(TOKENS, repeat=L)]
    for _ in range(800 if quick else 20000):
        pstr.append("".join(rng.choice(TOKENS) for _ in range(rng.choice([3, 4, 5, 6, 9]))))
    pstr += strs[: (500 if quick else 10000)]
    plong = []
    for x in LONG[:3]:                     # a style with a long digit run reaches Color.parse through Text.render
        plong += [f"[rgb({x},0,0)]x[/]", f"[on rgb(0,{x},0)]x", f"[link=x rgb(0,0,{x})]y"]
    cases += gen_prints(rng, pstr)
    cases += gen_prints(rng, plong, widths=[80, 200])
    # ---- Columns(width=...): every n 1..6 x cwid 1..40 x W 1..40 (+ wide) x fill order
    for n in range(1, 7 if quick else 13):
        for cf in (0, 1):
            for cwid in list(range(1, 13)) + [20, 40, 100, 250]:
                for W in list(range(1, 13)) + [30, 80, 200]:
                    pl_, pr_ = rng.choice([(0, 0), (0, 1), (2, 1), (0, 3)])
                    cases.append(("t.columns", [n, cwid, pl_, pr_, cf, W]))
    # ---- renderable trees x all widths 1..200
    try:
        import l_layout
        nt = 30 if quick else 400
        for _ in range(nt):
            t = l_layout.gen_r(rng, 0, [rng.choice([4, 8, 16])])
            for lo in range(1, 201, 50):
                cases.append(("t.tree_widths", [[80, l_layout.FIX_D20[0]], t, lo, lo + 50]))
    except ImportError:
        pass
    return cases


# ---------------------------------------------------------------- implementation side
_CON = {}


def _console(W=80):
    import io
    from rich.console import Console
    return Console(file=io.StringIO(), width=W, force_terminal=True, color_system="truecolor",
                   legacy_windows=False, _environ={})


def run_str(op, extras, s):
    if op == OP_COLOR:
        from rich.color import Color
        return code(lambda: Color.parse.__func__.__wrapped__(Color, s))
    if op == OP_STYLE:
        from rich.style import Style
        return code(lambda: Style.parse.__func__.__wrapped__(Style, s))
    if op == OP_NORM:
        from rich.style import Style
        return code(lambda: Style.normalize.__func__.__wrapped__(Style, s))
    if op == OP_MARKUP:
        from rich import markup
        return code(lambda: markup.render(s))
    if op in (OP_GET, OP_GETD):
        con = _CON.get("c")
        if con is None:
            con = _CON["c"] = _console()
        if op == OP_GET:
            return code(lambda: con.get_style(s))
        d = t2s(extras[0])
        return code(lambda: con.get_style(s, default=d))
    if op == OP_DECODE:
        from rich.ansi import AnsiDecoder
        return code(lambda: list(AnsiDecoder().decode(s)))
    if op == OP_TEXT:
        from rich.text import Text
        return code(lambda: len(Text(s)))
    raise KeyError(op)


def _columns(n, cwid, pl, pr, cf, W):
    from rich.columns import Columns
    from rich.text import Text
    con = _console(W)
    cols = Columns([Text("x") for _ in range(n)], width=cwid, padding=(0, pr, 0, pl), column_first=bool(cf))
    return code(lambda: list(con.render(cols, con.options)))


def impl(op, arg):
    if op == "t.one":
        o, x, s = arg
        return run_str(o, x, t2s(s))
    if op == "t.block":
        o, x, alpha, prefix, n = arg[:5]
        suf = t2s(arg[5]) if len(arg) > 5 else ""
        al = [t2s(a) for a in alpha]
        pre = t2s(prefix)
        return [run_str(o, x, pre + "".join(t) + suf) for t in itertools.product(al, repeat=n)]
    if op == "t.print":
        mk, s, W = arg[0], t2s(arg[1]), arg[2]
        con = _console(W)
        return code(lambda: con.print(s, markup=bool(mk)))
    if op == "t.columns":
        return _columns(*arg)
    if op == "t.tree_widths":
        import l_layout
        from rich.measure import Measurement
        from rich.segment import Segment
        cfg, t, lo, hi = arg
        out = []
        for W in range(lo, hi):
            con = l_layout.console(W)
            out.append([code(lambda: list(Segment.split_lines(con.render(l_layout.build(t), con.options)))),
                        code(lambda: Measurement.get(con, l_layout.build(t), W))])
        return out
    if op == "t.hl":
        # the oracles' graphs: [E(s) or the rendered plain text, ReprHighlighter spans on it]
        from rich.text import Text
        from rich.highlighter import ReprHighlighter
        from rich._emoji_replace import _emoji_replace
        from rich import markup
        out = []
        con = _console(80)
        for mk, s, W in arg:
            s = t2s(s)
            try:
                if mk:
                    t = markup.render(s)
                    es = s
                else:
                    es = _emoji_replace(s)
                    t = Text(es)
                h = ReprHighlighter()(str(t))
                h.copy_styles(t)
                lines = h.wrap(con, W, tab_size=8)
                out.append([s2t(es), [[sp.start, sp.end, 2] for sp in h.spans[:len(h.spans) - len(t.spans)]], len(h.plain),
                            [[len(l.plain), [[sp.start, sp.end, 2] for sp in l.spans]] for l in lines]])
            except Exception:   # noqa
                out.append([])
        return out
    if op == "t.probe":
        from rich.ansi import AnsiDecoder
        return [code(lambda: list(AnsiDecoder().decode("\x1b[\u00b2m"))), _columns(3, 100, 0, 1, 0, 30)]
    raise KeyError(op)


# ---------------------------------------------------------------- model side / spec checkers
def model_case(op, arg):
    if op == "t.print":
        a = list(arg) + [[]] * 7          # a shrunk replay may have lost trailing fields
        mk, s, W, es, sps = a[0], a[1], a[2], a[3], a[4]
        return op, [mk, ASIS_MARKUP[0], s, W, es, sps]
    if op == "t.columns":
        detect()
        return op, [FIX_D10[0]] + arg
    return op, arg


def spec_cases(op, arg, out):
    if isinstance(out, dict):
        return []
    if op == "t.one":
        return [("spec.documented", [arg[0], [out]])]
    if op == "t.block":
        return [("spec.documented", [arg[0], sorted(set(out))])]
    if op == "t.print":
        mk = arg[0] if arg else 0
        cs = [("spec.documented", [OP_PRINTM if mk else OP_PRINT, [out]])]
        if len(arg) < 7:
            return cs
        # the highlighter hypothesis on this string: spans within the highlighted text
        cs.append(("spec.in_range", [arg[5], arg[4]]))
        cs.append(("spec.lines_in_range", arg[6]))
        return cs
    if op == "t.columns":
        return [("spec.documented", [OP_COLUMNS, [out]])]
    if op == "t.tree_widths":
        return [("spec.documented", [OP_RENDER, sorted(set(p[0] for p in out))]),
                ("spec.documented", [OP_MEASURE, sorted(set(p[1] for p in out))])]
    return []


def describe(op, arg):
    try:
        if op == "t.one":
            return f"entry point {arg[0]} on {t2s(arg[2])!r}"
        if op == "t.block":
            def short(x):
                x = t2s(x)
                return x if len(x) < 40 else f"{x[:3]}..({len(x)} chars)"
            suf = short(arg[5]) if len(arg) > 5 else ""
            return f"entry point {arg[0]}: all strings {short(arg[3])!r} + {arg[4]} tokens of {[short(a) for a in arg[2]]!r} + {suf!r}"
        if op == "t.print":
            return f"Console(width={arg[2]}).print({t2s(arg[1])!r}, markup={bool(arg[0])})"
        if op == "t.columns":
            n, cwid, pl, pr, cf, W = arg
            return f"Columns({n} items, width={cwid}, padding=(0,{pr},0,{pl}), column_first={bool(cf)}) at width {W}"
        if op == "t.tree_widths":
            return f"tree at console widths {arg[2]}..{arg[3] - 1}"
    except Exception:   # noqa
        pass
    return None
