"""Layer `table` (C07; kernels reused by C01/C09): rich._ratio, Table._collapse_widths,
Table._calculate_column_widths and the rendered table.

Table description (the `arg` of table_widths / table_render):
  [opts, box?, cols, rows, W, [title?, caption?], copts, [styled, nested]]
  styled = 1: every cell / header is a Text whose alternate 2-character runs carry a style (several segments
  per line); nested = k > 0: the cells of column 0 in the data rows are Table(width=k, box=None, padding=0,
  show_header=False) holding the (single-word, <= k cells) text
  copts = [no_wrap (0 None/1 True/2 False), soft_wrap, justify (0 None, 1..4), overflow (0 None, 1 fold/2 crop/
           3 ellipsis), crop, mode (0 = console.render(table, console.options.update(...)), 1 = console.print(table, ...)
           captured)] -- the console-level options the table is rendered / printed under
  opts = [box, edge, header, footer, lines, leading, [pt,pr,pb,pl], collapse, pad_edge, expand, width?, minw?]
  col  = [width?, minw?, maxw?, ratio?, nowrap, justify, overflow, header_text, footer_text]
  row  = [[cell_text, ...], end_section]
Optional values are [] or [v]; texts are code point lists; box? indexes gen/BoxChars.BOXES
(same order as the Box literals of rich/box.py).
"""
from common import s2t, t2s

OPS = {
    "round_div": {}, "ceil_div": {}, "trunc_div": {},
    "ratio_reduce": {}, "ratio_distribute": {"res": True}, "collapse_widths": {"res": True},
    "table_widths": {"res": True},
    "table_render": {"spec_only": True},
    "cells_raw": {"spec_only": True},     # only as the witness of the known finding C07-ratio-column-one-cell
    "leading_multiplied": {}, "flexmin_measured": {},
}

BOX_NAMES = ["ASCII", "ASCII2", "ASCII_DOUBLE_HEAD", "SQUARE", "SQUARE_DOUBLE_HEAD", "MINIMAL",
             "MINIMAL_HEAVY_HEAD", "MINIMAL_DOUBLE_HEAD", "SIMPLE", "SIMPLE_HEAD", "SIMPLE_HEAVY",
             "HORIZONTALS", "ROUNDED", "HEAVY", "HEAVY_EDGE", "HEAVY_HEAD", "DOUBLE", "DOUBLE_EDGE"]
JUSTIFY = ["left", "center", "right", "full"]
OVERFLOW = ["fold", "crop", "ellipsis", "ignore"]
FOLD = 0

# characters that occur only in one row: header, rows 0..7, footer (two narrow, one double-width)
WIDE_POOL = "あ中日本語한글文字漢"
ROW_CHARS = []
for _k in range(10):
    ROW_CHARS.append(chr(ord("A") + 2 * _k) + chr(ord("a") + 2 * _k + 1) + WIDE_POOL[_k])
# double-width characters at boundaries of the cell-width table (first Hangul Jamo, CJK symbols, fullwidth
# forms, emoji) for cells that get clipped
EDGE_WIDE = "\u1100\u3007\uff21\U0001f600"
WIDE = set(WIDE_POOL) | set(EDGE_WIDE)

# what the model is told about the as-found behaviours (flipped by the coordinator once the
# corresponding fix: commits are in /repo; see notes/C07.md)
STALE = [0, 0]    # [stale, capmin]; 0 = table_width recomputed after the re-measure / expand not capped
                  # by min_width (fixes/C07_expand_exact.diff)
LEAD_MUL = [0]    # 0 = `leading` blank rows on lines of their own (fixes/C07_leading_rows.diff)
THOROUGH = [False]


def cw(c):
    return 2 if c in WIDE else 1


def clen(s):
    return sum(cw(c) for c in s)


def text_measure(s):
    """Text.__rich_measure__ for the generator's alphabet (letters, CJK, space, newline)"""
    if not s.strip():
        return [clen(s.replace("\n", "")), clen(s.replace("\n", ""))]
    return [max(clen(w) for w in s.split()), max(clen(l) for l in s.splitlines())]


# ---------------------------------------------------------------- total decoding of descriptions
# The generic shrinker of common.py deletes / halves / zeroes arbitrary sub-trees.  `sanitize` maps
# ANY tree to a well-formed table description (identity on what `generate` emits) and is applied on
# both sides (implementation, model, spec checkers), so structurally shrunk candidates -- a column or
# a row dropped, a text halved -- are valid tables and shrinking proceeds.
DEFAULT_OPTS = [1, 1, 1, 0, 0, 0, [0, 1, 0, 1], 0, 1, 0, [], []]
ALLOWED = set(ord(c) for c in " \n") | set(range(ord("A"), ord("Z") + 1)) | set(range(ord("a"), ord("z") + 1)) \
    | set(ord(c) for c in WIDE_POOL) | set(ord(c) for c in EDGE_WIDE)


def _flag(x):
    return 1 if isinstance(x, int) and x != 0 else 0


def _optint(x, lo, hi):
    if isinstance(x, list) and x and isinstance(x[0], int):
        return [max(lo, min(hi, x[0]))]
    return []


def _text(x):
    if not isinstance(x, list):
        return []
    return [c if c in ALLOWED else 120 for c in x if isinstance(c, int)]


def nested_word(t, k):
    """the text a nested fixed-width cell holds: first word, cut to at most k cells"""
    w = []
    n = 0
    for c in t:
        if c in (32, 10):
            if w:
                break
            continue
        n += 2 if chr(c) in WIDE else 1
        if n > k:
            break
        w.append(c)
    return w


def sanitize(d):
    d = list(d) if isinstance(d, list) else []
    xt = d[7] if len(d) > 7 and isinstance(d[7], list) else []
    xt = [x if isinstance(x, int) else 0 for x in xt[:2]]
    xt = xt + [0, 0][len(xt):]
    xt = [_flag(xt[0]), max(0, min(30, xt[1]))]
    co = d[6] if len(d) > 6 and isinstance(d[6], list) else []
    co = [x if isinstance(x, int) else 0 for x in co[:6]]
    co = co + [0, 0, 0, 0, 1, 0][len(co):]
    co = [co[0] % 3, _flag(co[1]), co[2] % 5, co[3] % 4, _flag(co[4]), _flag(co[5])]
    d = (d + [[], [], [], [], 20, []])[:6] if len(d) < 6 else d[:6]
    o = list(d[0]) if isinstance(d[0], list) else []
    o = o[:12] + DEFAULT_OPTS[len(o[:12]):]
    box = _optint(d[1], 0, len(BOX_NAMES) - 1)
    pad = o[6] if isinstance(o[6], list) else []
    pad = [max(0, min(3, x)) if isinstance(x, int) else 0 for x in pad[:4]]
    pad = pad + [0] * (4 - len(pad))
    opts = [1 if box else 0, _flag(o[1]), _flag(o[2]), _flag(o[3]), _flag(o[4]),
            max(0, min(3, o[5])) if isinstance(o[5], int) else 0, pad, _flag(o[7]), _flag(o[8]), _flag(o[9]),
            _optint(o[10], 1, 200), _optint(o[11], 1, 200)]
    cols = []
    for c in (d[2] if isinstance(d[2], list) else [])[:6]:
        c = list(c) if isinstance(c, list) else []
        c = c[:9] + [[], [], [], [], 0, 0, 0, [], []][len(c[:9]):]
        cols.append([_optint(c[0], 1, 60), _optint(c[1], 1, 60), _optint(c[2], 1, 60), _optint(c[3], 1, 9), _flag(c[4]),
                     c[5] % 4 if isinstance(c[5], int) else 0, c[6] % 4 if isinstance(c[6], int) else 0,
                     _text(c[7]), _text(c[8])])
    if not cols:
        cols = [[[], [], [], [], 0, 0, 0, [], []]]
    n = len(cols)
    rows = []
    for r in (d[3] if isinstance(d[3], list) else [])[:8]:
        r = list(r) if isinstance(r, list) else []
        cells = r[0] if r and isinstance(r[0], list) else []
        cells = [_text(x) for x in cells[:n]]
        cells = cells + [[] for _ in range(n - len(cells))]
        if xt[1] and cells:
            cells[0] = nested_word(cells[0], xt[1])
        rows.append([cells, _flag(r[1]) if len(r) > 1 else 0])
    W = max(1, min(250, d[4])) if isinstance(d[4], int) else 20
    ex = d[5] if isinstance(d[5], list) else []
    ex = (list(ex) + [[], []])[:2]
    extras = [[_text(e[0])] if isinstance(e, list) and e and isinstance(e[0], list) and e[0] else [] for e in ex]
    return [opts, box, cols, rows, W, extras, co, xt]


# ---------------------------------------------------------------- generators
def rtext(rng, k, kind=None):
    """cell text for row class k"""
    pool = ROW_CHARS[k]
    kind = kind or rng.choice(["empty", "short", "short", "words", "words", "long", "multi", "wide"])
    if kind == "empty":
        return ""
    narrow = pool[:2]

    def word(maxlen):
        n = rng.randint(1, maxlen)
        return "".join(rng.choice(narrow if rng.random() < 0.8 else pool) for _ in range(n))
    if kind == "short":
        return word(3)
    if kind == "wide":
        return "".join(rng.choice(pool[2] + narrow) for _ in range(rng.randint(1, 6)))
    if kind == "words":
        return " ".join(word(5) for _ in range(rng.randint(1, 5)))
    if kind == "long":
        return " ".join(word(rng.choice([3, 8, 20])) for _ in range(rng.randint(2, 12)))
    return "\n".join(" ".join(word(4) for _ in range(rng.randint(1, 3))) for _ in range(rng.randint(2, 3)))


def opt(rng, p, f):
    return [f()] if rng.random() < p else []


def rdesc(rng, plain=False):
    ncols = rng.choice([1, 2, 2, 3, 3, 4, 5, 6])
    nrows = rng.choice([0, 1, 1, 2, 2, 3, 4, 8])
    box = [] if rng.random() < 0.15 else [rng.randrange(len(BOX_NAMES))]
    pad = rng.choice([[0, 1, 0, 1], [0, 1, 0, 1], [0, 0, 0, 0], [1, 2, 1, 2], [0, 2, 0, 0], [0, 0, 0, 3], [1, 1, 0, 2],
                      [rng.randint(0, 2) for _ in range(4)]])
    expand = 1 if rng.random() < 0.4 else 0
    opts = [1 if box else 0,
            1 if rng.random() < 0.8 else 0,           # show_edge
            1 if rng.random() < 0.8 else 0,           # show_header
            1 if rng.random() < 0.3 else 0,           # show_footer
            1 if rng.random() < 0.25 else 0,          # show_lines
            rng.choice([0, 0, 0, 0, 1, 1, 2, 3]),     # leading
            pad,
            1 if rng.random() < 0.25 else 0,          # collapse_padding
            1 if rng.random() < 0.8 else 0,           # pad_edge
            expand,
            opt(rng, 0.12, lambda: rng.choice([10, 20, 30, 50, 80, rng.randint(5, 120)])),   # width
            opt(rng, 0.15, lambda: rng.choice([10, 20, 30, 50, 80, rng.randint(5, 120)]))]   # min_width
    if plain:
        opts[10] = []
        opts[11] = []
    cols = []
    any_ratio = rng.random() < 0.3
    for j in range(ncols):
        special = (not plain) and rng.random() < 0.35
        col = [opt(rng, 0.3 if special else 0, lambda: rng.choice([1, 2, 3, 5, 8, 12, 20])),      # width
               opt(rng, 0.3 if special else 0, lambda: rng.choice([1, 2, 4, 8, 15])),             # min_width
               opt(rng, 0.3 if special else 0, lambda: rng.choice([1, 2, 4, 8, 15, 30])),         # max_width
               opt(rng, 0.6 if any_ratio else 0, lambda: rng.choice([1, 1, 2, 3, 5])),            # ratio
               1 if (special and rng.random() < 0.3) else 0,                                      # no_wrap
               rng.randrange(4), rng.choice([0, 0, 0, 1, 2]),
               s2t(rtext(rng, 0, rng.choice(["short", "short", "words", "empty", "wide", "long"]))),
               s2t(rtext(rng, 9, rng.choice(["short", "words", "empty"])))]
        cols.append(col)
    kinds = rng.choice([None, None, "short", "long", "wide"])
    rows = []
    for i in range(nrows):
        rows.append([[s2t(rtext(rng, 1 + i, kinds)) for _ in range(ncols)], 1 if rng.random() < 0.15 else 0])
    extras = [opt(rng, 0.15, lambda: s2t("Title " + "t" * rng.randint(0, 30))),
              opt(rng, 0.1, lambda: s2t("Caption"))]
    copts = [0, 0, 0, 0, 1, 0]
    if not plain and rng.random() < 0.45:
        copts = [rng.choice([0, 1, 1, 2]), 1 if rng.random() < 0.3 else 0, rng.randrange(5), rng.randrange(4),
                 rng.randint(0, 1), rng.randint(0, 1)]
    xt = [0, 0]
    if not plain and rng.random() < 0.3:
        xt = [1 if rng.random() < 0.7 else 0, rng.choice([0, 0, 3, 6, 12, 25])]
        # cells that get clipped: unwrapped columns holding runs of double-width characters longer than the column
        for col in cols:
            if rng.random() < 0.6:
                col[6] = rng.choice([3, 3, 1])
                col[4] = 1 if rng.random() < 0.3 else 0
        for ri, r in enumerate(rows):
            for j in range(ncols):
                if rng.random() < 0.6:
                    pool = ROW_CHARS[1 + ri] + EDGE_WIDE + ROW_CHARS[1 + ri][2] * 3
                    r[0][j] = s2t("".join(rng.choice(pool) for _ in range(rng.randint(4, 30))))
    desc = [opts, box, cols, rows, 0, extras, copts, xt]
    desc = sanitize(desc)
    sm = smin(desc)
    r = rng.random()
    if r < 0.12:
        W = rng.randint(max(1, sm - 4), max(1, sm - 1))
    elif r < 0.5:
        W = sm + rng.choice([0, 0, 1, 2, 3])
    else:
        import math
        W = min(200, int(sm * math.exp(rng.random() * math.log(max(2.0, 200.0 / max(sm, 1))))) + rng.randint(0, 3))
    desc[4] = max(1, W)
    return desc


def ncols_of(desc):
    return len(desc[2])


def extra_width(desc):
    opts = desc[0]
    n = ncols_of(desc)
    return (2 if opts[0] and opts[1] else 0) + (n - 1 if opts[0] else 0)


def padding_width(desc, j):
    opts = desc[0]
    pt, pr, pb, pl = opts[6]
    if opts[7] and j > 0:
        pl = max(0, pl - pr)
    return pl + pr


def column_texts(desc, j):
    """texts of column j in the order _get_cells yields them"""
    opts, _, cols, rows = desc[0], desc[1], desc[2], desc[3]
    out = []
    if opts[2]:
        out.append(t2s(cols[j][7]))
    out += [t2s(r[0][j]) for r in rows]
    if opts[3]:
        out.append(t2s(cols[j][8]))
    return out


def col_need(desc, j):
    """content cells a column needs: one character (two when a double-width one occurs); an
    explicit width / min_width; the widest line for a no_wrap column"""
    col = desc[2][j]
    texts = column_texts(desc, j)
    need = 2 if any(c in WIDE for t in texts for c in t) else 1
    if col[0]:
        need = max(1, col[0][0])
    else:
        if col[4]:
            need = max([need] + [text_measure(t)[1] for t in texts])
            # a nested Table(width=k) cell measures k wide whatever it holds
            k = desc[7][1] if len(desc) > 7 else 0
            if k and j == 0 and desc[3]:
                need = max(need, k)
        if col[1]:
            need = max(need, col[1][0])
    return need


def smin(desc):
    """structural minimum: borders and padding plus, in every column, the widest per-column need
    (the collapse levels all columns, so each must be able to take the largest need)"""
    n = ncols_of(desc)
    fixed = 0
    level = 0
    for j in range(n):
        col = desc[2][j]
        if col[0] or col[4]:
            fixed += col_need(desc, j) + padding_width(desc, j)
        else:
            level = max(level, col_need(desc, j) + padding_width(desc, j))
    flex = sum(1 for j in range(n) if not (desc[2][j][0] or desc[2][j][4]))
    return extra_width(desc) + fixed + flex * level


def generate(rng, tier):
    THOROUGH[0] = tier == "thorough"
    k = 1 if tier == "quick" else 25
    cases = [("leading_multiplied", []), ("flexmin_measured", [])]
    # ---- rounding primitives: exhaustive small domain + values near the 2^26 bound
    for n in range(-40, 41):
        for d in range(1, 13):
            cases.append(("round_div", [n, d]))
            cases.append(("ceil_div", [n, d]))
            cases.append(("trunc_div", [n, d]))
    B = 2 ** 26
    for _ in range(300 * k):
        a = rng.choice([rng.randint(-B + 1, B - 1), B - 1 - rng.randint(0, 5), rng.randint(-1000, 1000)])
        b = rng.choice([rng.randint(-B + 1, B - 1), B - 1 - rng.randint(0, 5), rng.randint(-1000, 1000)])
        d = rng.choice([rng.randint(1, B - 1), B - 1 - rng.randint(0, 5), rng.randint(1, 50), 2, 4])
        cases.append(("round_div", [a * b, d]))
        cases.append(("ceil_div", [a * b, d]))
        # exact halves and their neighbours
        q = rng.randint(-B // 2, B // 2)
        dd = 2 * rng.randint(1, 2 ** 20)
        cases.append(("round_div", [q * dd + dd // 2, dd]))
        cases.append(("round_div", [q * dd + dd // 2 + rng.choice([-1, 1]), dd]))
    # ---- kernels, exhaustive small domains
    import itertools
    for total in range(0, 7):
        for ratios in itertools.product(range(0, 3), repeat=3):
            cases.append(("ratio_distribute", [total, list(ratios), []]))
            for mins in ([1, 1, 1], [0, 2, 1], [3, 0, 0]):
                cases.append(("ratio_distribute", [total, list(ratios), [mins]]))
            for maxs in ([total, total, total], [1, 1, 1], [0, 2, 5]):
                cases.append(("ratio_reduce", [total, list(ratios), maxs, [5, 3, 4]]))
    for widths in itertools.product(range(0, 5), repeat=3):
        for wrap in itertools.product([0, 1], repeat=3):
            for mw in (0, 2, 3, 5, 7):
                cases.append(("collapse_widths", [list(widths), list(wrap), mw]))
    # ---- kernels, random
    for _ in range(700 * k):
        n = rng.choice([0, 1, 2, 3, 4, 6, 9])
        big = rng.random() < 0.1
        hi = B - 1 if big else rng.choice([3, 10, 100])
        ratios = [rng.choice([0, 1, 1, rng.randint(0, hi)]) for _ in range(n)]
        total = rng.choice([0, 1, rng.randint(0, hi), rng.randint(-20, 200)])
        mins = rng.choice([[], [[rng.choice([0, 1, 3, rng.randint(0, 30)]) for _ in range(rng.choice([n, n, max(0, n - 1), n + 1]))]]])
        cases.append(("ratio_distribute", [total, ratios, mins]))
        maxs = [rng.choice([0, 1, 5, total, rng.randint(0, 50)]) for _ in range(rng.choice([n, n, n + 1]))]
        vals = [rng.randint(0, 60) for _ in range(rng.choice([n, n, max(0, n - 1)]))]
        cases.append(("ratio_reduce", [total, ratios, maxs, vals]))
    for _ in range(700 * k):
        n = rng.choice([1, 2, 3, 4, 6, 9])
        widths = [rng.choice([0, 1, 2, 3, rng.randint(0, 40), rng.randint(0, 200)]) for _ in range(n)]
        wrap = [1 if rng.random() < rng.choice([0.5, 0.9, 1.0]) else 0 for _ in range(n)]
        mw = rng.choice([0, 1, n, sum(widths) - 1, sum(widths) // 2, rng.randint(-3, max(1, sum(widths)))])
        cases.append(("collapse_widths", [widths, wrap, mw]))
    # ---- tables
    for i in range(1100 * k):
        desc = rdesc(rng, plain=(i % 4 == 0))
        cases.append(("table_widths", desc))
        cases.append(("table_render", desc))
    return cases


# ---------------------------------------------------------------- model-side argument mapping
def model_cols(desc):
    out = []
    for j, col in enumerate(desc[2]):
        cells = [text_measure(t) for t in column_texts(desc, j)]
        k = desc[7][1] if len(desc) > 7 else 0
        if k and j == 0:
            # Table(width=k).__rich_measure__ = (widest cell minimum, k)
            first = 1 if desc[0][2] else 0
            for i in range(len(desc[3])):
                cells[first + i] = [cells[first + i][0], k]
        out.append([col[0], col[1], col[2], col[3], col[4], cells])
    return out


def model_case(op, arg):
    if op == "table_widths":
        arg = sanitize(arg)
        return op, [STALE, arg[0], model_cols(arg), arg[4]]
    return op, arg


# ---------------------------------------------------------------- implementation side
def mk_cell(text, styled):
    """str, or a Text whose alternate 2-character runs are styled (-> several segments per line)"""
    if not styled:
        return text
    from rich.text import Text
    t = Text(text)
    for i in range(0, len(text), 4):
        t.stylize("bold", i, i + 2)
    return t


def build(desc, with_annot=True):
    from rich.table import Table, Column
    from rich import box as rbox
    opts, bx, cols, rows, W, extras, copts, xt = desc
    columns = []
    for col in cols:
        columns.append(Column(header=mk_cell(t2s(col[7]), xt[0]), footer=mk_cell(t2s(col[8]), xt[0]),
                              width=col[0][0] if col[0] else None,
                              min_width=col[1][0] if col[1] else None,
                              max_width=col[2][0] if col[2] else None,
                              ratio=col[3][0] if col[3] else None,
                              no_wrap=bool(col[4]), justify=JUSTIFY[col[5]], overflow=OVERFLOW[col[6]]))
    t = Table(*columns,
              title=(t2s(extras[0][0]) if (with_annot and extras[0]) else None),
              caption=(t2s(extras[1][0]) if (with_annot and extras[1]) else None),
              box=getattr(rbox, BOX_NAMES[bx[0]]) if bx else None,
              show_edge=bool(opts[1]), show_header=bool(opts[2]), show_footer=bool(opts[3]),
              show_lines=bool(opts[4]), leading=opts[5], padding=tuple(opts[6]),
              collapse_padding=bool(opts[7]), pad_edge=bool(opts[8]), expand=bool(opts[9]),
              width=opts[10][0] if opts[10] else None, min_width=opts[11][0] if opts[11] else None)
    for cells, end_section in rows:
        objs = [mk_cell(t2s(c), xt[0]) for c in cells]
        if xt[1] and objs:
            inner = Table(width=xt[1], box=None, padding=0, show_header=False)
            inner.add_row(mk_cell(t2s(cells[0]), xt[0]))
            objs[0] = inner
        t.add_row(*objs, end_section=bool(end_section))
    return t


def console(W):
    import io
    from rich.console import Console
    return Console(width=W, file=io.StringIO(), color_system=None, legacy_windows=False,
                   force_terminal=False, _environ={})


def render_text_lines(con, renderable):
    from rich.segment import Segment
    lines = list(Segment.split_lines(con.render(renderable, con.options)))
    return ["".join(s.text for s in l if not s.is_control) for l in lines]


NOWRAP = [None, True, False]
JUST = [None, "left", "center", "right", "full"]
OVER = [None, "fold", "crop", "ellipsis"]


def render_under(con, renderable, copts):
    """the text lines of `renderable` rendered / printed under the console-level options copts, and the
    ConsoleOptions it was handed (what Table.__rich_console__ sees)"""
    from rich.segment import Segment
    no_wrap, soft, justify, overflow = NOWRAP[copts[0]], bool(copts[1]), JUST[copts[2]], OVER[copts[3]]
    crop, mode = bool(copts[4]), copts[5]
    if soft:       # Console.print(soft_wrap=True)
        no_wrap = True if no_wrap is None else no_wrap
        overflow_eff = "ignore" if overflow is None else overflow
    else:
        overflow_eff = overflow
    if mode == 0:
        options = con.options.update(no_wrap=no_wrap, justify=justify, overflow=overflow_eff)
        lines = list(Segment.split_lines(con.render(renderable, options)))
        return ["".join(s.text for s in l if not s.is_control) for l in lines], options
    # justify left/center/right would wrap the table in Align (C08's business): only None / "full" here
    j = justify if justify in (None, "full") else None
    con.print(renderable, no_wrap=NOWRAP[copts[0]], overflow=overflow, justify=j, soft_wrap=soft, crop=crop)
    text = con.file.getvalue()
    lines = text.split("\n")
    if lines and lines[-1] == "":
        lines.pop()
    options = con.options.update(justify="default", overflow=overflow_eff, no_wrap=no_wrap)
    return lines, options


def impl(op, arg):
    from math import ceil
    if op == "round_div":
        return round(arg[0] / arg[1])
    if op == "ceil_div":
        return ceil(arg[0] / arg[1])
    if op == "trunc_div":
        return int(arg[0] / arg[1])
    if op == "ratio_reduce":
        from rich._ratio import ratio_reduce
        return ratio_reduce(arg[0], list(arg[1]), list(arg[2]), list(arg[3]))
    if op == "ratio_distribute":
        from rich._ratio import ratio_distribute
        if arg[2]:
            return ratio_distribute(arg[0], list(arg[1]), list(arg[2][0]))
        return ratio_distribute(arg[0], list(arg[1]))
    if op == "collapse_widths":
        from rich.table import Table
        return Table._collapse_widths(list(arg[0]), [bool(b) for b in arg[1]], arg[2])
    if op == "leading_multiplied":
        # behavioural twin of the T3 fact gen/BoxChars.LEADING_MULTIPLIED
        from rich.table import Table
        t = Table("a", leading=2)
        t.add_row("1")
        t.add_row("2")
        lines = render_text_lines(console(20), t)
        return 1 if len(lines) == 6 else 0
    if op == "flexmin_measured":
        # behavioural twin of the T3 fact gen/BoxChars.FLEXMIN_MEASURED
        from rich.table import Table, Column
        t = Table(Column("", ratio=1), Column(""), box=None, padding=0, expand=True, show_header=False)
        t.add_row("\u4e2d", "dC d ddC\u4e2ddd dCCdd " * 4)
        return 1 if t._calculate_column_widths(console(20), 20) == [2, 18] else 0
    if op == "cells_raw":
        op = "table_render"
    desc = sanitize(arg)
    opts, bx, cols, rows, W, extras, copts, xt = desc
    con = console(W)
    t = build(desc, with_annot=False)
    target = opts[10][0] if opts[10] else W
    if op == "table_widths":
        return t._calculate_column_widths(con, target - t._extra_width)
    if op == "table_render":
        from rich.segment import Segment
        widths = t._calculate_column_widths(con, target - t._extra_width)
        body, options = render_under(con, t, copts)
        # the cells as _render sees them, rendered on their own at the column widths under the options the
        # table was handed (Table overrides justify / no_wrap / overflow per column: update(None) = keep)
        ro = options.update(width=sum(widths) + t._extra_width, highlight=False)
        colcells = [list(t._get_cells(con, j, c)) for j, c in enumerate(t.columns)]
        out_rows = []
        nshown = len(colcells[0]) if colcells else 0
        for i in range(nshown):
            cells = []
            for j, c in enumerate(t.columns):
                cro = ro.update(width=widths[j], justify=c.justify, no_wrap=c.no_wrap, overflow=c.overflow)
                lines = con.render_lines(colcells[j][i].renderable, cro)
                cells.append([[[s2t(s.text), []] for s in l if not s.is_control] for l in lines])
            is_row = not (i == 0 and opts[2]) and not (i == nshown - 1 and opts[3])
            es = 0
            if is_row:
                es = rows[i - (1 if opts[2] else 0)][1]
            out_rows.append([cells, es])
        # title / caption stand on lines of their own around an unchanged body
        annot_ok = 1
        if extras[0] or extras[1]:
            full, _ = render_under(console(W), build(desc, with_annot=True), copts)
            annot_ok = 0
            for k in range(0, len(full) - len(body) + 1):
                if full[k:k + len(body)] == body:
                    annot_ok = 1 if ((k > 0) == bool(extras[0])) and ((k + len(body) < len(full)) == bool(extras[1])) else 0
                    break
        return [widths, out_rows, [s2t(l) for l in body], annot_ok]
    raise KeyError(op)


# ---------------------------------------------------------------- spec checkers on the implementation's output
def spec_cases(op, arg, out):
    if isinstance(out, dict):
        return []
    res = []
    if op == "ratio_distribute" and out[0] == 0:
        total, ratios, mins = arg
        eff = ratios
        if mins and mins[0]:
            eff = [r if m else 0 for r, m in zip(ratios, mins[0])]
        if all(r >= 0 for r in eff):
            if not mins and total >= 0:
                res.append(("spec.distribute_sum", [total, out[1]]))
            if mins and mins[0] and all(r > 0 for r in eff) and len(mins[0]) == len(ratios):
                res.append(("spec.distribute_min", [mins[0], out[1]]))
    if op == "ratio_reduce":
        total, ratios, maxs, vals = arg
        eff = [r if m else 0 for r, m in zip(ratios, maxs)]
        if sum(eff) != 0 and all(r >= 0 for r in ratios) and all(m >= 0 for m in maxs) and total >= 0 \
                and len(ratios) == len(maxs) == len(vals):
            res.append(("spec.reduce_bound", [total, maxs, vals, out]))
            if all(m == 0 or total <= m for m in maxs):
                res.append(("spec.reduce_sum", [total, vals, out]))
    if op == "collapse_widths" and out[0] == 0:
        widths, wrap, mw = arg
        if len(widths) == len(wrap) and all(w >= 0 for w in widths):
            res.append(("spec.collapse_ok", [widths, wrap, mw, out[1]]))
    if op == "cells_raw":
        # the property's statement without the theorem's per-column hypothesis (cell_room): every fold,
        # wrapping column is held to "all its characters, in order, inside its span"
        desc = sanitize(arg)
        opts, bx, cols, rows, W, extras, copts, xt = desc
        widths, out_rows, body, annot_ok = out
        colspec = []
        for j in range(len(cols)):
            fold = cols[j][6] == FOLD and not cols[j][4]
            chars = [ord(c) for t in column_texts(desc, j) for c in t if not c.isspace()]
            colspec.append([1 if fold else 0, 0, padding_width(desc, j), chars])
        return [("spec.cells_in_columns", [bx, opts[1], [STALE, opts, model_cols(desc), W], colspec, body])]
    if op == "table_render":
        desc = sanitize(arg)
        opts, bx, cols, rows, W, extras, copts, xt = desc
        widths, out_rows, body, annot_ok = out
        n = len(cols)
        target = opts[10][0] if opts[10] else W
        if copts[5] == 1 and copts[4] == 1 and not copts[1] and sum(widths) + extra_width(desc) > W:
            # console.print(crop=True) of a table wider than the console: the lines are cut at W
            return [("spec.rect", body)]
        # (1) the assembly model reproduces the implementation's lines from its own cell lines
        res.append(("spec.render_eq", [LEAD_MUL[0], opts, bx, widths, out_rows, body]))
        # "asked to expand => exactly the width asked for": the guard is Table.expand_dom_b, the very
        # predicate of theorem C07_table_expand_exact, evaluated by the model driver on this table
        res.append(("spec.expand_exact_dom", [[STALE, opts, model_cols(desc), W], body]))
        if W < smin(desc) or target < smin(desc):
            return res
        # (2) the property, on the printed table
        res.append(("spec.rect", body))
        if annot_ok != 1:
            res.append(("spec.rect", [[1], [1, 1]]))   # title/caption not on lines of their own
        shown = ([0] if opts[2] else []) + [1 + i for i in range(len(rows))] + ([9] if opts[3] else [])
        rowsets = []
        for pos, k in enumerate(shown):
            texts = [column_texts(desc, j)[pos] for j in range(n)]
            rowsets.append(set(ord(c) for t in texts for c in t if not c.isspace()))
        # a character is evidence for a row only if it occurs in that row alone (always so for generated
        # tables; shrunk ones may share characters)
        classes = [sorted(c for c in rs if sum(1 for other in rowsets if c in other) == 1) for rs in rowsets]
        # "every row is met" is demanded under the hypotheses of C07_cell_chars_in_own_column: fold, not
        # no_wrap, and room for one character of the column's cells (2 cells when a double-width one
        # occurs) inside the padding -- a ratio column can be squeezed to one cell at any W (notes)
        # "every row is met" / "all characters of a fold column" are demanded of every table at W >= smin
        # except the class of known finding C07-ratio-column-one-cell (a ratio column whose content needs
        # more cells than the (width or 1) the solver guarantees it): there only under the theorem's
        # per-column hypothesis (cell_room)
        def need(j):
            return 2 if any(c in WIDE for t in column_texts(desc, j) for c in t) else 1

        # a column with BOTH ratio and an explicit width (outside C07's column options) takes its ratio
        # share beyond that width and is then not collapsible: its neighbours can be squeezed below one
        # character although the table is above the structural minimum computed from the widths
        ratio_and_width = any(c[0] and c[3] for c in cols)

        def in_known_class(j):
            if ratio_and_width:
                return True
            # ... or the user capped the column below one character of its cells (width / max_width)
            capped = (cols[j][0] and cols[j][0][0] < need(j)) or (cols[j][2] and cols[j][2][0] < need(j))
            return bool(capped) or (bool(cols[j][3]) and need(j) > (cols[j][0][0] if cols[j][0] else 1))
        all_fold = all(c[6] == FOLD and not c[4] for c in cols) and not xt[1] \
            and all(len(rs) == len(cl) for rs, cl in zip(rowsets, classes)) \
            and all(widths[j] - padding_width(desc, j) >= need(j) for j in range(n) if in_known_class(j))
        res.append(("spec.rows_ordered", [classes, 1 if all_fold else 0, body]))
        colspec = []
        for j in range(n):
            fold = cols[j][6] == FOLD and not cols[j][4] and not (xt[1] and j == 0)
            chars = [ord(c) for t in column_texts(desc, j) for c in t if not c.isspace()]
            colspec.append([1 if fold else 0, need(j) if in_known_class(j) else 0, padding_width(desc, j), chars])
        res.append(("spec.cells_in_columns", [bx, opts[1], [STALE, opts, model_cols(desc), W], colspec, body]))
    return res


def known_ratio_column_min(op, arg):
    """matcher of known finding C07-ratio-column-one-cell: a table with a ratio column whose content
    needs more cells than the `(width or 1)` the solver guarantees it (a double-width character in
    a ratio column without an explicit width >= 2)"""
    if op not in ("table_render", "table_widths", "cells_raw"):
        return False
    desc = sanitize(arg)
    for j, col in enumerate(desc[2]):
        if col[3]:
            need = 2 if any(c in WIDE for t in column_texts(desc, j) for c in t) else 1
            if need > (col[0][0] if col[0] else 1):
                return True
    return False


def describe(op, arg):
    try:
        if op in ("table_widths", "table_render", "cells_raw"):
            opts, bx, cols, rows, W, extras, copts, xt = sanitize(arg)
            return (f"Table {len(cols)} cols x {len(rows)} rows, box={BOX_NAMES[bx[0]] if bx else None}, W={W}, "
                    f"expand={opts[9]} width={opts[10]} min_width={opts[11]} leading={opts[5]} padding={opts[6]} "
                    f"console opts (no_wrap,soft_wrap,justify,overflow,crop,print)={copts}")
    except Exception:
        pass
    return None
