"""Layer `pretty` (C16): rich.pretty.pretty_repr / traverse / Node.render.

A case carries a *value description* D (nested int lists) from which the real Python object is
built on the implementation side:

  leaves      [0, n] int   [1, cps] str   [2, bytes] bytes   [3, i] FLOATS[i]   [4, b] bool   [5] None
  sequences   [10, items] list  [11, items] tuple  [12, items] set  [13, items] frozenset
              [14, items] deque  [15, tc, ints] array(TYPECODES[tc], ...)
  mappings    [20, [[k, v]..]] dict  [21, [[k, v]..]] Counter  [22, f, [[k, v]..]] defaultdict(FACTORIES[f], ...)
  cycle       [30, up]  the container `up` levels above (1 = the container holding this item)
  sharing     [31, k]   the k-th most recently completed container (same object again: NOT a cycle)

The model receives the value as V (DrvPretty.tV): reprs of leaves are oracles computed by the real
repr(); set iteration order is the real one.  Because str hashes are randomised, D -> V is computed
in a helper interpreter started with PYTHONHASHSEED=0, the setting the implementation runs under.
A D that does not denote a value (unhashable set element, dangling cycle reference, ...) is mapped
to the constant op `bad_input` on both sides, so that the shrinker cannot wander off.
"""
import json, os, subprocess, sys

from common import s2t, t2s, PY

OPS = {"pretty_repr": {"res": True}, "node_str": {"res": True}, "bad_input": {"res": True}}

FLOATS = [0.0, -0.0, 1.5, -2.25, 3.141592653589793, 1e100, 1e-7, 123456789.125, 0.1, -1e22, 5e-324, 2.0]
TYPECODES = "bBhHiIlLqQfd"
FACTORIES = [None, list, int, dict]
SEQ_CODES = {10: 0, 11: 1, 12: 2, 13: 3, 14: 4, 15: 5}
MAP_CODES = {20: 0, 21: 1, 22: 2}

ASIS = [0]          # 1: ask the model for rich 9.10.0 before the D5/D22 fixes


class BadD(Exception):
    pass


# ---------------------------------------------------------------- D -> object
def build(d, stack=None, done=None):
    """stack: containers being built (None where a cycle may not point); done: completed containers"""
    if done is None:
        done = []
    obj = _build(d, [] if stack is None else stack, done)
    return obj


def _build(d, stack, done):
    obj = _build1(d, stack, done)
    if d[0] >= 10 and d[0] < 30:
        done.append(obj)
    return obj


def _build1(d, stack, done):
    from array import array
    from collections import Counter, defaultdict, deque
    build = lambda x, st: _build(x, st, done)
    if not (isinstance(d, list) and d and isinstance(d[0], int)):
        raise BadD("shape")
    tag = d[0]
    try:
        if tag == 0:
            (n,) = d[1:]
            if not isinstance(n, int):
                raise BadD("int")
            return n
        if tag == 1:
            return t2s(d[1])
        if tag == 2:
            return bytes(d[1])
        if tag == 3:
            return FLOATS[d[1]] if 0 <= d[1] < len(FLOATS) else _bad()
        if tag == 4:
            return bool(d[1]) if d[1] in (0, 1) else _bad()
        if tag == 5:
            return None if len(d) == 1 else _bad()
        if tag == 30:
            up = d[1]
            if not (isinstance(up, int) and 1 <= up <= len(stack)) or stack[-up] is None:
                raise BadD("cycle target")
            return stack[-up]
        if tag == 31:
            k = d[1]
            if not (isinstance(k, int) and 1 <= k <= len(done)):
                raise BadD("share target")
            return done[-k]
        if tag == 10:
            obj = []
            stack.append(obj)
            for x in d[1]:
                obj.append(build(x, stack))
            stack.pop()
            return obj
        if tag == 14:
            obj = deque()
            stack.append(obj)
            for x in d[1]:
                obj.append(build(x, stack))
            stack.pop()
            return obj
        if tag in (11, 12, 13):
            stack.append(None)      # immutable / hashed: cannot be the target of a cycle reference
            items = [build(x, stack) for x in d[1]]
            stack.pop()
            return tuple(items) if tag == 11 else set(items) if tag == 12 else frozenset(items)
        if tag == 15:
            tc = TYPECODES[d[1]] if 0 <= d[1] < len(TYPECODES) else _bad()
            vals = d[2]
            if tc in "fd":
                return array(tc, [float(v) / 2 for v in vals])
            return array(tc, vals)
        if tag in (20, 21, 22):
            if tag == 20:
                obj, kvs = {}, d[1]
            elif tag == 21:
                obj, kvs = Counter(), d[1]
            else:
                obj, kvs = defaultdict(FACTORIES[d[1]] if 0 <= d[1] < len(FACTORIES) else _bad()), d[2]
            stack.append(obj)
            for kv in kvs:
                k, v = kv
                stack.append(None)
                key = build(k, stack)
                stack.pop()
                dict.__setitem__(obj, key, build(v, stack))
            stack.pop()
            return obj
    except BadD:
        raise
    except Exception as e:   # TypeError unhashable, OverflowError array, ValueError, IndexError ...
        raise BadD(f"{type(e).__name__}: {e}")
    raise BadD("tag")


def _bad():
    raise BadD("range")


def valid(d):
    try:
        build(d)
        return True
    except (BadD, RecursionError):
        return False


# ---------------------------------------------------------------- object -> V (independent of rich)
def _leafd(obj, ms):
    r = s2t(repr(obj))
    if type(obj) in (str, bytes) or isinstance(obj, (str, bytes)):
        return [r, [len(obj), s2t(repr(obj[:ms])) if ms is not None else []]]
    return [r, []]


def to_v(obj, ms, ancestors=()):
    from array import array
    from collections import Counter, defaultdict, deque
    t = type(obj)
    seq = {list: 0, tuple: 1, set: 2, frozenset: 3, deque: 4, array: 5}
    mp = {dict: 0, Counter: 1, defaultdict: 2}
    if t in seq or t in mp:
        if id(obj) in ancestors:
            return [3]
        anc = ancestors + (id(obj),)
        if t in seq:
            attr = s2t(repr(obj.typecode)) if t is array else []
            return [1, seq[t], attr, [to_v(x, ms, anc) for x in obj]]
        attr = s2t(repr(obj.default_factory)) if t is defaultdict else []
        return [2, mp[t], attr, [[_leafd(k, ms), to_v(x, ms, anc)] for k, x in obj.items()]]
    return [0] + _leafd(obj, ms)


# ---------------------------------------------------------------- helper interpreter (PYTHONHASHSEED=0)
_helper = [None]
_cache = {}


def _ask(d, ms):
    key = json.dumps([d, ms])
    if key in _cache:
        return _cache[key]
    if _helper[0] is None or _helper[0].poll() is not None:
        env = dict(os.environ)
        env["PYTHONHASHSEED"] = "0"
        _helper[0] = subprocess.Popen([PY, "-X", "utf8", os.path.abspath(__file__), "--tov"], stdin=subprocess.PIPE,
                                      stdout=subprocess.PIPE, env=env, cwd="/")
    p = _helper[0]
    p.stdin.write((key + "\n").encode())
    p.stdin.flush()
    line = p.stdout.readline()
    v = json.loads(line) if line.strip() else None
    if len(_cache) > 50000:
        _cache.clear()
    _cache[key] = v
    return v


def _helper_main():
    sys.setrecursionlimit(3000)
    for line in sys.stdin:
        d, ms = json.loads(line)
        try:
            obj = build(d)
            out = {"v": to_v(obj, ms), "repr": s2t(repr(obj)) if _plain(d) else None}
        except (BadD, RecursionError):
            out = None
        sys.stdout.write(json.dumps(out) + "\n")
        sys.stdout.flush()


def _plain(d):
    """values for which the spec of Python's repr (SpecPretty.py_repr) is defined: list/tuple/dict/set/frozenset,
    array, defaultdict, non-empty deque (build() never sets maxlen), the empty Counter -- over leaves, no cycle,
    no shared object.  Mapping keys are leaf reprs in V whatever they are."""
    tag = d[0]
    if tag in (30, 31):
        return False
    if tag <= 5 or tag == 15:
        return True
    if tag in (10, 11, 12, 13):
        return all(_plain(x) for x in d[1])
    if tag == 14:
        return len(d[1]) > 0 and all(_plain(x) for x in d[1])
    if tag in (20, 22):
        return all(_plain(v) for _, v in d[-1])
    if tag == 21:
        return d[1] == []
    return False


# ---------------------------------------------------------------- the width table, read at generation time
_table = [None]


def width_table():
    """CELL_WIDTHS of the tree under check (parsed, rich is not imported); falls back to gen/CellWidthTable.v"""
    if _table[0] is None:
        import ast, re
        import common
        rows = None
        try:
            with open(os.path.join(common.REPO, "rich", "_cell_widths.py"), encoding="utf-8") as f:
                tree = ast.parse(f.read())
            for node in tree.body:
                if isinstance(node, ast.Assign) and any(getattr(t, "id", None) == "CELL_WIDTHS" for t in node.targets):
                    rows = [tuple(r) for r in ast.literal_eval(node.value)]
        except Exception:
            rows = None
        if not rows:
            with open(os.path.join(common.VERIF, "coq", "gen", "CellWidthTable.v")) as f:
                rows = [tuple(int(x.strip("() ")) for x in m) for m in
                        re.findall(r"\((\(?-?\d+\)?), (\(?-?\d+\)?), (\(?-?\d+\)?)\)", f.read())]
        _table[0] = sorted(rows)
    return _table[0]


def char_width(cp):
    """linear-scan reference of get_character_cell_size"""
    if 31 < cp < 127:
        return 1
    import bisect
    t = width_table()
    i = bisect.bisect_right(t, (cp, 0x7fffffff, 9)) - 1
    if i >= 0 and t[i][0] <= cp <= t[i][1]:
        return 0 if t[i][2] == -1 else t[i][2]
    return 1


def cellw(s):
    return sum(char_width(ord(c)) for c in s)


_bounds = [None]


def boundary_chars():
    """code points at the edges of the width-table ranges that repr() shows raw (printable):
    {'w2': [...], 'w0': [...]} -- first/last of each range, single-code-point ranges, and the
    neighbours just outside (true width 1 unless they start another range)"""
    if _bounds[0] is None:
        w2, w0, out = [], [], []
        for start, end, w in width_table():
            for cp in {start, end}:
                if 0xD800 <= cp <= 0xDFFF or cp > 0x10FFFF or not chr(cp).isprintable():
                    continue
                (w2 if w == 2 else w0).append(cp)
            for cp in (start - 1, end + 1):
                if 160 < cp <= 0x10FFFF and not (0xD800 <= cp <= 0xDFFF) and chr(cp).isprintable():
                    out.append(cp)
        _bounds[0] = {"w2": sorted(set(w2)), "w0": sorted(set(w0)), "out": sorted(set(out))}
    return _bounds[0]


def rboundary_str(rng, n=None):
    """a string made (mostly) of range-boundary characters of one kind"""
    b = boundary_chars()
    kind = rng.choice(["w2", "w2", "w2", "w0", "w0", "out"])
    pool = b[kind] or b["w2"] or [0x3042]
    few = [rng.choice(pool) for _ in range(rng.choice([1, 1, 2, 3]))]
    n = rng.choice([1, 2, 3, 4, 6, 9]) if n is None else n
    chars = [chr(rng.choice(few)) for _ in range(n)]
    if rng.random() < 0.3:
        chars.insert(rng.randint(0, len(chars)), rng.choice("ab x"))
    return "".join(chars)


# ---------------------------------------------------------------- generators
WIDE = "あ中\U0001f600Ａ"
def rleaf(rng, hashable_only=False):
    r = rng.random()
    if r < 0.3:
        return [0, rng.choice([0, 1, -1, 7, 42, 255, -300, 10 ** 6, 12345678901234567890, rng.randint(-999, 9999)])]
    if r < 0.36:
        return [1, s2t(rboundary_str(rng))]
    if r < 0.62:
        pools = ["abc xyz", "abc xyz", WIDE + "ab", "'\"\\", "\n\t\r", "é\x00\x7f​́", "[](){},: "]
        n = rng.choice([0, 1, 2, 3, 5, 8, 13, 30])
        pool = rng.choice(pools)
        allp = "".join(pools)
        return [1, s2t("".join(rng.choice(pool if rng.random() < 0.75 else allp) for _ in range(n)))]
    if r < 0.72:
        n = rng.choice([0, 1, 2, 4, 9])
        return [2, [rng.choice([0, 10, 39, 34, 92, 65, 97, 32, 127, 200, 255]) for _ in range(n)]]
    if r < 0.84:
        return [3, rng.randrange(len(FLOATS))]
    if r < 0.93:
        return [4, rng.randint(0, 1)]
    return [5]


def rhashable(rng, depth):
    if depth <= 0 or rng.random() < 0.75:
        return rleaf(rng)
    tag = rng.choice([11, 11, 13])
    return [tag, [rhashable(rng, depth - 1) for _ in range(rng.choice([0, 1, 1, 2, 3]))]]


def rsize(rng):
    return rng.choice([0, 0, 1, 1, 1, 2, 2, 3, 3, 4, 6, 9])


def rvalue(rng, depth, cyc_depth=0, cycles=False):
    """cyc_depth: number of enclosing containers (cycle targets must be list/deque/dict-like)"""
    if depth <= 0 or rng.random() < (0.18 if depth > 3 else 0.4):
        return rleaf(rng)
    r = rng.random()
    n = rsize(rng)
    if cycles and cyc_depth > 0 and r < 0.12:
        return [30, rng.randint(1, cyc_depth)]
    if cycles and r < 0.2:
        return [31, rng.randint(1, 3)]
    if r < 0.24:
        return [10, [rvalue(rng, depth - 1, cyc_depth + 1, cycles) for _ in range(n)]]
    if r < 0.46:
        return [11, [rvalue(rng, depth - 1, cyc_depth + 1, cycles) for _ in range(n)]]
    if r < 0.54:
        return [12, [rhashable(rng, depth - 1) for _ in range(n)]]
    if r < 0.60:
        return [13, [rhashable(rng, depth - 1) for _ in range(n)]]
    if r < 0.67:
        return [14, [rvalue(rng, depth - 1, cyc_depth + 1, cycles) for _ in range(n)]]
    if r < 0.74:
        tc = rng.randrange(len(TYPECODES))
        lo = 0 if TYPECODES[tc] in "BHILQ" else -100
        return [15, tc, [rng.randint(lo, 120) for _ in range(rng.choice([0, 0, 1, 2, 5, 12]))]]
    kvs = lambda: [[rhashable(rng, 2), rvalue(rng, depth - 1, cyc_depth + 1, cycles)] for _ in range(n)]
    if r < 0.88:
        return [20, kvs()]
    if r < 0.93:
        if rng.random() < 0.6:
            return [21, [[rhashable(rng, 1), [0, rng.randint(-2, 9)]] for _ in range(n)]]
        return [21, kvs()]
    return [22, rng.choice([0, 0, 0, 1, 2, 3]), kvs()]


def nested_single_tuples(rng):
    """the shapes the property names: one-element tuples around something that must expand, empties"""
    inner = rng.choice([
        [11, [[0, 1], [0, 2], [0, 3]]], [10, [[0, 1], [0, 2]]], [20, [[[1, s2t("k")], [0, 1]]]],
        [11, [[1, s2t("あ" * rng.randint(1, 6))]]], [15, rng.randrange(len(TYPECODES)), []],
        [15, 4, [1, 2, 3]], [12, []], [13, []], [14, []], [21, []], [22, 0, []], [22, 1, []], [11, []],
        [10, []], [20, []], rvalue(rng, 2)])
    v = inner
    for _ in range(rng.randint(1, 4)):
        c = rng.random()
        if c < 0.55:
            v = [11, [v]]
        elif c < 0.7:
            v = [10, [v] if rng.random() < 0.5 else [[0, 0], v]]
        elif c < 0.85:
            v = [20, [[[1, s2t("a")], v]]]
        else:
            v = [11, [v, [0, 9]] if rng.random() < 0.5 else [[0, 9], v]]
    return v


def approx_widths(obj, indent):
    """cell widths at which some sub-value's one-line form just fits / just does not (heuristic)"""
    out = set()

    def go(o, depth):
        try:
            r = repr(o)
        except Exception:
            return
        w, cw_true = len(r), cellw(r)
        if depth < 7:
            for k in (0, 1, 2):
                out.add(w + depth * indent + k - 1)
                out.add(cw_true + depth * indent + k - 1)
            lo, hi = min(w, cw_true), max(w, cw_true)      # a mis-measured character moves the break point
            if lo < hi:
                out.update(range(lo + depth * indent, min(hi, lo + 12) + depth * indent + 1))
            if isinstance(o, dict):
                for k, x in list(o.items())[:6]:
                    out.add(len(repr(k)) + 2 + len(repr(x)) + (depth + 1) * indent + 1)
                    go(x, depth + 1)
            elif isinstance(o, (list, tuple, set, frozenset)) or type(o).__name__ == "deque":
                for x in list(o)[:6]:
                    go(x, depth + 1)
    try:
        go(obj, 0)
    except RecursionError:
        pass
    return [w for w in out if 1 <= w <= 200]


def rparams(rng, d):
    indent = rng.choice([4, 4, 4, 2, 1, 0, 3, 8])
    try:
        obj = build(d)
        near = approx_widths(obj, indent)
    except (BadD, RecursionError):
        near = []
    r = rng.random()
    if near and r < 0.6:
        w = rng.choice(near)
    elif r < 0.75:
        w = rng.choice([1, 2, 3, 4, 5, 8, 10])
    elif r < 0.9:
        w = rng.randint(1, 200)
    else:
        w = rng.choice([80, 200, 120])
    ea = 1 if rng.random() < 0.15 else 0
    ml = [] if rng.random() < 0.7 else [rng.choice([0, 1, 1, 2, 3, 5])]
    ms = [] if rng.random() < 0.7 else [rng.choice([0, 1, 2, 4, 10])]
    return [w, indent, ea, ml, ms]


def boundary_case(rng):
    """a small container of strings built from width-table boundary characters, at a width between the
    cell width of its one-line form and the width a lookup that mis-measures those characters would see"""
    strs = [[1, s2t(rboundary_str(rng))] for _ in range(rng.choice([1, 1, 1, 2, 3]))]
    shape = rng.random()
    if shape < 0.4:
        d = [10, strs]
    elif shape < 0.6:
        d = [11, strs]
    elif shape < 0.8:
        d = [20, [[[1, s2t(rng.choice(["k", "", rboundary_str(rng, 2)]))], x] for x in strs]]
    else:
        d = [10, [[0, 1], [11, strs]]]
    indent = rng.choice([4, 2, 0, 1])
    try:
        line = repr(build(d))
    except (BadD, RecursionError):
        return None
    true_w = cellw(line)
    b = boundary_chars()
    special = set(b["w2"]) | set(b["w0"]) | set(b["out"])
    n_special = sum(1 for c in line if ord(c) in special)
    as_one = true_w - sum(char_width(ord(c)) - 1 for c in line if ord(c) in special)   # each counted as 1 cell
    lo, hi = min(true_w, as_one), max(true_w, as_one)
    w = max(1, rng.randint(lo - 1, hi + 1)) if n_special else max(1, true_w + rng.randint(-1, 1))
    if shape >= 0.8 and rng.random() < 0.7:      # aim at the inner line instead: "    (..)" + ","
        inner = repr(build([11, strs]))
        tw = cellw(inner) + indent
        ao = tw - sum(char_width(ord(c)) - 1 for c in inner if ord(c) in special)
        w = max(1, rng.randint(min(tw, ao) - 1, max(tw, ao) + 1))
    return ("pretty_repr", [d, min(w, 200), indent, 0, [], []])


def generate(rng, tier):
    k = 1 if tier == "quick" else 40
    cases = []
    for _ in range(800 * k):
        c = boundary_case(rng)
        if c:
            cases.append(c)
    for i in range(3000 * k):
        depth = rng.choice([1, 2, 2, 3, 3, 4, 5, 6])
        d = rvalue(rng, depth, 0, cycles=(i % 6 == 0))
        cases.append(("pretty_repr", [d] + rparams(rng, d)))
    for _ in range(700 * k):
        d = nested_single_tuples(rng)
        cases.append(("pretty_repr", [d] + rparams(rng, d)))
    # every width 1..W0+2 for a few values (the quantifier's "max_width 1..200", densely)
    for _ in range(6 * k):
        d = rvalue(rng, rng.choice([2, 3, 4]), 0) if rng.random() < 0.5 else nested_single_tuples(rng)
        indent = rng.choice([4, 2, 0])
        for w in range(1, 61 if tier == "quick" else 201):
            cases.append(("pretty_repr", [d, w, indent, 0, [], []]))
    for _ in range(300 * k):
        d = rvalue(rng, rng.choice([1, 2, 3, 4]), 0, cycles=rng.random() < 0.3)
        ml = [] if rng.random() < 0.5 else [rng.choice([0, 1, 2, 3])]
        ms = [] if rng.random() < 0.5 else [rng.choice([0, 1, 3])]
        cases.append(("node_str", [d, ml, ms]))
    return cases


# ---------------------------------------------------------------- implementation side
def _deep_eq(a, b):
    from array import array
    from collections import deque
    if type(a) is not type(b):
        return False
    if isinstance(a, (list, tuple, deque)):
        return len(a) == len(b) and all(_deep_eq(x, y) for x, y in zip(a, b))
    if isinstance(a, (set, frozenset)):
        return len(a) == len(b) and a == b and all(any(_deep_eq(x, y) for y in b) for x in a)
    if isinstance(a, dict):
        if len(a) != len(b) or a != b:
            return False
        if getattr(a, "default_factory", None) is not getattr(b, "default_factory", None):
            return False
        for k, x in a.items():
            ks = [k2 for k2 in b if _deep_eq(k, k2)]
            if not ks or not _deep_eq(x, b[ks[0]]):
                return False
        return True
    if isinstance(a, array):
        return a.typecode == b.typecode and a.tolist() == b.tolist()
    if isinstance(a, float):
        return a == b and str(a) == str(b)      # distinguishes -0.0
    return a == b


def _v_evaluable(v):
    if v[0] == 3:
        return False
    if v[0] == 1:
        return all(_v_evaluable(x) for x in v[3])
    if v[0] == 2:
        if v[1] == 2 and t2s(v[2]) != "None":
            return False
        return all(_v_evaluable(x) for _, x in v[3])
    return True


def impl(op, arg):
    import ast
    from array import array
    from collections import Counter, defaultdict, deque
    from rich.pretty import pretty_repr, traverse
    if op == "bad_input" or model_case_shape(op, arg) is None:
        return [[], -1]
    d = arg[0]
    try:
        obj = build(d)
    except (BadD, RecursionError):
        return [[], -1]
    if op == "node_str":
        _, ml, ms = arg
        return s2t(str(traverse(obj, max_length=ml[0] if ml else None, max_string=ms[0] if ms else None)))
    _, w, indent, ea, ml, ms = arg
    out = pretty_repr(obj, max_width=w, indent_size=indent, expand_all=bool(ea),
                      max_length=ml[0] if ml else None, max_string=ms[0] if ms else None)
    flag = 2
    v = to_v(obj, None)
    if not ml and not ms and _v_evaluable(v):
        ns = {"array": array, "deque": deque, "Counter": Counter, "defaultdict": defaultdict, "__builtins__": {
            "set": set, "frozenset": frozenset, "True": True, "False": False, "None": None}}
        try:
            back = eval(out, ns)
            flag = 1 if _deep_eq(obj, back) else 0
        except Exception:
            flag = 0
        try:    # where Python's own repr is a literal, the pretty text must be one too
            ast.literal_eval(repr(obj))
            lit_ok = True
        except Exception:
            lit_ok = False
        if flag == 1 and lit_ok:
            try:
                flag = 1 if _deep_eq(obj, ast.literal_eval(out)) else 0
            except Exception:
                flag = 0
    return [s2t(out), flag]


# ---------------------------------------------------------------- model-side argument mapping, spec checkers
def _optnat(x):
    return isinstance(x, list) and (x == [] or (len(x) == 1 and isinstance(x[0], int) and 0 <= x[0]))


def model_case_shape(op, arg):
    """well-formed argument (apart from D itself, which build() judges) -> (d, ms) else None"""
    if not isinstance(arg, list):
        return None
    if op == "node_str":
        if len(arg) != 3 or not (_optnat(arg[1]) and _optnat(arg[2])):
            return None
        return arg[0], (arg[2][0] if arg[2] else None)
    if op == "pretty_repr":
        if len(arg) != 6 or not all(isinstance(x, int) for x in arg[1:4]) or arg[3] not in (0, 1):
            return None
        if not (_optnat(arg[4]) and _optnat(arg[5])):
            return None
        return arg[0], (arg[5][0] if arg[5] else None)
    return None


def model_case(op, arg):
    sh = model_case_shape(op, arg)
    if sh is None:
        return "bad_input", []
    a = _ask(*sh)
    if a is None:
        return "bad_input", []
    if op == "node_str":
        return "node_str", [a["v"], arg[1], arg[2]]
    d, w, indent, ea, ml, ms = arg
    return "pretty_repr", [ASIS[0], a["v"], w, indent, ea, ml, ms]


def spec_cases(op, arg, out):
    if op != "pretty_repr" or isinstance(out, dict) or out[0] != 0 or out[1][1] == -1:
        return []
    sh = model_case_shape(op, arg)
    a = _ask(*sh) if sh is not None else None
    if a is None:
        return []
    d, w, indent, ea, ml, ms = arg
    v = a["v"]
    s, flag = out[1]
    cases = [("spec.canonical", [v, ml, ms, s]),
             ("spec.one_line", [v, w, ea, ml, ms, s]),
             ("spec.layout", [v, w, indent, ea, ml, ms, s]),
             ("spec.leaves_ok", v),
             ("spec.evalback", flag)]
    if a["repr"] is not None:
        cases.append(("spec.repr", [v, a["repr"]]))
    return cases


def describe(op, arg):
    try:
        obj = build(arg[0])
        return f"{op} {obj!r} {arg[1:]}"[:300]
    except Exception:
        return None


if __name__ == "__main__" and sys.argv[1:] == ["--tov"]:
    _helper_main()
