"""Tie 2: correspondence harness shared code (DESIGN section 5).

A *layer module* (tools/corr/l_<name>.py) defines
    OPS        : dict opname -> {"res": bool}           (res: model answers with ofRes)
    generate(rng, tier) -> list of (op, arg)            arg = nested lists of ints ("tree")
    impl(op, arg) -> tree                               runs rich; executed in a fresh interpreter
    spec_cases(op, arg, out) -> list of (specop, specarg)   optional; each must evaluate to 1
                                                         in the model driver (spec-level checker
                                                         applied to the IMPLEMENTATION's output)
    describe(op, arg) -> str                            optional, for samples
"""
import json, os, random, subprocess, sys, hashlib

VERIF = os.path.dirname(os.path.dirname(os.path.dirname(os.path.abspath(__file__))))
DRV = os.path.join(VERIF, "coq", "build", "drv")   # set by checklib to build/<pid>/drv
REPO = os.environ.get("VERIF_REPO", "/repo")
PY = "/venv/bin/python"
NPROC = 16
MODEL_TIMEOUT = 900   # seconds per driver process
IMPL_TIMEOUT = 900

DOC_ERRORS = {
    "ColorParseError": 1, "StyleSyntaxError": 2, "MarkupError": 3, "MissingStyle": 4,
    "ThemeStackError": 5, "NotRenderableError": 6,
}
CRASH_ERRORS = {
    "ValueError": 1, "ZeroDivisionError": 2, "IndexError": 3, "StopIteration": 4,
    "AssertionError": 5, "TypeError": 6, "KeyError": 7, "RecursionError": 8, "AttributeError": 9,
}


def s2t(s):
    """python str -> tree (list of code points)"""
    return [ord(c) for c in s]


def t2s(t):
    return "".join(chr(c) for c in t)


def dumps(t):
    return json.dumps(t, separators=(",", ":"))


def outcome_tree(result):
    """impl result record -> tree in the model's ofRes encoding"""
    if "ok" in result:
        return [0, result["ok"]]
    name = result["exc"]
    if name in DOC_ERRORS:
        return [1, DOC_ERRORS[name]]
    return [2, CRASH_ERRORS.get(name, 99)]


def _chunks(items, n):
    """round-robin split (heavy cases tend to be adjacent in generation order)"""
    n = max(1, min(n, len(items)))
    return [items[i::n] for i in range(n)]


def _unchunk(parts, total):
    n = len(parts)
    out = [None] * total
    for i, part in enumerate(parts):
        for j, x in enumerate(part):
            out[i + j * n] = x
    return out


def run_model(cases, nproc=NPROC):
    """cases: list of (op, arg) -> list of trees (or the string 'NOOP'/'ERR')"""
    if not cases:
        return []
    procs = []
    nproc = max(1, min(nproc, (sum(tree_size(a) for _, a in cases) + 3999) // 4000))
    for chunk in _chunks(cases, nproc):
        data = "".join(f"{op} {dumps(arg)}\n" for op, arg in chunk).encode()
        p = subprocess.Popen(["/bin/sh", "-c", "ulimit -s unlimited 2>/dev/null; exec " + DRV], stdin=subprocess.PIPE, stdout=subprocess.PIPE)
        procs.append((p, data, len(chunk)))
    # feed all, then collect (data sizes are moderate; use communicate per proc via threads)
    import threading
    outs = [None] * len(procs)

    def work(i):
        p, data, n = procs[i]
        try:
            out, _ = p.communicate(data, timeout=MODEL_TIMEOUT)
        except subprocess.TimeoutExpired:
            p.kill()
            out, _ = p.communicate()
        outs[i] = out.decode().split("\n")
    ths = [threading.Thread(target=work, args=(i,)) for i in range(len(procs))]
    for t in ths:
        t.start()
    for t in ths:
        t.join()
    parts = []
    for (p, data, n), lines in zip(procs, outs):
        lines = (lines + [""] * n)[:n]
        part = []
        for l in lines:
            if l in ("NOOP", "ERR", ""):
                part.append(l or "ERR")
            else:
                try:
                    part.append(json.loads(l))
                except Exception:
                    part.append("ERR")
        parts.append(part)
    return _unchunk(parts, len(cases))


def run_impl(layer, cases, nproc=NPROC, repo=None):
    """-> list of {"ok": tree} | {"exc": name, "msg": str}"""
    if not cases:
        return []
    repo = repo or REPO
    env = dict(os.environ)
    env["PYTHONPATH"] = repo
    env["PYTHONHASHSEED"] = "0"
    env.pop("RICH_VERIF", None)
    env["COLUMNS"] = "80"
    env["LINES"] = "25"
    env.pop("NO_COLOR", None)
    env["TERM"] = "xterm-256color"
    procs = []
    nproc = max(1, min(nproc, (len(cases) + 39) // 40))
    runner = os.path.join(VERIF, "tools", "corr", "impl_runner.py")
    for chunk in _chunks(cases, nproc):
        data = "".join(json.dumps([op, arg]) + "\n" for op, arg in chunk).encode()
        p = subprocess.Popen([PY, "-X", "utf8", runner, layer], stdin=subprocess.PIPE, stdout=subprocess.PIPE,
                             stderr=subprocess.PIPE, env=env, cwd="/")
        procs.append((p, data, len(chunk)))
    import threading
    outs = [None] * len(procs)
    errs = [None] * len(procs)

    def work(i):
        p, data, n = procs[i]
        try:
            out, err = p.communicate(data, timeout=IMPL_TIMEOUT)
        except subprocess.TimeoutExpired:
            p.kill()
            out, err = p.communicate()
            err += b"\nTIMEOUT"
        outs[i] = out.decode().split("\n")
        errs[i] = err.decode(errors="replace")
    ths = [threading.Thread(target=work, args=(i,)) for i in range(len(procs))]
    for t in ths:
        t.start()
    for t in ths:
        t.join()
    parts = []
    for (p, data, n), lines, err in zip(procs, outs, errs):
        got = [l for l in lines if l.startswith("@@")]
        part = [json.loads(l[2:]) for l in got[:n]]
        for _ in range(n - len(part)):
            part.append({"exc": "RunnerDied", "msg": err[-400:]})
        parts.append(part)
    return _unchunk(parts, len(cases))


def load_layer(name):
    sys.path.insert(0, os.path.join(VERIF, "tools", "corr"))
    return __import__("l_" + name)


def case_key(op, arg):
    return hashlib.sha1((op + dumps(arg)).encode()).hexdigest()


class CorrResult:
    def __init__(self):
        self.cases = 0
        self.distinct = 0
        self.by_op = {}
        self.disagreements = []   # dict(op,arg,model,impl)
        self.spec_failures = []   # dict(op,arg,specop,specarg,impl)
        self.spec_checked = 0
        self.samples = []
        self.impl_errors = {}
        self.size_hist = {}


def tree_size(t):
    if isinstance(t, int):
        return 1
    return 1 + sum(tree_size(x) for x in t)


def compare(layer_name, cases, repo=None, want_spec=True):
    """run model and implementation on the same cases, compare, run spec checkers on impl output"""
    layer = load_layer(layer_name)
    res = CorrResult()
    seen = set()
    uniq = []
    for op, arg in cases:
        k = case_key(op, arg)
        if k in seen:
            continue
        seen.add(k)
        uniq.append((op, arg))
    res.cases = len(cases)
    res.distinct = len(uniq)
    mc = getattr(layer, 'model_case', None)
    model_out = run_model([mc(op, arg) for op, arg in uniq] if mc else uniq)
    impl_out = run_impl(layer_name, uniq, repo=repo)
    spec_queue = []
    for (op, arg), m, r in zip(uniq, model_out, impl_out):
        res.by_op[op] = res.by_op.get(op, 0) + 1
        b = min(tree_size(arg).bit_length(), 12)
        res.size_hist[b] = res.size_hist.get(b, 0) + 1
        info = layer.OPS.get(op, {})
        if "exc" in r:
            res.impl_errors[r["exc"]] = res.impl_errors.get(r["exc"], 0) + 1
        if info.get("res"):
            it = outcome_tree(r)
        else:
            it = r["ok"] if "ok" in r else {"exc": r["exc"], "msg": r.get("msg", "")}
        if not info.get("spec_only") and m != it:
            res.disagreements.append({"layer": layer_name, "op": op, "arg": arg, "model": m, "impl": it})
        if want_spec and hasattr(layer, "spec_cases"):
            for sop, sarg in layer.spec_cases(op, arg, it):
                spec_queue.append(((op, arg, it), (sop, sarg)))
    if spec_queue:
        outs = run_model([s for _, s in spec_queue])
        res.spec_checked = len(spec_queue)
        for ((op, arg, it), (sop, sarg)), o in zip(spec_queue, outs):
            if o != 1:
                res.spec_failures.append({"layer": layer_name, "op": op, "arg": arg, "specop": sop,
                                          "specarg": sarg, "impl": it, "checker_says": o})
    for op, arg in uniq[:2] + uniq[len(uniq) // 2: len(uniq) // 2 + 1]:
        d = layer.describe(op, arg) if hasattr(layer, "describe") else None
        res.samples.append({"op": op, "arg": arg if tree_size(arg) < 200 else "(large)", "readable": d})
    return res


# ---------------------------------------------------------------- shrinking

def shrink_candidates(t):
    """one-step smaller variants of a tree"""
    if isinstance(t, int):
        if t != 0:
            yield 0
            if abs(t) > 1:
                yield t // 2
            if t > 0:
                yield t - 1
        return
    n = len(t)
    if n > 1:
        yield t[: n // 2]
        yield t[n // 2:]
    for i in range(n):
        yield t[:i] + t[i + 1:]
    for i in range(n):
        for c in shrink_candidates(t[i]):
            yield t[:i] + [c] + t[i + 1:]


def shrink(layer_name, op, arg, still_fails, max_rounds=40, max_cands=400):
    """greedy delta debugging; still_fails(list of args) -> list of bool"""
    cur = arg
    for _ in range(max_rounds):
        cands = []
        seen = set()
        for c in shrink_candidates(cur):
            k = dumps(c)
            if k in seen:
                continue
            seen.add(k)
            cands.append(c)
            if len(cands) >= max_cands:
                break
        if not cands:
            break
        flags = still_fails(cands)
        nxt = None
        for c, f in zip(cands, flags):
            if f:
                nxt = c
                break
        if nxt is None:
            break
        cur = nxt
    return cur
