"""Runs inside a fresh /venv/bin/python with PYTHONPATH=<repo>: reads [op, arg] JSON lines,
calls the layer's impl(), prints '@@'+JSON result lines ({"ok": tree} | {"exc": name, "msg": ..})."""
import json, os, sys

HERE = os.path.dirname(os.path.abspath(__file__))
sys.path.insert(0, HERE)
real_stdout = sys.__stdout__


def main():
    layer = __import__("l_" + sys.argv[1])
    sys.setrecursionlimit(3000)
    out = real_stdout
    for line in sys.stdin:
        line = line.strip()
        if not line:
            continue
        op, arg = json.loads(line)
        try:
            r = {"ok": layer.impl(op, arg)}
        except BaseException as e:  # noqa
            if isinstance(e, (KeyboardInterrupt, SystemExit)):
                raise
            r = {"exc": type(e).__name__, "msg": str(e)[:200]}
        out.write("@@" + json.dumps(r) + "\n")
    out.flush()


if __name__ == "__main__":
    main()
