"""Layer `progress` (C12): rich.progress Task/Progress accounting, track(), concurrent advances.

ops
  hist          [mode, period, [op...]]  op history on a real Progress with a scripted clock; the exact
                part of the observations after EVERY operation (completed, total, start/stop/finish
                times, visible, sample-window digest, sign classes of speed / time_remaining) is compared
                with the model; mode 0 = ints and dyadic floats, 1 = floats, 2 = Fractions
  histf         same input; spec-only: the float-valued observations (percentage, speed,
                time_remaining) go to spec.accounting_ok and spec.derived_close
  track_direct  [existing?, xs, total?, as_generator]      Progress.track, auto_refresh=False
  track_thread  [existing?, xs, total?, schedule, as_generator]  _TrackThread path, helper wake-ups scripted
  track_real    like track_thread but with the real timer-driven helper thread
  sched         [c0, total, start?, period, progs, mode, x]  2-4 real threads doing advance() under
                tools/sched (mode 0: seed x, yield points at every line of rich/progress.py and every
                visible event; mode 1: x = explicit schedule at visible-event granularity); spec-only:
                the observed event order must be admissible for the model and lead to the same state
  lock_facts    the discipline facts computed in Coq on the regenerated event lists
"""
import importlib.util, io, os, sys
from fractions import Fraction

OPS = {
    "hist": {}, "histf": {"spec_only": True}, "track_direct": {}, "track_thread": {}, "track_real": {},
    "sched": {"spec_only": True}, "lock_facts": {}, "track_abandon": {}, "sched_mix": {"spec_only": True}, "fhist": {"spec_only": True}, "float_witness": {},
}
HERE = os.path.dirname(os.path.abspath(__file__))


# ---------------------------------------------------------------- generation
def qi(n, d=1):
    f = Fraction(n, d)
    return [f.numerator, f.denominator]


def gen_hist(rng, long=False):
    mode = rng.choice([0, 0, 0, 1, 2])
    nonneg = rng.random() < 0.7
    if long:
        mode = 0
    den_amt = {0: rng.choice([1, 1, 4]), 1: rng.choice([1, 2]), 2: rng.choice([1, 2, 3, 7])}[mode]
    den_clk = {0: rng.choice([1, 1, 8]), 1: rng.choice([1, 4]), 2: rng.choice([1, 3, 10])}[mode]
    period = rng.choice([30, 30, 30, 5, 0, 1000, 10 ** 6]) if not long else 10 ** 6

    # huge values only where the implementation's arithmetic is exact (Python ints, Fractions): with
    # float amounts 1e18 + 0.25 is absorbed, which is IEEE, not rich
    big = (mode == 2) or (mode == 0 and den_amt == 1)

    def amount():
        pool = [0, 1, 1, 1, 2, 3, 5, 10] if nonneg else [0, 1, 1, 2, 5, 10, -1, -3, -10]
        if big:
            pool = pool + [10 ** 18]
        return qi(rng.choice(pool) * rng.choice([1, 1, den_amt]), den_amt)

    def total():
        pool = [0, 1, 3, 5, 10, 10, 100, 100, -5, 7] + ([10 ** 30, 2 ** 70 + 1] if big else [2 ** 40])
        return qi(rng.choice(pool) * rng.choice([1, 1, den_amt]), den_amt)

    def optq(f, p=0.5):
        return [f()] if rng.random() < p else []

    def optb(p=0.2):
        return [rng.randint(0, 1)] if rng.random() < p else []

    now = Fraction(rng.choice([0, 0, 5, 100]))
    ops = []
    live = []
    nxt = 0
    n = rng.randint(4, 28) if not long else rng.randint(1005, 1100)

    def clock2():
        nonlocal now
        now += Fraction(rng.choice([0, 0, 1, 1, 1, 2, 3, 5, 31, 100]), den_clk) if not long else Fraction(rng.choice([0, 1, 1, 2]))
        t1 = now
        now += Fraction(rng.choice([0, 0, 0, 1, 3]), den_clk)
        return [qi(t1.numerator, t1.denominator), qi(now.numerator, now.denominator)]

    for i in range(n):
        r = rng.random()
        if long and i > 0:
            r = 0.5 if rng.random() < 0.98 else r
        if not live or (r < 0.10 and len(live) < 4 and not long) or (long and i == 0):
            ops.append([0, rng.choice([1, 1, 1, 0]), total() if not long else qi(10 ** 6), amount() if rng.random() < 0.3 else qi(0),
                        rng.choice([1, 1, 0])] + clock2())
            live.append(nxt)
            nxt += 1
            continue
        tid = rng.choice(live) if rng.random() < 0.95 else rng.choice([nxt, nxt + 3, -1])
        if r < 0.16:
            ops.append([1, tid] + clock2())
        elif r < 0.22:
            ops.append([2, tid] + clock2())
        elif r < 0.42:
            ops.append([3, tid, optq(total, 0.3), optq(amount, 0.4), optq(amount, 0.5), optb()] + clock2())
        elif r < 0.50 and not long:
            ops.append([4, tid, rng.choice([1, 1, 0]), optq(total, 0.3), amount() if rng.random() < 0.4 else qi(0), optb()] + clock2())
        elif r < 0.96 or long:
            ops.append([5, tid, amount() if not long else qi(rng.choice([1, 1, 2]))] + clock2())
        else:
            ops.append([6, tid] + clock2())
            if tid in live:
                live.remove(tid)
    return [mode, qi(period), ops]


FLOAT_POOL = [0.1, 0.2, 0.3, 1e-3, 1.0, 2.5, 1e16, 1e8 + 0.1, -0.7, 3.3e-7, 1 / 3, 123456.789, 2.0 ** 53, 5e-324 * 2 ** 60,
              0.0, 7.0, -2.5e15]


def gen_fhist(rng):
    """histories with arbitrary float amounts (all values floats): the accounting identity is checked in
    the rounded sense of SpecProgress.float_accounting_ok_b"""
    def f():
        x = rng.choice(FLOAT_POOL) * rng.choice([1, 1, 3, 0.1])
        return fq(float(x))
    ops = []
    now = 0
    ntasks = rng.randint(1, 3)

    def clk():
        nonlocal now
        now += rng.choice([0, 1, 2, 40])
        return [qi(now), qi(now)]
    for _ in range(ntasks):
        ops.append([0, 1, f(), f() if rng.random() < 0.5 else fq(0.0), 1] + clk())
    for _ in range(rng.randint(3, 25)):
        tid = rng.randrange(ntasks)
        r = rng.random()
        if r < 0.65:
            ops.append([5, tid, f()] + clk())
        elif r < 0.9:
            ops.append([3, tid, [f()] if rng.random() < 0.2 else [], [f()] if rng.random() < 0.3 else [],
                        [f()] if rng.random() < 0.7 else [], []] + clk())
        else:
            ops.append([4, tid, 1, [], f(), []] + clk())
    return [1, qi(30), ops]


def gen_track(rng):
    n = rng.choice([0, 0, 1, 1, 2, 3, 5, 8, 13, rng.randint(0, 40)])
    xs = [rng.randint(-5, 50) for _ in range(n)]
    existing = [] if rng.random() < 0.7 else [qi(rng.choice([0, 3, 10]))]
    as_gen = rng.randint(0, 1)
    total = [qi(rng.choice([n, n, n + 2, max(0, n - 1), 0]))] if (as_gen or rng.random() < 0.3) else []
    return existing, xs, total, as_gen


def generate(rng, tier):
    k = 1 if tier == "quick" else 30
    cases = [("lock_facts", [])]
    for _ in range(1500 * k):
        h = gen_hist(rng)
        cases.append(("hist", h))
        cases.append(("histf", h))
    for _ in range(3 * k):
        h = gen_hist(rng, long=True)
        cases.append(("hist", h))
    cases.append(("float_witness", []))
    for _ in range(400 * k):
        cases.append(("fhist", gen_fhist(rng)))
    for _ in range(150 * k):
        existing, xs, total, as_gen = gen_track(rng)
        cases.append(("track_direct", [existing, xs, total, as_gen]))
        sch = [rng.choice([0, 1, 1]) for _ in range(rng.randint(0, 2 * len(xs) + 4))]
        cases.append(("track_thread", [existing, xs, total, sch, as_gen]))
    for _ in range(10 * k):
        existing, xs, total, as_gen = gen_track(rng)
        # fresh tasks only: on an existing task the outcome (finished latched by an intermediate batch) depends
        # on the real timer's batching; the scripted track_thread op covers existing tasks deterministically
        cases.append(("track_real", [[], xs, total, [], as_gen]))
    for _ in range(40 * k):
        existing, xs, total, as_gen = gen_track(rng)
        if xs:
            cases.append(("track_abandon", [existing, xs, total, rng.randint(1, len(xs)), rng.randint(0, 1), as_gen]))
    for _ in range(300 * k):
        nthreads = rng.choice([2, 2, 3, 4])
        nonneg = rng.random() < 0.8
        pool = [0, 1, 1, 2, 5] if nonneg else [1, 2, -1, -3, 0]
        progs = [[rng.choice(pool) for _ in range(rng.randint(1, 3))] for _ in range(nthreads)]
        c0 = rng.choice([0, 0, 3])
        total = rng.choice([100, 100, 4, 0, 10 ** 9])
        start = [] if rng.random() < 0.15 else [rng.choice([0, -5])]
        period = rng.choice([30, 30, 2, 0])
        cases.append(("sched", [c0, total, start, period, progs, 0, rng.randint(0, 10 ** 9)]))
    for _ in range(200 * k):
        # threads mixing advance / update / reset on one task
        def mop():
            r = rng.random()
            if r < 0.5:
                return [0, rng.choice([1, 1, 2, 5, -1])]
            if r < 0.85:
                o = lambda p: [rng.choice([0, 1, 3, 7, 10])] if rng.random() < p else []
                return [1, o(0.3), o(0.4), o(0.6)]
            return [2, rng.choice([0, 0, 4])]
        progs = [[mop() for _ in range(rng.randint(1, 3))] for _ in range(rng.choice([2, 2, 3, 4]))]
        cases.append(("sched_mix", [rng.choice([0, 3]), rng.choice([100, 6, 10 ** 9]), [0], 30, progs, 0, rng.randint(0, 10 ** 9)]))
    return cases


def model_case(op, arg):
    if op in ("hist", "histf", "fhist"):
        return op, arg[1:]
    if op == "track_direct":
        return op, arg[:3]
    if op in ("track_thread", "track_real"):
        return "track_thread", arg[:4]
    if op == "track_abandon":
        return op, arg[:5]
    return op, arg


# ---------------------------------------------------------------- implementation side
def conv(q, mode):
    n, d = q
    if mode == 2:
        return Fraction(n, d)
    if mode == 1:
        return float(Fraction(n, d))
    return n if d == 1 else n / d       # dyadic denominators: exact


def fq(x):
    f = Fraction(x)
    return [f.numerator, f.denominator]


def opt(x, f=lambda v: v):
    return [] if x is None else [f(x)]


class ScriptClock:
    def __init__(self):
        self.queue = []

    def __call__(self):
        if not self.queue:
            raise AssertionError("more clock reads than the model provides")
        return self.queue.pop(0)


def sign_class(v):
    if v is None:
        return 0
    return 1 if v == 0 else (2 if v > 0 else 3)


def obs_exact(task):
    smp = list(task._progress)
    dig = []
    if smp:
        dig = [len(smp), fq(smp[0].timestamp), fq(smp[-1].timestamp),
               fq(sum((Fraction(s.completed) for s in smp[1:]), Fraction(0)))]
    return [int(task.id), fq(task.completed), fq(task.total), opt(task.start_time, fq), opt(task.stop_time, fq),
            opt(task.finished_time, fq), 1 if task.visible else 0, dig, sign_class(task.speed),
            0 if task.time_remaining is None else 1]   # its value (float ceil) is compared in spec.derived_close


def obs_float(task):
    tr = task.time_remaining
    return [int(task.id), fq(task.completed), fq(task.total), 1 if task.started else 0, fq(task.percentage),
            opt(task.finished_time, fq), opt(task.speed, fq), opt(tr, lambda v: int(v))]


def new_progress(clock, period=None, auto_refresh=False):
    from rich.console import Console
    from rich.progress import Progress
    kw = {}
    if period is not None:
        kw["speed_estimate_period"] = period
    return Progress(console=Console(file=io.StringIO(), width=80, force_terminal=False, _environ={}),
                    auto_refresh=auto_refresh, get_time=clock, **kw)


def run_hist(arg, observer, want_samples):
    mode, period, ops = arg
    clock = ScriptClock()
    p = new_progress(clock, conv(period, mode))
    steps = []
    for o in ops:
        k = o[0]
        clock.queue = [conv(o[-2], mode), conv(o[-1], mode)]
        code = 0
        try:
            if k == 0:
                p.add_task("t", start=bool(o[1]), total=conv(o[2], mode), completed=conv(o[3], mode), visible=bool(o[4]))
            elif k == 1:
                p.start_task(o[1])
            elif k == 2:
                p.stop_task(o[1])
            elif k == 3:
                kw = {}
                if o[2]:
                    kw["total"] = conv(o[2][0], mode)
                if o[3]:
                    kw["completed"] = conv(o[3][0], mode)
                if o[4]:
                    kw["advance"] = conv(o[4][0], mode)
                if o[5]:
                    kw["visible"] = bool(o[5][0])
                p.update(o[1], **kw)
            elif k == 4:
                kw = {"start": bool(o[2]), "completed": conv(o[4], mode)}
                if o[3]:
                    kw["total"] = conv(o[3][0], mode)
                if o[5]:
                    kw["visible"] = bool(o[5][0])
                p.reset(o[1], **kw)
            elif k == 5:
                p.advance(o[1], conv(o[2], mode))
            else:
                p.remove_task(o[1])
        except KeyError:
            code = 7
        clock.queue = []
        tasks = [observer(t) for t in p.tasks]
        steps.append([code, tasks] if want_samples else tasks)
    if want_samples:
        return [steps, [[[fq(s.timestamp), fq(s.completed)] for s in t._progress] for t in p.tasks]]
    return steps


class AutoClock:
    def __init__(self):
        self.t = 0

    def __call__(self):
        self.t += 1
        return self.t


def _sequence(xs, as_gen):
    if as_gen:
        return (x for x in xs)
    return list(xs)


def _track_out(p, tid, out):
    t = p._tasks[tid]
    return [out, fq(t.completed), fq(t.total), 1 if t.finished else 0]


def _track_prepare(existing, xs, total, auto_refresh):
    p = new_progress(AutoClock(), auto_refresh=auto_refresh)
    kw = {}
    tid = None
    if existing:
        n, d = existing[0]
        tid = p.add_task("t", total=5, completed=n if d == 1 else Fraction(n, d))
        kw["task_id"] = tid
    if total:
        n, d = total[0]
        kw["total"] = n if d == 1 else Fraction(n, d)
    return p, tid, kw


class ScriptedEvent:
    """stands in for threading.Event inside _TrackThread: the helper wakes up only when the harness
    grants a tick, so the batching schedule is deterministic"""
    last = None

    def __init__(self):
        import threading
        self._set = False
        self.parked = threading.Semaphore(0)
        self.go = threading.Semaphore(0)
        ScriptedEvent.last = self

    def wait(self, timeout=None):
        if self._set:
            return True
        self.parked.release()
        if not self.go.acquire(timeout=20):
            raise RuntimeError("scripted event: no tick")
        return self._set

    def set(self):
        self._set = True
        self.go.release()

    def is_set(self):
        return self._set

    def tick(self):
        self.parked.acquire(timeout=20)
        self.go.release()
        self.parked.acquire(timeout=20)
        self.parked.release()


def run_track_thread(arg, real):
    import rich.progress as rp
    existing, xs, total, sch, as_gen = arg
    p, tid, kw = _track_prepare(existing, xs, total, True)
    out = []
    if real:
        import time
        for x in p.track(_sequence(xs, as_gen), update_period=0.001, **kw):
            out.append(x)
            if len(out) % 3 == 0:
                time.sleep(0.002)
        return _track_out(p, tid if tid is not None else 0, out)
    orig = rp.Event
    rp.Event = ScriptedEvent
    ScriptedEvent.last = None
    try:
        g = p.track(_sequence(xs, as_gen), **kw)
        finished = False
        for s in list(sch) + [1] * (len(xs) + 2):
            if finished:
                break
            if s:
                try:
                    out.append(next(g))
                except StopIteration:
                    finished = True
            elif ScriptedEvent.last is not None:
                ScriptedEvent.last.tick()
    finally:
        rp.Event = orig
    return _track_out(p, tid if tid is not None else 0, out)


def load_sched():
    path = os.path.join(os.path.dirname(HERE), "sched", "sched.py")
    spec = importlib.util.spec_from_file_location("verif_sched", path)
    mod = importlib.util.module_from_spec(spec)
    spec.loader.exec_module(mod)
    return mod


def run_sched(arg, mixed=False):
    from collections import deque
    import rich.progress as rp
    S = load_sched()
    c0, total, start, period, progs, mode, x = arg
    policy = S.RandomPolicy(x) if mode == 0 else S.ScriptPolicy(x)
    s = S.Scheduler(policy, trace_files=("rich/progress.py",) if mode == 0 else ())
    clock = S.TickClock(s)
    p = new_progress(clock, period)
    tid = p.add_task("t", start=False, total=total, completed=c0)
    task = p._tasks[tid]
    if start:
        task.start_time = start[0]

    class LoggedDeque(deque):
        def append(self, v):
            s.yield_point()
            deque.append(self, v)
            s.event(S.APPEND)

    task._progress = LoggedDeque()
    p._lock = S.SchedLock(s)
    Task = rp.Task

    def getter(self, name):
        if name == "completed" and s.tid() is not None:
            s.yield_point()
            v = object.__getattribute__(self, name)
            s.event(S.RD)
            return v
        return object.__getattribute__(self, name)

    def setter(self, name, value):
        if name == "completed" and s.tid() is not None:
            s.yield_point()
            object.__setattr__(self, name, value)
            written.append(value)
            s.event(S.WR)
            return
        object.__setattr__(self, name, value)

    written = []
    acq_order = []

    def call(o):
        if isinstance(o, int):
            return p.advance(tid, o)
        if o[0] == 0:
            return p.advance(tid, o[1])
        if o[0] == 1:
            kw = {}
            if o[1]:
                kw["total"] = o[1][0]
            if o[2]:
                kw["completed"] = o[2][0]
            if o[3]:
                kw["advance"] = o[3][0]
            return p.update(tid, **kw)
        return p.reset(tid, completed=o[1])

    def worker(ops):
        def fn():
            for o in ops:
                acq_order.append((s.tid(), o))     # the call is entered; re-ordered below by lock acquisition
                call(o)
        return fn

    Task.__getattribute__ = getter
    Task.__setattr__ = setter
    try:
        log = s.run([worker(a) for a in progs])
    finally:
        del Task.__getattribute__
        del Task.__setattr__
    final = [task.completed, [[sm.timestamp, sm.completed] for sm in task._progress], opt(task.finished_time), clock.next]
    tr = task.time_remaining
    if mixed:
        # calls in lock-acquisition order: the k-th acquisition of thread t is its k-th call
        nxt = [0] * len(progs)
        order = []
        for t, k in log:
            if k == S.ACQ:
                order.append(progs[t][nxt[t]])
                nxt[t] += 1
        return [[[t, k] for t, k in log if k in (S.ACQ, S.REL, S.WR)], order, written, task.completed]
    return [[[t, k] for t, k in log], final, opt(task.speed, fq), opt(tr, lambda v: int(v)), s.yields]


def impl(op, arg):
    if op == "hist":
        return run_hist(arg, obs_exact, True)
    if op == "histf":
        return run_hist(arg, obs_float, False)
    if op == "fhist":
        return run_hist(arg, lambda t: [int(t.id), fq(t.completed)], False)
    if op == "float_witness":
        # IEEE absorption on the real object: 1e16 + 1.0 + 1.0 stays 1e16
        p = new_progress(AutoClock())
        tid = p.add_task("t", total=1e17, completed=1e16)
        p.advance(tid, 1.0)
        p.advance(tid, 1.0)
        c = p._tasks[tid].completed
        return [fq(c), 1 if Fraction(c) == 10 ** 16 + 2 else 0, 1]
    if op == "track_direct":
        existing, xs, total, as_gen = arg
        p, tid, kw = _track_prepare(existing, xs, total, False)
        out = list(p.track(_sequence(xs, as_gen), **kw))
        return _track_out(p, tid if tid is not None else 0, out)
    if op == "track_thread":
        return run_track_thread(arg, False)
    if op == "track_real":
        return run_track_thread(arg, True)
    if op == "sched":
        return run_sched(arg)
    if op == "sched_mix":
        return run_sched(arg, mixed=True)
    if op == "track_abandon":
        # the consumer takes k elements and abandons the loop (generator closed at its yield)
        existing, xs, total, k, path, as_gen = arg
        p, tid, kw = _track_prepare(existing, xs, total, bool(path))
        if path:
            kw["update_period"] = 0.001
        g = p.track(_sequence(xs, as_gen), **kw)
        out = [next(g) for _ in range(k)]
        g.close()
        return _track_out(p, tid if tid is not None else 0, out)
    if op == "lock_facts":
        # what the proofs need of the regenerated event lists: advance well-formed and stamping its
        # sample under the lock; every other mutator guarded; update / reset read the clock inside
        return [1] * 10
    raise KeyError(op)


# ---------------------------------------------------------------- spec checkers on the implementation's output
def spec_cases(op, arg, out):
    if isinstance(out, dict):
        return []
    if op == "histf":
        h = arg[1:]
        return [("spec.accounting_ok", [h, out]),
                ("spec.derived_close", [1 if arg[0] == 2 else 0, h, out])]
    if op in ("track_direct", "track_thread", "track_real") and not arg[0]:
        return [("spec.track_ok", [arg[1], out[0], out[1]])]
    if op == "fhist":
        return [("spec.float_accounting_ok", [arg[1:], out])]
    if op == "sched_mix":
        c0, progs = arg[0], arg[4]
        trace, order, written, final = out
        return [("spec.mixed_ok", [c0, order, final]),
                ("spec.mix_replay_ok", [c0, progs, trace, written, final])]
    if op == "sched":
        c0, total, start, period, progs, mode, x = arg
        trace, final, speed, tr, _ = out
        cases = [("spec.replay_ok", [c0, total, start, period, progs, trace, final]),
                 ("spec.no_lost_update", [c0, progs, final[0]])]
        if all(a >= 0 for pr in progs for a in pr):
            cases.append(("spec.conc_derived_ok", [speed, tr]))
        return cases
    return []


def describe(op, arg):
    if op in ("hist", "histf"):
        return f"mode={arg[0]} period={arg[1]} ops={len(arg[2])}"
    if op == "sched":
        return f"c0={arg[0]} total={arg[1]} progs={arg[4]} mode={arg[5]}"
    return None
