"""Layer markup (C04): rich.markup -- RE_TAGS / escape scanners, escape(), render().

Model-side ops take a leading `asis` flag (prepended by model_case): 0 = the repaired span order
(fixes/C04_span_order.diff: Text.spans in opening order), 1 = rich 9.10.0 as found (sorted(spans)).

Oracles: Style.normalize is passed to the model as a finite table computed BY THE IMPLEMENTATION
(op normalize_many, run once per generation) for every tag name that can occur in the case;
emoji=True is only used on markup without ':' (where _emoji_replace must be the identity)."""
import itertools
import common
from common import s2t, t2s

OPS = {
    "scan_tags": {}, "scan_escape": {}, "escape": {}, "flatten": {},
    "render": {"res": True}, "render_escaped": {"res": True},
    "render_doc": {"res": True}, "render_doc_any": {"res": True},
    "effective_doc": {"res": True},
    "ex_range": {}, "isspace_range": {}, "norm_range": {},
    "normalize_many": {"spec_only": True},
}

ASIS = [0]
ALPHA12 = "[]\\/=#a1 \n:b"
WIDE = "あ中\U0001f600"
ZERO = "́​"
CTRL = "\r\b\x0b\x0c\t\x07\x1b"
UWS = "\xa0  \x1c\x85"


def nth_string(length, idx):
    out = []
    for _ in range(length):
        out.append(ALPHA12[idx % 12])
        idx //= 12
    return "".join(out)


# ------------------------------------------------------------------ documents
# item encodings: [0, name, [params]?] open | [1, name] close | [2] close-top | [3, text] literal
def py_flatten(doc, escape):
    out = []
    for it in doc:
        k = it[0]
        if k == 0:
            out.append("[" + t2s(it[1]) + ("=" + t2s(it[2][0]) if it[2] else "") + "]")
        elif k == 1:
            out.append("[/" + t2s(it[1]) + "]")
        elif k == 2:
            out.append("[/]")
        else:
            out.append(escape(t2s(it[1])))
    return "".join(out)


def lit_ok(s):
    if s.endswith("\\"):
        return False
    last_rb = s.rfind("]")
    return "[" not in s[last_rb + 1:]


def repair_lit(s, rng):
    """smallest edit that makes s meet the property's side conditions"""
    if not lit_ok(s) and "[" in s[s.rfind("]") + 1:]:
        s += rng.choice(["]", "x]", "\n]"])
    if s.endswith("\\"):
        s += rng.choice(["x", " ", "]", "\n"])
    return s


# names by normalisation class; spellings of one class close each other
CLASSES = [
    ["bold", "b", "Bold", "BOLD", "bold  "], ["red", "RED", "Red"], ["blue", "Blue"], ["green"],
    ["italic", "i"], ["underline", "u"], ["bold red", "red bold", "b red"], ["on blue", "ON BLUE"],
    ["not bold"], ["#ff0000", "#FF0000"], ["a"], ["a1"], ["#"], ["x[y"], ["r\\"], ["it:s"], ["a b"],
    ["b b"], ["zz\\\\"], ["color(5)", "COLOR(5)"], ["rgb(1,2,3)"], ["link"], ["bold not"], ["none"],
]
COLOR_CLASSES = [["red", "RED", "Red"], ["blue", "Blue"], ["green"], ["yellow"], ["magenta"]]
PARAMS = ["http://x.y/?a=b", "", "1", "a b", "x[y", "\\", "=", ":1:"]
FRAGS = ["[", "]", "\\", "\\\\", "[/]", "[/", "[bold]", "[/bold]", "[red", "a", " ", "\n", "=", "#", ":", "[b=1]",
         "[/b]", "[b]", "1", "[#]", "[/#]", "b", "/", "[[", "]]", "[a\n]", "\\[", "[/ ]", "[/ b ]", "[a=", "x", "[Z]",
         "[1]", "[bold red]", "[/red bold]", "é", "あ", "\r", "\t", "[/\xa0b ]", "́"]


def rlit(rng):
    pool = rng.choice([ALPHA12, ALPHA12, "ab1 ", "[]\\", ALPHA12 + WIDE + ZERO, ALPHA12 + CTRL + UWS, "[]\\a/\n"])
    n = rng.choice([0, 1, 1, 2, 3, 4, 6, 9])
    return "".join(rng.choice(pool) for _ in range(n))


def spelling(rng, name):
    """a closing-tag spelling of `name`: padded with whitespace the implementation strips"""
    r = rng.random()
    if r < 0.6:
        return name
    if r < 0.8:
        return " " + name + rng.choice(["", " ", "  "])
    return rng.choice(["\t", "\xa0", " ", " "]) + name + rng.choice(["\xa0", "\x1c", ""])


def rdoc(rng, classes, size, errors=False, colon=True, with_params=True):
    """random document: nested / overlapping tags, escaped literal leaves; the generator tracks the
    open classes so that (unless errors=True) every close has something to close"""
    doc = []
    stack = []   # class indexes, oldest first
    for _ in range(size):
        r = rng.random()
        if r < 0.34 or not doc:
            ci = rng.randrange(len(classes))
            name = rng.choice([n for n in classes[ci] if n[0] in "abcdefghijklmnopqrstuvwxyz#"])   # RE_TAGS: [a-z#/]
            params = []
            if with_params and (name == "link" or rng.random() < 0.06):
                params = [s2t(rng.choice(PARAMS))]
            doc.append([0, s2t(name), params])
            stack.append(ci)
        elif r < 0.62:
            s = repair_lit(rlit(rng), rng)
            if not colon:
                s = s.replace(":", ";")
            doc.append([3, s2t(s)])
        elif r < 0.76:
            if stack or (errors and rng.random() < 0.5):
                # [/]  or a blank closing name, which the implementation treats the same way
                doc.append([2] if rng.random() < 0.8 else [1, s2t(rng.choice([" ", "  ", "\xa0", "\t "]))])
                if stack:
                    stack.pop()
        elif r < 0.97:
            if stack:
                # close the top, or something deeper (overlapping regions)
                k = len(stack) - 1 if rng.random() < 0.5 else rng.randrange(len(stack))
                ci = stack[k]
                # pop_style closes the MOST RECENT entry of that class
                last = max(j for j, c in enumerate(stack) if c == ci)
                stack.pop(last)
                doc.append([1, s2t(spelling(rng, rng.choice(classes[ci])))])
            elif errors:
                doc.append([1, s2t(rng.choice(rng.choice(classes)))])
        else:
            if errors:
                ci = rng.randrange(len(classes))
                if ci in stack:
                    stack.pop(max(j for j, c in enumerate(stack) if c == ci))
                doc.append([1, s2t(spelling(rng, rng.choice(classes[ci])))])
    return doc


def doc_names(doc):
    names = set()
    for it in doc:
        if it[0] == 0:
            names.add(t2s(it[1]))
        elif it[0] == 1:
            names.add(t2s(it[1]).strip())
            names.add(t2s(it[1]))
    return names


def string_names(s):
    """every name a tag in s could have (generous over-approximation, strings are short)"""
    names = set()
    for i, c in enumerate(s):
        if c != "[":
            continue
        for j in range(i + 1, len(s)):
            if s[j] == "]":
                name = s[i + 1:j].partition("=")[0]
                names.add(name)
                if name.startswith("/"):
                    names.add(name[1:].strip())
    names.discard("")
    return names


def has_colon_doc(doc):
    return any(58 in it[1] or (it[0] == 0 and it[2] and 58 in it[2][0]) for it in doc if it[0] in (0, 1, 3))


def generate(rng, tier):
    cases = []
    quick = tier == "quick"
    # ---- exhaustive over the property's alphabet: scanners vs `re`, escape, render, render(escape)
    full_max = 5
    for length in range(0, full_max + 1):
        total = 12 ** length
        step = 3000
        for lo in range(0, total, step):
            cases.append(("ex_range", [0, length, lo, min(total, lo + step)]))
    if not quick:
        # VERIF_C04_DIGEST_MAX=6 shortens the digest sweep (used for the mutation self-test only)
        import os
        for length in range(6, int(os.environ.get("VERIF_C04_DIGEST_MAX", "7")) + 1):
            total = 12 ** length
            step = 40000
            for lo in range(0, total, step):
                cases.append(("ex_range", [1, length, lo, min(total, lo + step)]))
    for lo in range(0, 0x110000, 0x10000):
        cases.append(("isspace_range", [lo, lo + 0x10000]))
    for length in range(0, 5 if quick else 6):
        total = 12 ** length
        for lo in range(0, total, 4000):
            cases.append(("norm_range", [length, lo, min(total, lo + 4000)]))

    k = 1 if quick else 30
    # ---- documents
    docs = []
    for _ in range(1400 * k):
        size = rng.choice([1, 2, 3, 4, 6, 8, 12, 20])
        docs.append(("render_doc", rdoc(rng, CLASSES, size)))
    for _ in range(500 * k):
        docs.append(("render_doc", rdoc(rng, CLASSES, rng.choice([2, 4, 8, 14]), errors=True)))
    # same-offset nesting (the D3 shape) made frequent: opens without text between them
    for _ in range(400 * k):
        n = rng.randint(2, 4)
        cls = rng.sample(range(len(COLOR_CLASSES)), n)
        doc = [[0, s2t(COLOR_CLASSES[c][0]), []] for c in cls] + [[3, s2t(repair_lit(rlit(rng) or "x", rng))]]
        for _ in range(rng.randint(0, n)):
            doc.append(rng.choice([[2], [3, s2t("y")], [1, s2t(rng.choice(COLOR_CLASSES[rng.choice(cls)]))]]))
        docs.append(("render_doc", doc))
    # embedded escape: every short literal meeting the side conditions, between contexts
    pres = [[], [[0, s2t("bold"), []]], [[3, s2t("x")]], [[0, s2t("a"), []], [3, s2t("]")]], [[0, s2t("red"), []], [2]],
            [[3, s2t("\\ ")]], [[0, s2t("r\\"), []]], [[3, s2t("[x]")]]]
    posts = [[], [[2]], [[0, s2t("b"), []]], [[3, s2t("]")]], [[3, s2t("\\]")]], [[1, s2t("bold")]], [[3, s2t("[/]")]]]
    emb_max = 3 if quick else 4
    for length in range(0, emb_max + 1):
        for idx in range(12 ** length):
            s = nth_string(length, idx)
            if not lit_ok(s):
                continue
            for _ in range(2 if quick else 4):
                pre = rng.choice(pres)
                post = rng.choice(posts)
                docs.append(("render_doc", pre + [[3, s2t(s)]] + post))
    # side conditions violated on purpose (no spec check; model and implementation must still agree)
    for _ in range(300 * k):
        doc = rdoc(rng, CLASSES, rng.choice([2, 4, 8]), errors=True)
        pos = rng.randrange(len(doc) + 1)
        doc.insert(pos, [3, s2t(rng.choice(["\\", "a\\", "[a", "[/", "[", "\\\\", "[b=", "x[#"]))])
        docs.append(("render_doc_any", doc))
    # colour-only documents rendered through Text.render: effective colour per character
    eff = []
    for _ in range(500 * k):
        eff.append(("effective_doc", rdoc(rng, COLOR_CLASSES, rng.choice([2, 3, 4, 6, 9]), colon=False, with_params=False)))
    # ---- strings (malformed stream)
    strings = []
    for _ in range(1500 * k):
        n = rng.choice([1, 2, 3, 4, 6, 9, 12])
        strings.append("".join(rng.choice(FRAGS) for _ in range(n)))
    for _ in range(500 * k):
        strings.append(rlit(rng) + rlit(rng))

    # ---- the Style.normalize oracle: its graph on every name that can occur, from the implementation
    names = set()
    for _, d in docs + eff:
        names |= doc_names(d)
    for s in strings:
        names |= string_names(s)
    names = sorted(names)
    table = {}
    if names:
        got = common.run_impl("markup", [("normalize_many", [s2t(n) for n in names[i:i + 500]])
                                         for i in range(0, len(names), 500)], repo=common.REPO)
        flat = []
        for r in got:
            flat += r.get("ok", [])
        if len(flat) == len(names):
            table = {n: t2s(v) for n, v in zip(names, flat)}
    def tbl(ns):
        return [[s2t(n), s2t(table[n])] for n in sorted(ns) if n in table]

    for op, d in docs:
        emoji = 0 if has_colon_doc(d) else rng.randint(0, 1)
        cases.append((op, [emoji, tbl(doc_names(d)), d]))
        if rng.random() < 0.1:
            cases.append(("flatten", d))
    for op, d in eff:
        cases.append((op, [tbl(doc_names(d)), d]))
    for s in strings:
        emoji = 0 if ":" in s else rng.randint(0, 1)
        cases.append(("render", [emoji, tbl(string_names(s)), s2t(s)]))
        cases.append(("render_escaped", s2t(s)))
        if rng.random() < 0.3:
            cases.append(("scan_tags", s2t(s)))
            cases.append(("scan_escape", s2t(s)))
            cases.append(("escape", s2t(s)))
    return cases


# ---------------------------------------------------------------- implementation side
def _text_tree(t):
    return [s2t(t.plain), [[sp.start, sp.end, s2t(str(sp.style))] for sp in t.spans]]


def _outcome(fn):
    try:
        return [0, fn()]
    except Exception as e:   # same mapping as common.outcome_tree
        name = type(e).__name__
        if name in common.DOC_ERRORS:
            return [1, common.DOC_ERRORS[name]]
        return [2, common.CRASH_ERRORS.get(name, 99)]


def _digest(t, h=0):
    M = (1 << 48) - 1
    if isinstance(t, int):
        return (h * 33 + t + 1) & M
    h = (h * 33 + 1000001 + 1) & M
    for x in t:
        h = _digest(x, h)
    return (h * 33 + 1000002 + 1) & M


def impl(op, arg):
    from rich import markup
    from rich.markup import render, escape, RE_TAGS
    esc_re = escape.__defaults__[0].__self__
    if op == "scan_tags":
        return [[m.start(), len(m.group(2)), m.end()] for m in RE_TAGS.finditer(t2s(arg))]
    if op == "scan_escape":
        return [[m.start(), len(m.group(1)), m.end()] for m in esc_re.finditer(t2s(arg))]
    if op == "escape":
        return s2t(escape(t2s(arg)))
    if op == "flatten":
        return s2t(py_flatten(arg, escape))
    if op == "render":
        emoji, _, s = arg
        return _text_tree(render(t2s(s), emoji=bool(emoji)))
    if op == "render_escaped":
        return _text_tree(render(escape(t2s(arg)), emoji=False))
    if op in ("render_doc", "render_doc_any"):
        emoji, _, doc = arg
        return _text_tree(render(py_flatten(doc, escape), emoji=bool(emoji)))
    if op == "effective_doc":
        import io
        from rich.console import Console
        from rich.text import Text
        _, doc = arg
        console = Console(file=io.StringIO(), width=80, force_terminal=True, color_system="truecolor",
                          legacy_windows=False, _environ={})
        text = Text.from_markup(py_flatten(doc, escape), emoji=False)
        out = []
        for seg in text.render(console):
            col = seg.style.color.name if (seg.style is not None and seg.style.color is not None) else None
            for ch in seg.text:
                out.append([ord(ch), [s2t(col)] if col is not None else []])
        return out
    if op == "ex_range":
        dig, length, lo, hi = arg
        rs = []
        for idx in range(lo, hi):
            s = nth_string(length, idx)
            e = escape(s)
            rs.append([
                [[m.start(), len(m.group(2)), m.end()] for m in RE_TAGS.finditer(s)],
                [[m.start(), len(m.group(1)), m.end()] for m in esc_re.finditer(s)],
                s2t(e),
                _outcome(lambda: _text_tree(render(s, emoji=False))),
                _outcome(lambda: _text_tree(render(e, emoji=False))),
            ])
        return [_digest(rs)] if dig else rs
    if op == "isspace_range":
        lo, hi = arg
        return [1 if chr(c).isspace() else 0 for c in range(lo, hi)]
    if op == "norm_range":
        from rich.style import Style
        length, lo, hi = arg
        return [[s2t(Style.normalize(nth_string(length, i))), s2t(nth_string(length, i).strip())] for i in range(lo, hi)]
    if op == "normalize_many":
        from rich.style import Style
        return [s2t(Style.normalize(t2s(n))) for n in arg]
    raise KeyError(op)


# ---------------------------------------------------------------- model-side argument mapping
def model_case(op, arg):
    if op in ("render", "render_doc", "render_doc_any", "effective_doc", "ex_range"):
        return ("render_doc" if op == "render_doc_any" else op), [ASIS[0]] + arg
    if op == "render_escaped":
        return op, [ASIS[0], arg]
    return op, arg


def py_doc_ok(doc):
    """harness-side mirror of SpecMarkup.doc_ok; spec checkers are only applied inside the document
    grammar (a shrunk input may leave it).  The Gallina doc_ok is evaluated as well (spec.doc_ok)."""
    try:
        for it in doc:
            k = it[0]
            if k == 0:
                n = t2s(it[1])
                if not n or not (n[0] in "abcdefghijklmnopqrstuvwxyz#") or any(c in n for c in "]\n="):
                    return False
                if it[2] and any(c in t2s(it[2][0]) for c in "]\n"):
                    return False
            elif k == 1:
                n = t2s(it[1])
                if any(c in n for c in "]\n="):
                    return False
            elif k == 2:
                if len(it) != 1:
                    return False
            elif k == 3:
                if not lit_ok(t2s(it[1])):
                    return False
            else:
                return False
        return True
    except Exception:
        return False


def spec_cases(op, arg, out):
    if isinstance(out, dict):
        return []
    if op in ("render_doc", "render_doc_any"):
        emoji, tbl, doc = arg
        if not py_doc_ok(doc):
            return []
        cs = [("spec.doc_ok", doc), ("spec.error_iff", [tbl, doc, out])]
        if out[0] == 0:
            cs += [("spec.markup_ok", [tbl, doc, out[1]]), ("spec.spans_wf", out[1])]
        return cs
    if op == "render" and out[0] == 0:
        return [("spec.spans_wf", out[1])]
    if op == "render_escaped":
        return [("spec.escape_verbatim", [arg, out])]
    if op == "ex_range" and not arg[0]:
        return [("spec.ex_verbatim", [arg[1], arg[2], arg[3], [r[4] for r in out]])]
    if op == "effective_doc" and out[0] == 0:
        tbl, doc = arg
        if not py_doc_ok(doc):
            return []
        return [("spec.doc_ok", doc), ("spec.effective_ok", [tbl, doc, out[1]])]
    return []


def describe(op, arg):
    try:
        from_doc = lambda d: py_flatten(d, lambda s: "{esc:" + s + "}")
        if op in ("render_doc", "render_doc_any"):
            return repr(from_doc(arg[2]))
        if op == "effective_doc":
            return repr(from_doc(arg[1]))
        if op == "render":
            return repr(t2s(arg[2]))
        if op in ("render_escaped", "escape", "scan_tags", "scan_escape"):
            return repr(t2s(arg))
        if op == "ex_range":
            return f"all strings of length {arg[1]} over {ALPHA12!r}, indexes [{arg[2]},{arg[3]})" + (" (digest)" if arg[0] else "")
    except Exception:
        pass
    return None
