"""Layer `color` (C18; parse/codes reused by C06/C03/C14): rich.color, rich.palette, rich._palettes,
rich.color_triplet.  Colours travel as [name, type, number?, triplet?]."""
import ast, itertools, os, subprocess
import common
from common import s2t, t2s, DOC_ERRORS, CRASH_ERRORS

OPS = {
    "color.parse": {"res": True}, "color.re_color": {}, "color.lower_strip": {}, "color.int": {},
    "color.from_ansi": {}, "color.from_rgb": {}, "color.default": {}, "color.triplet_str": {},
    "color.system": {}, "color.get_truecolor": {"res": True}, "color.codes": {"res": True},
    "color.palette_get": {"res": True}, "color.match": {"res": True}, "color.downgrade": {},
    "color.dg_block": {}, "color.dg_pairs": {}, "color.kernel_pairs": {}, "color.kernel_cube": {},
    "color.sqrt_monotone": {},
}

STD, E8, TRUE, WIN = 1, 2, 3, 4          # ColorSystem / ColorType values (DEFAULT type = 0)
SYSTEMS = [STD, E8, TRUE, WIN]

# ---------------------------------------------------------------- generators
# syntax fragments of Color.parse: every regex branch, separators, the characters that
# \d / \s / int() / strip() / lower() treat specially
TOKENS = ["rgb(", "color(", ")", ",", " ", "#", "0", "1", "7", "25", "255", "256", "999", "0a", "ff", "fg",
          "٣", "१", "\x1c", "\t", "\n", "　", "\xa0", "red", "default", "bright_", "blue",
          "grey", "93", "K", "\u212a", "R", "G", "B(", "C", "-", "+", "_", ".", "²", "x", "(", "khaki1"]
CORE = ["rgb(", ")", ",", " ", "1", "25", "256", "٣", "\x1c", "#", "ff", "color(", "\n"]


def _names():
    try:
        src = open(os.path.join(common.REPO, "rich", "color.py"), encoding="utf-8").read()
        for node in ast.parse(src).body:
            if isinstance(node, ast.Assign) and getattr(node.targets[0], "id", "") == "ANSI_COLOR_NAMES":
                return list(ast.literal_eval(node.value))
    except Exception:
        pass
    return ["red", "bright_blue", "grey93", "khaki1"]


def _valid_color_str(rng):
    k = rng.randrange(6)
    if k == 0:
        return "#%02x%02x%02x" % (rng.randrange(256), rng.randrange(256), rng.randrange(256))
    if k == 1:
        return "color(%d)" % rng.choice([0, 1, 7, 8, 15, 16, 17, 99, 100, 231, 232, 255, 256, 300, 999, rng.randrange(1000)])
    if k == 2:
        sp = lambda: rng.choice(["", "", " ", "\t", "　", "  "])
        comps = [sp() + str(rng.choice([0, 1, 9, 10, 99, 100, 127, 254, 255, 256, 1000, rng.randrange(256)])) + sp()
                 for _ in range(rng.choice([3, 3, 3, 3, 2, 4]))]
        return "rgb(" + ",".join(comps) + ")"
    if k == 3:
        return rng.choice(NAMES[0])
    if k == 4:
        return "default"
    digs = rng.choice(["0123456789", "٠١٢٣٤٥٦٧٨٩",
                       "０１２３４５６７８９"])
    return "rgb(" + ",".join("".join(rng.choice(digs) for _ in range(rng.randint(0, 3))) for _ in range(3)) + ")"


def _decorate(rng, s):
    r = rng.random()
    if r < 0.25:
        s = s.upper()
    elif r < 0.35:
        s = "".join(c.upper() if rng.random() < 0.5 else c for c in s)
    if rng.random() < 0.3:
        s = rng.choice([" ", "\n", "\t ", "\x1f", " "]) + s
    if rng.random() < 0.3:
        s = s + rng.choice([" ", "\n", " \n", "\x1c", "　"])
    if rng.random() < 0.08 and s:
        k = rng.randrange(len(s))
        s = s[:k] + rng.choice(["", " ", ",", "x", "\u212a", ")", "0"]) + s[k + 1:]
    return s


NAMES = [None]


def _parse_strings(rng, tier):
    NAMES[0] = _names()
    out = []
    for n in (0, 1, 2):
        for tup in itertools.product(TOKENS, repeat=n):
            out.append("".join(tup))
    depth = 5 if tier == "thorough" else 4
    for n in range(3, depth + 1):
        for tup in itertools.product(CORE, repeat=n):
            if tier == "thorough" or n == 3 or rng.random() < 0.06:
                out.append("".join(tup))
    k = 1 if tier == "quick" else 20
    for _ in range(1500 * k):
        out.append(_decorate(rng, _valid_color_str(rng)))
    for _ in range(1200 * k):
        out.append("".join(rng.choice(TOKENS) for _ in range(rng.randint(3, 8))))
    for name in NAMES[0]:
        out.append(name)
        out.append(name.upper() + " ")
    # D9 witnesses and the int() digit limit
    out += ["rgb(,,)", "rgb(1 2,3,4)", "rgb( , , )", "rgb(1,2,\x1c3)", "rgb(1,2,3)\n", "RGB(1,2,3)",
            "rgb(" + "1" * 4300 + ",1,1)", "rgb(" + "0" * 4301 + ",1,1)", "rgb(1,1," + " " * 5000 + "1)",
            "blac\u212a", "\u212ahaki1", "blacK", "color(0255)", "color(1000)", "#FFFFFF", "#fffffg", "#ffffff\n"]
    return out


EDGE = [0, 1, 2, 12, 13, 25, 26, 27, 50, 51, 52, 76, 77, 78, 101, 102, 127, 128, 129, 153, 178, 179, 180,
        204, 229, 230, 231, 253, 254, 255]
GREY_BOUNDARY = [(55, 45), (77, 63), (110, 90), (121, 99), (147, 123), (174, 156), (201, 189), (210, 200), (246, 244),
                 (11, 9), (22, 18), (33, 27), (44, 36), (66, 54), (88, 72), (99, 81)]


def c_rgb(r, g, b):
    return [s2t("#%02x%02x%02x" % (r, g, b)) if min(r, g, b) >= 0 else s2t("x"), TRUE, [], [[r, g, b]]]


def c_ansi(n, ty=None):
    return [s2t("color(%d)" % n), ty if ty is not None else (STD if n < 16 else E8), [n], []]


C_DEFAULT = [s2t("default"), 0, [], []]


def _malformed(rng):
    ty = rng.choice([0, 1, 2, 3, 4])
    num = rng.choice([[], [], [rng.choice([-300, -17, -16, -1, 0, 15, 16, 255, 256, 1000])]])
    tri = rng.choice([[], [], [[rng.choice([-5, 0, 255, 256, 999]) for _ in range(3)]]])
    return [s2t("odd"), ty, num, tri]


def _colors(rng, tier):
    cols = [C_DEFAULT, [s2t("DEFAULT"), 0, [], []]]
    cols += [c_ansi(n) for n in range(256)]
    cols += [c_ansi(n, WIN) for n in range(16)]
    cols += [c_ansi(n, E8) for n in range(16)]          # EIGHT_BIT with a low number (not built by rich, still wf)
    cols += [c_rgb(v, v, v) for v in range(256)]        # all greys
    for mx, mn in GREY_BOUNDARY:
        for t in set(itertools.permutations((mx, mn, mn))) | set(itertools.permutations((mx, mx, mn))):
            cols.append(c_rgb(*t))
        cols.append(c_rgb(mx, mn, (mx + mn) // 2))
    step = 3 if tier == "quick" else 1
    grid = EDGE[::step] + [255]
    for r in grid:
        for g in grid:
            for b in grid:
                cols.append(c_rgb(r, g, b))
    k = 1500 if tier == "quick" else 40000
    for _ in range(k):
        m = rng.random()
        if m < 0.5:
            cols.append(c_rgb(rng.randrange(256), rng.randrange(256), rng.randrange(256)))
        elif m < 0.8:   # near-grey: saturation around the 10% threshold
            v = rng.randrange(256)
            d = rng.randint(0, 30)
            t = [v, max(0, v - d), max(0, v - rng.randint(0, d))]
            rng.shuffle(t)
            cols.append(c_rgb(*t))
        else:
            cols.append(c_rgb(rng.choice(EDGE), rng.choice(EDGE), rng.randrange(256)))
    return cols


def generate(rng, tier):
    cases = []
    k = 1 if tier == "quick" else 20
    strs = _parse_strings(rng, tier)
    for s in strs:
        cases.append(("color.parse", s2t(s)))
    for s in strs[:: (3 if tier == "quick" else 1)]:
        cases.append(("color.re_color", s2t(s)))
    safe = [t for t in TOKENS if all(ord(c) < 128 or c.lower() == c or c == "\u212a" for c in t)]
    for _ in range(600 * k):
        cases.append(("color.lower_strip", s2t("".join(rng.choice(safe).upper() if rng.random() < 0.3 else rng.choice(safe)
                                                       for _ in range(rng.randint(0, 6))))))
    digs = "0123456789٣१９"
    spc = " \t\n\x0b\x0c\r\x1c\x1f\x85\xa0　"
    for _ in range(800 * k):
        s = "".join(rng.choice(digs) if rng.random() < 0.7 else rng.choice(spc) for _ in range(rng.randint(0, 7)))
        cases.append(("color.int", s2t(s)))
    for s in ["1" * 4300, "1" * 4301, " " + "9" * 4300 + "\n", "0" * 4301, "٣" * 4301, "", " ", "1 1"]:
        cases.append(("color.int", s2t(s)))
    for n in list(range(-2, 260)) + [300, 1000, 65536]:
        cases.append(("color.from_ansi", n))
    for _ in range(300 * k):
        t = [rng.choice([rng.randrange(256), rng.choice(EDGE), rng.randint(-20, 300), rng.randint(0, 5000)]) for _ in range(3)]
        cases.append(("color.from_rgb", t))
        cases.append(("color.triplet_str", t))
    cases.append(("color.default", []))
    cols = _colors(rng, tier)
    for c in cols[:600] + [_malformed(rng) for _ in range(100)]:
        cases.append(("color.system", c))
    for c in cols[:560] + cols[560::7] + [_malformed(rng) for _ in range(300)]:
        for fg in (0, 1):
            cases.append(("color.get_truecolor", [c, fg]))
            cases.append(("color.codes", [c, fg]))
    for _ in range(300 * k):
        pal = rng.randrange(4)
        cases.append(("color.palette_get", [pal, rng.choice([0, 1, 15, 16, 255, 256, -1, -16, -17, -256, -257, rng.randint(-300, 300)])]))
    for _ in range(1500 * k):
        pal = rng.randrange(4)
        if rng.random() < 0.9:
            t = [rng.choice([rng.randrange(256), rng.choice(EDGE)]) for _ in range(3)]
        else:
            t = [rng.choice([rng.randint(-2000, 3000), rng.randrange(256)]) for _ in range(3)]
        cases.append(("color.match", [pal, t]))
    for c in cols + [_malformed(rng) for _ in range(300)]:
        for sys in SYSTEMS:
            if sys == E8 and c[1] == TRUE and c[3] and not all(0 <= x <= 255 for x in c[3][0]):
                continue   # channels outside 0..255 -> 256 colours: float arithmetic outside the modelled domain
            cases.append(("color.downgrade", [c, sys]))
    # volume: whole blocks of the RGB cube, run-length coded
    if tier == "quick":
        for sys in (STD, E8, WIN):
            for r in sorted(set(EDGE[::2] + [rng.randrange(256) for _ in range(10)])):
                g = rng.randrange(0, 249)
                cases.append(("color.dg_block", [sys, r, g, g + 8]))
                g = rng.choice(EDGE[:-1])
                cases.append(("color.dg_block", [sys, r, g, min(256, g + 4)]))
    else:
        for sys in (STD, E8, WIN):
            for r in range(256):
                for g in range(0, 256, 64):
                    cases.append(("color.dg_block", [sys, r, g, g + 64]))
    for mx in range(256):
        cases.append(("color.kernel_pairs", mx))
        cases.append(("color.dg_pairs", mx))
    cases.append(("color.kernel_cube", []))
    for lo in range(0, 660000, 66000):      # radicands of get_color_distance are < 649 743
        cases.append(("color.sqrt_monotone", [lo, lo + 66000]))
    return cases


# ---------------------------------------------------------------- model-side argument mapping
_D9 = {}


def d9_fixed():
    """does the implementation under test turn int()'s ValueError into ColorParseError (D9 repaired)?"""
    repo = common.REPO
    if repo not in _D9:
        code = ("from rich.color import Color, ColorParseError\n"
                "try:\n    Color.parse('rgb(,,)')\n    print('ok')\n"
                "except ColorParseError:\n    print('fixed')\nexcept ValueError:\n    print('asis')\n")
        env = dict(os.environ, PYTHONPATH=repo)
        try:
            out = subprocess.run([common.PY, "-c", code], env=env, stdout=subprocess.PIPE, stderr=subprocess.DEVNULL,
                                 cwd="/", timeout=60).stdout.decode()
        except Exception:
            out = ""
        _D9[repo] = 1 if "fixed" in out else 0
    return _D9[repo]


def model_case(op, arg):
    if op == "color.parse":
        return op, [d9_fixed(), arg]
    if op == "color.dg_pairs":
        return "color.dg_pairs", arg
    return op, arg


# ---------------------------------------------------------------- implementation side
def _color(t):
    from rich.color import Color, ColorType
    from rich.color_triplet import ColorTriplet
    return Color(t2s(t[0]), ColorType(t[1]), t[2][0] if t[2] else None, ColorTriplet(*t[3][0]) if t[3] else None)


def _ucolor(c):
    return [s2t(c.name), int(c.type), [] if c.number is None else [c.number],
            [] if c.triplet is None else [[c.triplet.red, c.triplet.green, c.triplet.blue]]]


def _res(fn):
    try:
        return [0, fn()]
    except Exception as e:   # noqa
        name = type(e).__name__
        if name in DOC_ERRORS:
            return [1, DOC_ERRORS[name]]
        return [2, CRASH_ERRORS.get(name, 99)]


def _pal(i):
    from rich import _palettes
    from rich.terminal_theme import DEFAULT_TERMINAL_THEME
    return [_palettes.STANDARD_PALETTE, _palettes.EIGHT_BIT_PALETTE, _palettes.WINDOWS_PALETTE,
            DEFAULT_TERMINAL_THEME.ansi_colors][i]


def _rle(l):
    out = []
    for x in l:
        if out and out[-2] == x:
            out[-1] += 1
        else:
            out += [x, 1]
    return out


def _number(c, sys):
    from rich.color import ColorType
    try:
        d = c.downgrade(sys)
    except Exception:
        return -1
    if d.type == ColorType(int(sys)) and d.name == c.name and d.number is not None and d.triplet is None \
            and type(d.number) is int:
        return d.number
    return -2


def impl(op, arg):
    from rich.color import Color, ColorSystem, ColorType, RE_COLOR
    from rich.color_triplet import ColorTriplet
    if op == "color.parse":
        return _ucolor(Color.parse(t2s(arg)))
    if op == "color.re_color":
        m = RE_COLOR.match(t2s(arg))
        if m is None:
            return []
        g = m.groups()
        if sum(1 for x in g if x is not None) != 1:
            return [-1]
        i = [x is not None for x in g].index(True)
        return [i + 1, s2t(g[i])]
    if op == "color.lower_strip":
        return s2t(t2s(arg).lower().strip())
    if op == "color.int":
        try:
            return [int(t2s(arg))]
        except ValueError:
            return []
    if op == "color.from_ansi":
        return _ucolor(Color.from_ansi(arg))
    if op == "color.from_rgb":
        return _ucolor(Color.from_rgb(*arg))
    if op == "color.default":
        return _ucolor(Color.default())
    if op == "color.triplet_str":
        t = ColorTriplet(*arg)
        return [s2t(t.hex), s2t(t.rgb)]
    if op == "color.system":
        c = _color(arg)
        return [int(c.system), 1 if c.is_system_defined else 0, 1 if c.is_default else 0]
    if op == "color.get_truecolor":
        t = _color(arg[0]).get_truecolor(foreground=bool(arg[1]))
        return [t.red, t.green, t.blue]
    if op == "color.codes":
        return [s2t(x) for x in _color(arg[0]).get_ansi_codes(foreground=bool(arg[1]))]
    if op == "color.palette_get":
        t = _pal(arg[0])[arg[1]]
        return [t.red, t.green, t.blue]
    if op == "color.match":
        return _pal(arg[0]).match(tuple(arg[1]))
    if op == "color.downgrade":
        c = _color(arg[0])
        sys = ColorSystem(arg[1])
        r1 = _res(lambda: c.downgrade(sys))
        if r1[0] != 0:
            return [r1, []]
        d = r1[1]
        return [[0, _ucolor(d)], (lambda r2: [0, _ucolor(r2[1])] if r2[0] == 0 else r2)(_res(lambda: d.downgrade(sys)))]
    if op == "color.dg_block":
        s, r, g_lo, g_hi = arg
        sys = ColorSystem(s)
        return _rle([_number(Color.from_rgb(r, g, b), sys) for g in range(g_lo, g_hi) for b in range(256)])
    if op == "color.dg_pairs":
        mx = arg
        sys = ColorSystem.EIGHT_BIT
        out = []
        for mn in range(256):
            out += [_number(Color.from_rgb(mx, mn, mn), sys), _number(Color.from_rgb(mn, mx, mn), sys),
                    _number(Color.from_rgb(mn, mn, mx), sys), _number(Color.from_rgb(mx, mx, mn), sys)]
        return out
    if op == "color.kernel_pairs":
        # the float kernel exactly as rich/colorsys compute it, on the interpreter's binary64
        from colorsys import rgb_to_hls
        mx = arg
        greys, levels = [], []
        for mn in range(256):
            red, green, blue = ColorTriplet(mx, mn, mn).normalized
            _h, l, s = rgb_to_hls(red, green, blue)
            greys.append(1 if s < 0.1 else 0)
            levels.append(round(l * 25.0))
        return [greys, levels]
    if op == "color.sqrt_monotone":
        from math import sqrt
        return sum(1 for n in range(arg[0], arg[1]) if not sqrt(n) < sqrt(n + 1))
    if op == "color.kernel_cube":
        return [round(ColorTriplet(c, 0, 0).normalized[0] * 5.0) for c in range(256)]
    raise KeyError(op)


# ---------------------------------------------------------------- spec checkers on implementation output
def _wf(t):
    ty, num, tri = t[1], t[2], t[3]
    if ty == 0:
        return not num and not tri
    if ty in (STD, WIN):
        return bool(num) and not tri and 0 <= num[0] <= 15
    if ty == E8:
        return bool(num) and not tri and 0 <= num[0] <= 255
    if ty == TRUE:
        return not num and bool(tri) and all(0 <= x <= 255 for x in tri[0])
    return False


def spec_cases(op, arg, out):
    if isinstance(out, dict):
        return []
    if op == "color.parse" and out[0] == 0:
        return [("spec.color.wf", out[1])]
    if op == "color.from_ansi" and 0 <= arg <= 255:
        return [("spec.color.wf", out)]
    if op == "color.from_rgb" and all(0 <= x <= 255 for x in arg):
        return [("spec.color.wf", out)]
    if op == "color.default":
        return [("spec.color.wf", out)]
    if op == "color.codes" and _wf(arg[0]):
        if out[0] != 0:
            return [("spec.color.codes_ok", [arg[0], arg[1], [[0]]])]    # an exception on a wf colour fails
        return [("spec.color.codes_ok", [arg[0], arg[1], out[1]])]
    if op == "color.match" and all(0 <= x <= 255 for x in arg[1]):
        if out[0] != 0:
            return [("spec.color.nearest", [arg[0], arg[1], -1])]
        return [("spec.color.nearest", [arg[0], arg[1], out[1]])]
    if op == "color.downgrade" and _wf(arg[0]):
        c, sys = arg
        once, twice = out
        bad = [s2t("?"), TRUE, [], []]   # not wf: makes conversion_ok fail when the implementation raised
        o = once[1] if once and once[0] == 0 else bad
        t = twice[1] if twice and twice[0] == 0 else bad
        return [("spec.color.conversion_ok", [sys, c, o, t])]
    if op == "color.dg_block":
        return [("spec.color.block_ok", arg + [out])]
    return []


def describe(op, arg):
    try:
        if op in ("color.parse", "color.re_color", "color.int", "color.lower_strip"):
            return repr(t2s(arg))
        if op == "color.downgrade":
            return f"{t2s(arg[0][0])!r} type={arg[0][1]} number={arg[0][2]} triplet={arg[0][3]} -> system {arg[1]}"
    except Exception:
        pass
    return None
