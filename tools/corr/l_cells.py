"""Layer L0/L1 (C13): rich.cells, rich._lru_cache, rich.segment line shaping."""
from common import s2t, t2s

OPS = {
    "cw_range": {"noshrink": True}, "cell_len": {}, "cell_len_hist": {}, "set_cell_size": {}, "chop_cells": {},
    "split_lines": {}, "adjust_line_length": {}, "split_and_crop_lines": {}, "get_shape": {},
    "set_shape": {}, "cell_len_default_cache": {"noshrink": True},
}

# alphabet: ASCII, wide (CJK, emoji), zero-width (combining, ZWSP, controls), misc
ASCII = "abcXYZ 09-_"
WIDE = "あ中\U0001f600Ａᄀ"
ZERO = "́​\x00\x1f\x7f҃"
MISC = "\xe9\xa0 \x1b\t"
ALPHA = ASCII + WIDE + ZERO + MISC


def rstr(rng, maxlen=12, nl=False):
    n = rng.choice([0, 1, 1, 2, 3, 5, 8, maxlen]) if maxlen > 8 else rng.randint(0, maxlen)
    pools = [ASCII, ASCII, WIDE, ZERO, MISC, ALPHA]
    pool = rng.choice(pools)
    s = "".join(rng.choice(pool if rng.random() < 0.7 else ALPHA) for _ in range(rng.randint(0, n)))
    if nl and rng.random() < 0.6 and s:
        k = rng.randint(0, len(s))
        s = s[:k] + "\n" * rng.choice([1, 1, 2]) + s[k:]
        if rng.random() < 0.3:
            s += "\n"
    return s


def rseg(rng, nl=False, maxlen=8):
    ctl = rng.random() < 0.12
    style = [] if rng.random() < 0.3 else [rng.randint(1, 4)]
    return [s2t(rstr(rng, maxlen, nl=nl)), style, 1 if ctl else 0]


def rline(rng, nl=False):
    return [rseg(rng, nl) for _ in range(rng.choice([0, 1, 2, 3, 4]))]


def generate(rng, tier):
    cases = []
    THOROUGH[0] = tier == "thorough"
    # --- exhaustive: every code point (and a little beyond), 4096 per case
    for lo in range(0, 0x110000, 4096):
        cases.append(("cw_range", [lo, min(lo + 4096, 0x110000)]))
    k = 1 if tier == "quick" else 20
    for _ in range(400 * k):
        cases.append(("cell_len", s2t(rstr(rng, rng.choice([4, 12, 80])))))
    for _ in range(150 * k):
        cap = rng.choice([1, 2, 3, 4, 8])
        pool = [rstr(rng, 6) for _ in range(rng.randint(1, cap + 4))]
        if rng.random() < 0.3:
            pool.append("x" * 65 + rstr(rng, 4))
            pool.append("y" * 64)
        hist = [rng.choice(pool) for _ in range(rng.randint(1, 30))]
        cases.append(("cell_len_hist", [cap, [s2t(s) for s in hist]]))
    for _ in range(3 if tier == "quick" else 10):
        # real default cache, forced past its 4096 capacity, with repeats of evicted keys
        seed = rng.randint(0, 10 ** 9)
        cases.append(("cell_len_default_cache", [seed, rng.choice([4200, 5000])]))
    for _ in range(800 * k):
        s = rstr(rng, rng.choice([4, 12, 40, 80]))
        total = rng.choice([0, 1, 2, 3, rng.randint(0, 20), rng.randint(0, 100)])
        cases.append(("set_cell_size", [s2t(s), total]))
    for _ in range(600 * k):
        s = rstr(rng, rng.choice([4, 12, 40, 80]))
        w = rng.choice([2, 2, 3, 4, rng.randint(2, 30)])
        pos = 0 if rng.random() < 0.6 else rng.randint(0, w)
        cases.append(("chop_cells", [s2t(s), w, pos]))
    for _ in range(400 * k):
        cases.append(("split_lines", [rseg(rng, nl=True) for _ in range(rng.randint(0, 5))]))
    for _ in range(800 * k):
        line = rline(rng)
        n = rng.choice([0, 1, 2, 3, rng.randint(0, 12), rng.randint(0, 40)])
        style = [] if rng.random() < 0.4 else [rng.randint(5, 6)]
        cases.append(("adjust_line_length", [line, n, style, rng.randint(0, 1)]))
    for _ in range(800 * k):
        segs = [rseg(rng, nl=True) for _ in range(rng.randint(0, 5))]
        n = rng.choice([0, 1, 2, 3, rng.randint(0, 12), rng.randint(0, 40)])
        style = [] if rng.random() < 0.3 else [rng.randint(5, 6)]
        cases.append(("split_and_crop_lines", [segs, n, style, rng.randint(0, 1), rng.randint(0, 1)]))
    for _ in range(300 * k):
        lines = [rline(rng) for _ in range(rng.randint(0, 4))]
        cases.append(("get_shape", lines))
        w = rng.randint(0, 15)
        h = [] if rng.random() < 0.4 else [rng.randint(0, 6)]
        style = [] if rng.random() < 0.4 else [rng.randint(5, 6)]
        cases.append(("set_shape", [lines, w, h, style]))
    return cases


# ---------------------------------------------------------------- implementation side
_styles = {}


def _style(opt):
    """abstract style token k -> a distinct real Style (token k <-> 'color(k)')"""
    from rich.style import Style
    if not opt:
        return None
    k = opt[0]
    if k not in _styles:
        _styles[k] = Style.parse(f"color({k})")
    return _styles[k]


def _tok(style):
    if style is None:
        return []
    return [style.color.number]


def _seg(t):
    from rich.segment import Segment
    return Segment(t2s(t[0]), _style(t[1]), bool(t[2]))


def _useg(g):
    return [s2t(g.text), _tok(g.style), 1 if g.is_control else 0]


def impl(op, arg):
    from rich import cells
    from rich.segment import Segment
    if op == "cw_range":
        lo, hi = arg
        return [cells.get_character_cell_size(chr(cp)) for cp in range(lo, hi)]
    if op == "cell_len":
        return cells.cell_len(t2s(arg))
    if op == "cell_len_hist":
        from rich._lru_cache import LRUCache
        cap, hist = arg
        cache = LRUCache(cap)
        return [cells.cell_len(t2s(s), cache) for s in hist]
    if op == "cell_len_default_cache":
        import random
        seed, n = arg
        rng = random.Random(seed)
        pool = [rstr(rng, 10) + str(i) for i in range(n)]
        order = pool + [rng.choice(pool) for _ in range(1500)]
        bad = 0
        for s in order:
            got = cells.cell_len(s)
            want = sum(cells.get_character_cell_size(c) for c in s)
            if got != want:
                bad += 1
        cache = cells.cell_len.__defaults__[0]
        return [bad, 1 if len(cache) <= 4096 else 0]
    if op == "set_cell_size":
        return s2t(cells.set_cell_size(t2s(arg[0]), arg[1]))
    if op == "chop_cells":
        return [s2t(p) for p in cells.chop_cells(t2s(arg[0]), arg[1], arg[2])]
    if op == "split_lines":
        return [[_useg(g) for g in line] for line in Segment.split_lines([_seg(t) for t in arg])]
    if op == "adjust_line_length":
        line, n, style, pad = arg
        out = Segment.adjust_line_length([_seg(t) for t in line], n, style=_style(style), pad=bool(pad))
        return [_useg(g) for g in out]
    if op == "split_and_crop_lines":
        segs, n, style, pad, incl = arg
        out = Segment.split_and_crop_lines([_seg(t) for t in segs], n, style=_style(style), pad=bool(pad),
                                           include_new_lines=bool(incl))
        return [[_useg(g) for g in line] for line in out]
    if op == "get_shape":
        w, h = Segment.get_shape([[_seg(t) for t in line] for line in arg])
        return [w, h]
    if op == "set_shape":
        lines, w, h, style = arg
        out = Segment.set_shape([[_seg(t) for t in line] for line in lines], w, h[0] if h else None, _style(style))
        return [[_useg(g) for g in line] for line in out]
    raise KeyError(op)


# ---------------------------------------------------------------- model-side argument mapping
def model_case(op, arg):
    """(op, arg) as sent to the model driver"""
    if op == "split_and_crop_lines":
        return op, [SHADOW[0]] + arg
    return op, arg


THOROUGH = [False]
SHADOW = [0]   # 0 = padding style parameter is respected (the repaired behaviour)


def spec_cases(op, arg, out):
    if isinstance(out, dict):
        return []
    if op == "cw_range" and (THOROUGH[0] or (arg[0] // 4096) % 16 == 0 or arg[0] < 0x3000):
        # linear-scan spec on the implementation's widths (all code points in the thorough tier; the
        # quick tier relies on theorem cw_spec + exhaustive model-vs-implementation equality)
        return [("spec.widths_ok", [arg[0], out])]
    if op == "cell_len":
        return [("spec.cell_len_ok", [arg, out])]
    if op == "set_cell_size":
        return [("spec.resize_ok", [arg[0], arg[1], out])]
    if op == "chop_cells" and arg[2] == 0:
        return [("spec.chop_ok", [arg[0], arg[1], out])]
    if op == "adjust_line_length":
        return [("spec.adjust_ok", [arg[0], arg[1], arg[2], arg[3], out])]
    if op == "split_and_crop_lines":
        return [("spec.sac_ok", [arg[0], arg[1], arg[2], arg[3], arg[4], out])]
    if op == "set_shape":
        return [("spec.set_shape_ok", [arg[0], arg[1], arg[2], arg[3], out])]
    return []


def describe(op, arg):
    try:
        if op in ("cell_len",):
            return repr(t2s(arg))
        if op in ("set_cell_size", "chop_cells"):
            return repr((t2s(arg[0]),) + tuple(arg[1:]))
    except Exception:
        pass
    return None
