"""Layer `syntax` (C17): rich.syntax.Syntax rendering and the code blocks of rich.traceback.Traceback.

The Pygments lexer is an oracle of the model: `model_case` runs the lexer *here*, built with the
keyword arguments that tools/translate/t_syntax.py extracts from the get_lexer_by_name call site of
the tree under test, and hands the token texts to the model.  `spec.lex_ok` validates the oracle
hypothesis LexOk on every generated source.
"""
import os, sys
from common import s2t, t2s
import common

OPS = {
    "render": {"res": True}, "highlight": {"res": True}, "tbframe": {}, "tbtwice": {},
    "show_Z": {}, "expandtabs": {}, "wrap_fit": {}, "wrapf_text": {},
}

LEXERS = ["python", "json", "html", "text", "nosuchlexer-c17"]
THEMES = ["monokai", "ansi_dark"]     # index = transparent flag

_kw_cache = {}


def lexer_kwargs():
    repo = common.REPO
    if repo not in _kw_cache:
        sys.path.insert(0, os.path.join(common.VERIF, "tools", "translate"))
        import t_syntax
        try:
            _kw_cache[repo] = t_syntax.lexer_kwargs(repo)
        except Exception:
            _kw_cache[repo] = {}
    return _kw_cache[repo]


_lexers = {}
_tok_cache = {}


def tokens(code, lexer_id):
    """[] when the lexer name is unknown, else [[token texts]] (Pygments, call-site options)"""
    name = LEXERS[lexer_id]
    key = (code, lexer_id, common.REPO)
    if key in _tok_cache:
        return _tok_cache[key]
    from pygments.lexers import get_lexer_by_name
    from pygments.util import ClassNotFound
    lk = (name, common.REPO)
    if lk not in _lexers:
        try:
            _lexers[lk] = get_lexer_by_name(name, **lexer_kwargs())
        except ClassNotFound:
            _lexers[lk] = None
    lx = _lexers[lk]
    out = [] if lx is None else [[s2t(t) for _, t in lx.get_tokens(code)]]
    if len(_tok_cache) > 20000:
        _tok_cache.clear()
    _tok_cache[key] = out
    return out


# ---------------------------------------------------------------- generators
PY_LINES = ["x = 1", "def f(a, b):", "    return a + b", "class K:", "    def m(self):", "        pass",
            "# comment あいう", "s = '中文字 wide'", "\tif x:\t# tabbed", "\t\ty = [1,\t2]", "print(\"hi 😀\")",
            "    ", "  ", "", "", "", "value = some_function(argument_one, argument_two, argument_three, four)",
            "if x:  ", "a\tb\tc", "'''doc", "text'''", "@decorator", "lambda: 0", "│ guide-like", "   x"]
JSON_LINES = ["{", "  \"k\": [1, 2, 3],", "  \"名\": \"値\",", "\t\"t\": null", "}", "", "[", "]", "  ", "true"]
HTML_LINES = ["<html>", "  <body class=\"c\">", "    <p>text あ</p>", "\t<br/>", "  </body>", "</html>", "", "<!-- c -->",
              "<script>var x = 1;</script>", "   "]
TEXT_LINES = ["plain words here", "あいうえおかきくけこさしすせそ", "", " lead", "trail  ", "a" * 50, "w " * 30, "\tt",
              "x", "", "中" * 30, "😀😀 emoji"]
POOLS = [PY_LINES, JSON_LINES, HTML_LINES, TEXT_LINES, PY_LINES]
# whitespace that is NOT the ASCII space: no-break space, em space, ideographic (double-width) space.
# Used as indentation, as whole lines and inside lines.  (U+2028/U+2029/U+0085 etc. are line boundaries
# for str.splitlines but not for rich, which splits on "\n" only: kept out, see notes.)
WS_LINES = ["\u3000\u3000b = '\u3000'", "\u00a0\u00a0z = 2", "\u00a0", "    \u2003k = i", "\u3000", "  \u00a0", "\u2003\u2003",
            "    \u00a0", "\u3000  x", "  \u3000y = 1", "    m = i\u00a0", "\u2003", "        \u3000deep", "a\u00a0b\u3000c"]


def rsource(rng, lexer_id, maxlines=12, ws=False):
    if ws:   # ordinary indented code mixed with lines that use other whitespace
        n = rng.choice([2, 3, 5, 8])
        lines = [rng.choice(WS_LINES) if rng.random() < 0.45 else rng.choice(PY_LINES + ["", "    ", "        q = 0"])
                 for _ in range(n)]
        lines = [""] * rng.choice([0, 0, 1, 2]) + lines + [rng.choice(["", "\u00a0", "\u3000"])] * rng.choice([0, 0, 1, 2])
        return "\n".join(lines) + ("\n" if rng.random() < 0.7 else "")
    shape = rng.random()
    if shape < 0.04:
        return ""
    if shape < 0.08:
        return "\n" * rng.randint(1, 4)
    pool = POOLS[lexer_id] if rng.random() < 0.8 else rng.choice(POOLS)
    n = rng.choice([1, 1, 2, 3, 5, 8, maxlines, rng.randint(1, maxlines)])
    lines = [rng.choice(pool) for _ in range(n)]
    lead = rng.choice([0, 0, 0, 1, 2, 3])
    trail = rng.choice([0, 0, 0, 1, 2, 3])
    lines = [""] * lead + lines + [""] * trail
    if rng.random() < 0.3:
        k = rng.randint(0, len(lines))
        lines[k:k] = [""] * rng.randint(1, 3)
    if rng.random() < 0.15:   # enough lines to change the number of digits in the gutter
        lines += [rng.choice(pool) for _ in range(rng.choice([8, 10, 95]))]
    src = "\n".join(lines)
    if rng.random() < 0.7:
        src += "\n"
    return src


def rrange(rng, n):
    r = rng.random()
    if r < 0.4:
        return []
    if r < 0.6:     # inside
        a = rng.randint(1, max(1, n))
        return [a, rng.randint(a, max(a, n))]
    if r < 0.8:     # straddling
        return [rng.randint(-3, max(1, n)), rng.randint(max(0, n - 2), n + 4)]
    if r < 0.92:    # beyond
        a = n + rng.randint(1, 5)
        return [a, a + rng.randint(0, 4)]
    return [rng.randint(-2, n + 3), rng.randint(0, n + 3)]   # anything, end may precede start


def render_case(rng):
    lexer_id = rng.randrange(len(LEXERS))
    ws = rng.random() < 0.12
    code = rsource(rng, lexer_id, rng.choice([6, 12, 30]), ws=ws)
    n = code.count("\n") + 1
    ln = 1 if (ws or rng.random() < 0.75) else 0
    start = rng.choice([1, 1, 1, 0, 2, 5, 9, 10, 95, 98, 99, 100, 994, 9990])
    rg = rrange(rng, n)
    lo = start + (max(0, rg[0] - 1) if rg else 0)
    hl = sorted(set(rng.randint(lo - 1, lo + n + 1) for _ in range(rng.choice([0, 0, 1, 2, 4]))))
    ww = 1 if rng.random() < 0.3 else 0
    tab = rng.choice([4, 4, 4, 8, 2, 1, 3])
    guides = 1 if rng.random() < (0.8 if ws else 0.25) else 0
    transparent = rng.randrange(2)
    gw = (len(str(start + code.count("\n"))) + 3) if ln else 1
    cwopt = [] if rng.random() < 0.6 else [rng.choice([2, 3, 5, 8, 13, 20, 40, 88])]
    W = gw + rng.choice([2, 3, 4, 5, 8, 10, 16, 25, 40, 80, 120])
    if cwopt:   # Console.print crops to the console width: keep gutter + code inside it (C01's business otherwise)
        W = max(W, gw + cwopt[0] + rng.choice([0, 0, 1, 7]))
    return ("render", [s2t(code), lexer_id, ln, start, rg, hl, ww, cwopt, tab, transparent, guides, W])


FILLER = ["    # note あ", "    y = x + 1", "", "    ", "    if x:\n        y = 2", "        # deep comment", "\t# tab comment",
          "    z = '" + "long " * 25 + "'", "    w = [1, 2,\t3]", "    # 中文", "    for i in (1, 2):\n\n        # gap\n        y = i"]
TOP = ["# header", "", "import os", "A = 1", "", "# コメント", "B = [1, 2, 3]", "\t", "X = '" + "q" * 100 + "'"]


GEN_NAME = "<c17-generated>"


def _indent(block, n):
    return [(" " * n + l) if l.strip() else l for l in block]


def _noise(rng, indent):
    """statement-neutral lines at the given indentation"""
    pool = ["# note あ", "", "", " " * 3, "# 中文 " + "c" * rng.choice([3, 60, 95]), "_ = [1, 2,\t3]", "_ = 'wide 😀'"]
    out = []
    for _ in range(rng.choice([0, 0, 1, 2, 4])):
        l = rng.choice(pool)
        out.append((" " * indent + l) if l.strip() else l)
    return out


def tb_module(rng, inner_kind="raise"):
    """-> (source, mode).  A call chain inner <- wrappers <- top; every wrapper is a frame that goes on
    executing after the exception passed through it (finally block, except + re-raise, nested
    try/finally, with-less cleanup) or a plain call.  mode 0: the module raises when executed;
    mode 1: catcher() stores sys.exc_info(), runs more statements and returns it (rendered later)."""
    L = [""] * rng.choice([0, 0, 1, 2, 3, 7])
    L += [rng.choice(TOP) for _ in range(rng.choice([0, 1, 3, 8]))]
    L += ["import sys"]
    L += ["def inner(x):"] + _noise(rng, 4)
    if inner_kind == "helper":       # the innermost frames live in a second file
        L += ["    return helper(x)"]
    elif inner_kind == "string":     # ... or in a pseudo file "<...>", which has no source to show
        L += ["    exec(compile('raise ValueError(1)', '<c17-string>', 'exec'))"]
    else:
        L += [rng.choice(["    raise ValueError('boom')", "    return 1 // (x - x)", "    raise ValueError(x)  # " + "c" * 90])]
    L += _noise(rng, 4) + [""] * rng.choice([0, 1, 2])
    prev = "inner"
    for i in range(rng.choice([0, 1, 2, 3, 4])):
        name = "w%d" % i
        kind = rng.choice(["plain", "finally", "reraise", "nested", "except_as"])
        L += ["def %s(x):" % name] + _noise(rng, 4)
        if kind == "plain":
            L += ["    r = %s(x)" % prev, "    return r"]
        elif kind == "finally":
            L += ["    try:"] + _noise(rng, 8) + ["        %s(x)" % prev, "    finally:"] + _noise(rng, 8)
            L += ["        done = True", "        more = 1"]
        elif kind == "reraise":
            L += ["    try:", "        %s(x)" % prev, "    except ValueError:", "        note = 'seen'"] + _noise(rng, 8) + ["        raise"]
        elif kind == "except_as":
            L += ["    try:", "        %s(x)" % prev, "    except (ValueError, ZeroDivisionError) as err:"] + _noise(rng, 8)
            L += ["        x = x + 1", "        raise err"]
        else:
            L += ["    try:", "        try:", "            %s(x)" % prev, "        finally:", "            a = 1"] + _noise(rng, 12)
            L += ["    finally:", "        b = 2", "        c = 3"]
        L += _noise(rng, 4) + [""] * rng.choice([0, 1, 3])
        prev = name
    mode = 1 if rng.random() < 0.45 else 0
    if mode == 1:
        L += ["def catcher():", "    try:"] + _noise(rng, 8) + ["        %s(1)" % prev]
        L += ["    except (ValueError, ZeroDivisionError):", "        saved = sys.exc_info()"] + _noise(rng, 4)
        L += ["    later = 1", "    more = later + 1", "    return saved"]
    else:
        if rng.random() < 0.4:
            L += ["try:", "    %s(1)" % prev, "finally:", "    CLEAN = 1", "    MORE = 2"]
        else:
            L += [rng.choice(["%s(1)" % prev, "result = %s(A if 'A' in dir() else 2)" % prev])]
    L += [rng.choice(TOP) for _ in range(rng.choice([0, 0, 1, 3, 7]))]
    L += [""] * rng.choice([0, 0, 1, 3])
    src = "\n".join(L)
    if rng.random() < 0.8:
        src += "\n"
    return src, mode


def run_generated(src, filename, mode, ns=None):
    """execute a generated module with the standard library only -> (exc_type, exc_value, tb)"""
    import sys as _sys
    ns = dict(ns or {})
    ns["__name__"] = "c17_generated"
    code = compile(src, filename, "exec")
    if mode == 1:
        exec(code, ns)
        return ns["catcher"]()
    try:
        exec(code, ns)
    except Exception:
        return _sys.exc_info()
    raise AssertionError("generated module did not raise")


def oracle_linenos(src, mode):
    """the failing line of every frame of the generated file, from the interpreter's own traceback
    (traceback.extract_tb, i.e. tb_lineno) -- independent of rich"""
    import traceback as std_tb
    et, ev, tb = run_generated(src, GEN_NAME, mode)
    return [fs.lineno for fs in std_tb.extract_tb(tb) if fs.filename == GEN_NAME]


P_NAME, H_NAME, H_REL, S_NAME = "/T/m.py", "/T/h.py", "c17rel/h.py", "<c17-string>"


def helper_module(rng):
    L = [""] * rng.choice([0, 1, 2, 4]) + [rng.choice(TOP) for _ in range(rng.choice([0, 1, 4]))]
    L += ["def helper(x):"] + _noise(rng, 4) + ["    y = x + 1"] + _noise(rng, 4)
    L += [rng.choice(["    raise ValueError('helper')", "    return y // (x - x)"])] + _noise(rng, 4)
    return "\n".join(L) + "\n"


def twice_case(rng):
    """two Traceback renders in ONE process; between them the main file is rewritten with another module
    (same path), the helper file is kept / deleted / rewritten with shifted lines; or the helper's code
    object carries a relative file name (joined to rich._IMPORT_CWD, not there).  Expected frames and
    line numbers: stdlib traceback.extract_tb on the very same code."""
    import traceback as std_tb
    kinds = [rng.choice(["raise", "helper", "helper", "string"]) for _ in range(2)]
    mods = [tb_module(rng, k) for k in kinds]
    hsrc = helper_module(rng)
    hstate = rng.choice([0, 0, 1, 2, 3])          # 3: relative co_filename
    hname = H_REL if hstate == 3 else H_NAME
    hns = {}
    exec(compile(hsrc, hname, "exec"), hns)
    entries = []
    for (src, mode) in mods:
        et, ev, tb = run_generated(src, P_NAME, mode, {"helper": hns["helper"]})
        entries.append([[s2t(fs.filename), fs.lineno] for fs in std_tb.extract_tb(tb)
                        if fs.filename in (P_NAME, H_NAME, H_REL, S_NAME)])
    extra = rng.choice([3, 3, 0, 1, 2, 5])
    transparent = 1 if rng.random() < 0.7 else 0
    guides = 1 if rng.random() < 0.6 else 0
    W = rng.choice([100, 100, 120, 60, 80])
    return ("tbtwice", [[s2t(mods[0][0]), mods[0][1]], [s2t(mods[1][0]), mods[1][1]], s2t(hsrc), hstate,
                        entries, extra, transparent, guides, W])


def _twice_files(arg):
    """file system as each of the two renders sees it: [(name, present, content)]"""
    (sa, _), (sb, _), hsrc, hstate = arg[0], arg[1], arg[2], arg[3]
    h1 = [] if hstate == 3 else [(H_NAME, 1, t2s(hsrc))]
    if hstate == 0:
        h2 = [(H_NAME, 1, t2s(hsrc))]
    elif hstate == 1:
        h2 = [(H_NAME, 0, "")]
    elif hstate == 2:
        h2 = [(H_NAME, 1, "\n\n# moved\n" + t2s(hsrc))]
    else:
        h2 = []
    return [[(P_NAME, 1, t2s(sa))] + h1, [(P_NAME, 1, t2s(sb))] + h2]


def tb_cases(rng):
    """one case per frame of the generated file: every frame of the rendered traceback is checked"""
    src, mode = tb_module(rng)
    linenos = oracle_linenos(src, mode)
    extra = rng.choice([3, 3, 0, 1, 2, 5, 20])
    transparent = 1 if rng.random() < 0.7 else 0
    guides = 1 if rng.random() < 0.6 else 0
    W = rng.choice([100, 100, 120, 60, 45, 80])
    return [("tbframe", [s2t(src), 0, no, extra, 0, transparent, guides, W, idx, mode]) for idx, no in enumerate(linenos)]


def generate(rng, tier):
    cases = []
    k = 1 if tier == "quick" else 12
    for _ in range(1500 * k):
        cases.append(render_case(rng))
    for _ in range(400 * k):
        lexer_id = rng.randrange(len(LEXERS))
        code = rsource(rng, lexer_id)
        cases.append(("highlight", [s2t(code), lexer_id, rrange(rng, code.count("\n") + 1)]))
    for _ in range(70 * k):
        cases += tb_cases(rng)
    for _ in range(60 * k):
        cases.append(twice_case(rng))
    # unknown lexer (the no-lexer fallback must expand tabs itself) x every tab size x tab-laden lines
    for _ in range(120 * k):
        lines = [rng.choice(["\tif x:\t# tabbed", "\t\ty = [1,\t2]", "a\tb\tc", "\t", "x\t", "    \tmixed", "中\t文\tz", "no tabs"])
                 for _ in range(rng.choice([1, 2, 4]))]
        code = "\n".join(lines) + rng.choice(["", "\n"])
        ln = rng.randrange(2)
        cases.append(("render", [s2t(code), rng.choice([4, 4, 3, 0]), ln, 1, [], [], rng.randrange(2), [], rng.choice([1, 2, 3, 4, 5, 6, 7, 8]),
                                 rng.randrange(2), rng.randrange(2) if ln else 0, rng.choice([30, 60, 100])]))
    # word_wrap with unbreakable runs wider than the code width, every (line_numbers, indent_guides) combination
    for _ in range(160 * k):
        run = rng.choice(["x" * rng.randint(20, 90), "中文" * rng.randint(8, 30), "abc_def(" + "q" * 60 + ")", "/".join(["seg"] * 25)])
        lines = [rng.choice(["", "    ", "        "]) + rng.choice([run, "v = '" + run + "'", run + " tail", "pre " + run])
                 for _ in range(rng.choice([1, 2, 3]))]
        if rng.random() < 0.3:
            lines.insert(rng.randint(0, len(lines)), rng.choice(["", "short line"]))
        code = "\n".join(lines) + rng.choice(["", "\n"])
        ln, guides = rng.randrange(2), rng.randrange(2)
        cw = rng.choice([5, 8, 13, 20])
        cases.append(("render", [s2t(code), rng.randrange(len(LEXERS)), ln, 1, [], [], 1, [cw], 4, rng.randrange(2), guides, cw + 12]))
    for n in list(range(0, 120)) + [rng.randint(0, 10 ** 7) for _ in range(100 * k)] + [999, 1000, 9999, 10000, -1, -10, -123]:
        cases.append(("show_Z", n))
    for _ in range(100 * k):
        code = rsource(rng, rng.randrange(4))
        cases.append(("expandtabs", [rng.choice([4, 8, 2, 1, 3, 0]), s2t(code)]))
    for _ in range(300 * k):
        line = rng.choice(TEXT_LINES + PY_LINES + [f for f in FILLER if '\n' not in f]).expandtabs(4)
        if rng.random() < 0.3:
            line = " ".join(rng.choice(["a", "bb", "中文", "long" * 6, "", "x" * 9]) for _ in range(rng.randint(0, 8)))
        wa = [s2t(line), rng.choice([2, 3, 4, 5, 8, 9, 10, 20, 40]), rng.randrange(2)]
        cases.append(("wrap_fit", wa))          # this layer's own small model of the wrap path (ASCII space only)
        cases.append(("wrapf_text", wa))        # C02's Text.wrap model through the adapter the theorems use
    for _ in range(100 * k):                    # ... which also knows the other whitespace characters
        line = rng.choice(WS_LINES + ["a\u00a0b c\u3000\u3000d  e", "\u2003x y\u00a0", "中\u3000文 字\u3000"]) + rng.choice(["", " tail words here", "\u3000" * 3])
        cases.append(("wrapf_text", [s2t(line), rng.choice([2, 3, 4, 5, 8, 12, 30]), rng.randrange(2)]))
    return cases


# ---------------------------------------------------------------- implementation side
def _console(W):
    import io
    from rich.console import Console
    return Console(width=W, file=io.StringIO(), color_system=None, legacy_windows=False, _environ={})


def _lines(text):
    ls = text.split("\n")
    if ls and ls[-1] == "":
        ls.pop()
    return [s2t(l.rstrip(" ")) for l in ls]


def impl(op, arg):
    if op == "render":
        from rich.syntax import Syntax
        code, lexer_id, ln, start, rg, hl, ww, cwopt, tab, transparent, guides, W = arg
        syn = Syntax(t2s(code), LEXERS[lexer_id], theme=THEMES[transparent], line_numbers=bool(ln), start_line=start,
                     line_range=tuple(rg) if rg else None, highlight_lines=set(hl), word_wrap=bool(ww),
                     code_width=cwopt[0] if cwopt else None, tab_size=tab, indent_guides=bool(guides))
        c = _console(W)
        c.print(syn)
        return _lines(c.file.getvalue())
    if op == "highlight":
        from rich.syntax import Syntax
        code, lexer_id, rg = arg
        syn = Syntax(t2s(code), LEXERS[lexer_id])
        return s2t(syn.highlight(t2s(code), tuple(rg) if rg else None).plain)
    if op == "tbframe":
        return _tbframe(arg)
    if op == "tbtwice":
        return _tbtwice(arg)
    if op == "show_Z":
        return s2t(str(arg))
    if op == "expandtabs":
        return s2t(t2s(arg[1]).expandtabs(arg[0]))
    if op in ("wrap_fit", "wrapf_text"):
        # Text.wrap as Syntax uses it for one line: render_lines on a console of that width
        from rich.text import Text
        from rich.style import Style
        line, w, pad = arg
        c = _console(w)
        t = Text(t2s(line), justify="left" if pad else "default", no_wrap=False)
        out = c.render_lines(t, c.options.update(width=w), style=Style.null(), pad=bool(pad))
        return [s2t("".join(seg.text for seg in l).rstrip(" ")) for l in out]
    raise KeyError(op)


def _tbframe(arg):
    import shutil, tempfile
    from rich.traceback import Traceback
    src, _lex, lineno, extra, ww, transparent, guides, W, idx = arg[:9]
    mode = arg[9] if len(arg) > 9 else 0
    d = tempfile.mkdtemp(prefix="c17_", dir="/tmp")
    try:
        path = os.path.join(d, "m.py")
        with open(path, "w", encoding="utf-8") as f:
            f.write(t2s(src))
        et, ev, tb = run_generated(t2s(src), path, mode)
        # mode 1: the frames of the chain are still alive and have executed further statements
        t = Traceback.from_exception(et, ev, tb, width=W, extra_lines=extra, theme=THEMES[transparent],
                                     word_wrap=bool(ww), indent_guides=bool(guides))
        c = _console(W + 10)
        try:
            c.print(t)
        except RuntimeError:      # rendering the traceback itself raised: the model says Crash
            return [lineno, -1]
        text = c.file.getvalue()
    finally:
        shutil.rmtree(d, ignore_errors=True)
    # split the panel into frames of our file: header "│ <path>:<lineno> in <name>", blank, code block
    rows = []
    for l in text.split("\n"):
        if l.startswith("│ ") and l.endswith("│"):
            rows.append(l[2:-1].rstrip(" "))
    blocks = []
    i = 0
    while i < len(rows):
        r = rows[i]
        if r.startswith(path + ":"):
            no = int(r[len(path) + 1:].split(" ")[0])
            j = i + 1
            if j < len(rows) and rows[j] == "":
                j += 1
            blk = []
            while j < len(rows) and rows[j] != "":
                blk.append(rows[j])
                j += 1
            blocks.append([no, [s2t(x) for x in blk]])
            i = j
        else:
            i += 1
    return blocks[idx]


def _parse_frames(text, pathmap):
    """rendered traceback -> [[file id, lineno, kind, lines]] for the frames whose file is in pathmap.
    kind 0 = code block, 1 = header only, 2 = error text"""
    import re
    rows = [l[2:-1].rstrip(" ") for l in text.split("\n") if l.startswith("│ ") and l.endswith("│")]
    hdr = re.compile(r"^([/<][^ ]*):(\d+) in \S+$")
    gut = re.compile(r"^(❱ |  ) *\d+( |$)")
    heads = [(i, hdr.match(r)) for i, r in enumerate(rows) if hdr.match(r)]
    out = []
    for n, (i, m) in enumerate(heads):
        end = heads[n + 1][0] if n + 1 < len(heads) else len(rows)
        body = rows[i + 1:end]
        while body and body[0] == "":
            body.pop(0)
        while body and body[-1] == "":
            body.pop()
        fid = pathmap.get(m.group(1))
        if fid is None:
            continue
        if not body:
            kind, lines = (1 if m.group(1).startswith("<") else 0), []
        elif gut.match(body[0]):
            kind, lines = 0, body
        else:
            kind, lines = 2, []
        out.append([fid, int(m.group(2)), kind, [s2t(x) for x in lines]])
    return out


def _tbtwice(arg):
    import shutil, tempfile
    from rich.traceback import Traceback
    (sa, ma), (sb, mb), hsrc, hstate, _entries, extra, transparent, guides, W = arg
    d = tempfile.mkdtemp(prefix="c17_", dir="/tmp")
    P, H = os.path.join(d, "m.py"), os.path.join(d, "h.py")
    pathmap = {P: 0, H: 1, "/" + H_REL: 1, S_NAME: 2}      # rich._IMPORT_CWD is "/" in the runner
    res = []
    try:
        with open(H, "w", encoding="utf-8") as f:
            f.write(t2s(hsrc))
        hns = {}
        exec(compile(t2s(hsrc), H_REL if hstate == 3 else H, "exec"), hns)
        for step, (src, mode) in enumerate([(sa, ma), (sb, mb)]):
            with open(P, "w", encoding="utf-8") as f:      # the same path, rewritten for the second render
                f.write(t2s(src))
            if step == 1:
                if hstate == 1:
                    os.remove(H)
                elif hstate == 2:
                    with open(H, "w", encoding="utf-8") as f:
                        f.write("\n\n# moved\n" + t2s(hsrc))
            et, ev, tb = run_generated(t2s(src), P, mode, {"helper": hns["helper"]})
            t = Traceback.from_exception(et, ev, tb, width=W, extra_lines=extra, theme=THEMES[transparent],
                                         indent_guides=bool(guides))
            c = _console(W + 10)
            c.print(t)
            res.append([x[1:] + [x[0]] for x in _parse_frames(c.file.getvalue(), pathmap)])
    finally:
        shutil.rmtree(d, ignore_errors=True)
    return [[[lineno, kind, lines] for lineno, kind, lines, _fid in r] for r in res]


# ---------------------------------------------------------------- model side
def model_case(op, arg):
    if op == "render":
        code = t2s(arg[0]).expandtabs(arg[8])
        return op, [arg[0], tokens(code, arg[1])] + arg[2:]
    if op == "highlight":
        return op, [arg[0], tokens(t2s(arg[0]), arg[1]), arg[2]]
    if op == "tbframe":
        code = t2s(arg[0]).expandtabs(4)
        return op, [arg[0], tokens(code, 0)] + arg[2:8]
    if op == "tbtwice":
        entries, extra, transparent, guides, W = arg[4:9]
        renders = []
        for files, ents in zip(_twice_files(arg), entries):
            fl = [[s2t(n), pres, s2t(c), tokens(c.expandtabs(4), 0)[0]] for n, pres, c in files]
            renders.append([fl, s2t("/"), ents, extra, transparent, guides, W])
        return op, renders
    return op, arg


def spec_cases(op, arg, out):
    if isinstance(out, dict):
        return []
    kw = lexer_kwargs()
    lo = [1 if kw.get("stripnl", True) else 0, 1 if kw.get("ensurenl", True) else 0]
    if op == "render":
        _, marg = model_case(op, arg)
        cases = [("spec.rendered", [out[0]])]
        if marg[1]:
            code = t2s(arg[0]).expandtabs(arg[8])
            cases.append(("spec.lex_ok", lo + [s2t(code), marg[1][0]]))
        if out[0] == 0:
            for s in ("spec.lines_match", "spec.numbers_ok", "spec.range_ok", "spec.marks_ok"):
                cases.append((s, marg + [out[1]]))
        return cases
    if op == "highlight":
        toks = tokens(t2s(arg[0]), arg[1])
        cases = [("spec.rendered", [out[0]])]
        if toks:
            cases.append(("spec.lex_ok", lo + [arg[0], toks[0]]))
        if out[0] == 0:
            cases.append(("spec.highlight_ok", [arg[0], out[1], 1 if (arg[2] and toks) else 0]))
        return cases
    if op == "tbframe":
        return [("spec.failing_line", [arg[0], arg[2], arg[7], arg[6], out[1] if isinstance(out[1], list) else []]),
                ("spec.frame_lineno", [arg[2], out[0]])]
    if op == "tbtwice":
        if not (isinstance(out, list) and all(isinstance(r, list) for r in out)):
            return [("spec.rendered", [2])]
        cases = []
        guides, W = arg[7], arg[8]
        for files, ents, blocks in zip(_twice_files(arg), arg[4], out):
            fmap = {n: (c if pres else None) for n, pres, c in files}
            if len(blocks) != len(ents):
                cases.append(("spec.rendered", [2]))
                continue
            for (fname, lineno), (no, kind, lines) in zip(ents, blocks):
                name = t2s(fname)
                shown = "/" + name if not name.startswith(("/", "<")) else name     # extract joins the import cwd
                content = fmap.get(shown)
                cases.append(("spec.frame_lineno", [lineno, no]))
                cases.append(("spec.block_ok", [s2t(shown), [] if content is None else [s2t(content)], lineno, W, guides, kind, lines]))
        return cases
    if op in ("wrap_fit", "wrapf_text"):
        return [("spec.wrap_ok", [arg[0], arg[1], out])]
    return []


def describe(op, arg):
    try:
        if op == "render":
            return repr((t2s(arg[0]), LEXERS[arg[1]]) + tuple(arg[2:]))
        if op == "highlight":
            return repr((t2s(arg[0]), LEXERS[arg[1]], arg[2]))
        if op == "tbframe":
            return repr((t2s(arg[0]),) + tuple(arg[2:]))
    except Exception:
        pass
    return None
