"""Layer `measure` (C09): the measurement half of the layout layer.  Same renderable trees, wire format, model driver
(DrvLayout) and implementation glue as tools/corr/l_layout.py; its own generator and corpus (corpus/measure)."""
import l_layout
from l_layout import impl, spec_cases, describe, build, console, lines_at, outcome, FIX_D20   # noqa: F401

OPS = {"c09": {}, "c09_hist": {}, "c09_get": {}, "text_measure": {}, "text_at_max": {}}


def generate(rng, tier):
    return l_layout.generate_measure(rng, tier)
