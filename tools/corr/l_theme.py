"""Layer `theme` (C20): rich.theme (Theme, ThemeStack) and Console.push_theme / pop_theme /
use_theme / get_style, plus Theme.config -> Theme.from_file / Theme.read.

Style values are abstract tokens on the wire:
    0..255      Style.parse("color(k)")
    1000 + i    Style.parse(CATALOG[i])
    5000 + i    DEFAULT_STYLES[<i-th key, source order>]   (only ever produced by inheriting defaults)
The tables `parse_tbl` / `show_tbl` shipped with a case are the harness' claims about Style.parse /
str(style) for the strings of that case; the comparison with the implementation validates them.

A case never contains a string or a claim: names are indices into NAMES and style tokens are
normalised with norm_tok, so every shrunk case is still a well-formed case; the oracle tables and
the code-point form the model driver reads are derived from the case (model_case / wire_*).

A theme in a case is [[ [name_index, token] ... ], theme_inherit]  ==  Theme({name: style}, inherit=...).
Commands: [0, theme, inh] push_theme   [1] pop_theme   [2, theme, inh, body] with use_theme(...)
          [3, body] try/except Exception   [4] raise   [5, name, default] get_style
          (inh: 0 False, 1 True, 2 = argument omitted; name/default: [0, token] | [1, name_index]; default [] = None)
"""
import os

from common import s2t, t2s, DOC_ERRORS, CRASH_ERRORS
import common

OPS = {
    "hist": {}, "theme_init": {"res": True}, "config_text": {}, "config_rt": {"res": True}, "cp_hyp": {},
    "default_names": {}, "default_theme_rt": {"spec_only": True},
}

CATALOG = [
    "bold red", "#ff0000 on blue", "link http://x", "not bold", "italic underline color(5)",
    "rgb(1,2,3) on #aabbcc", "bold link https://example.org/a?b=c#frag", "default on default",
    "on color(200)", "underline2 frame encircle overline", "blink blink2 reverse conceal strike",
    "dim yellow on bright_black", "not italic not underline magenta",
    # '%' in a link target (needs config to escape it for configparser)
    "link http://x/%20y", "bold link file:///tmp/a%2Fb;c=d%", "link %(x)s",
]
PCT = {1000 + i for i, c in enumerate(CATALOG) if "%" in c}
# names used in themes; some collide with DEFAULT_STYLES keys, one is also a valid definition
THEME_NAMES = ["a", "k", "warn", "x.y", "info-2", "repr.number", "rule.line", "bold", "red", "color(3)", "z_9"]
SELF_NAMED = ["bold", "red", "italic", "none"]       # DEFAULT_STYLES[n] == Style.parse(n)
UNPARSEABLE = ["zzz", "foo bar", "a b", "color(300)", "bold zzz"]
PARSE_ONLY = ["color(7)", "italic", "none", "on color(200)"]
NAMES = THEME_NAMES + PARSE_ONLY + UNPARSEABLE
NT = len(THEME_NAMES)


def nm(i):
    return NAMES[i % len(NAMES)]


def norm_tok(t):
    t = abs(t)
    if t < 256 or 1000 <= t < 1000 + len(CATALOG):
        return t
    return 1000 + t % len(CATALOG)


def wire_theme(th):
    return [[[s2t(nm(p[0])), norm_tok(p[1])] for p in th[0] if len(p) == 2], th[1]]


def wire_sval(sv):
    return [0, norm_tok(sv[1])] if sv[0] == 0 else [1, s2t(nm(sv[1]))]


def wire_cmds(cmds):
    out = []
    for c in cmds:
        if c[0] == 0:
            out.append([0, wire_theme(c[1]), c[2]])
        elif c[0] == 2:
            out.append([2, wire_theme(c[1]), c[2], wire_cmds(c[3])])
        elif c[0] == 3:
            out.append([3, wire_cmds(c[1])])
        elif c[0] == 5:
            out.append([5, wire_sval(c[1]), [wire_sval(d) for d in c[2][:1]]])
        else:
            out.append([c[0]])
    return out


def _wf_theme(t):
    return (isinstance(t, list) and len(t) == 2 and isinstance(t[1], int) and isinstance(t[0], list)
            and all(isinstance(p, list) and len(p) == 2 and all(isinstance(x, int) for x in p) for p in t[0]))


def _wf_sval(sv):
    return isinstance(sv, list) and len(sv) == 2 and all(isinstance(x, int) for x in sv) and sv[0] in (0, 1)


def _wf_cmds(cmds):
    if not isinstance(cmds, list):
        return False
    for c in cmds:
        if not (isinstance(c, list) and c and isinstance(c[0], int)):
            return False
        k = c[0]
        if k == 0:
            ok = len(c) == 3 and _wf_theme(c[1]) and c[2] in (0, 1, 2)
        elif k in (1, 4):
            ok = len(c) == 1
        elif k == 2:
            ok = len(c) == 4 and _wf_theme(c[1]) and c[2] in (0, 1, 2) and _wf_cmds(c[3])
        elif k == 3:
            ok = len(c) == 2 and _wf_cmds(c[1])
        elif k == 5:
            ok = len(c) == 3 and _wf_sval(c[1]) and isinstance(c[2], list) and len(c[2]) <= 1 and all(_wf_sval(d) for d in c[2])
        else:
            ok = False
        if not ok:
            return False
    return True


def wf_case(op, arg):
    try:
        if op == "hist":
            return (len(arg) == 3 and _wf_theme(arg[0]) and _wf_cmds(arg[1]) and isinstance(arg[2], list)
                    and all(isinstance(p, int) for p in arg[2]))
        if op == "theme_init":
            return (len(arg) == 2 and arg[1] in (0, 1) and all(
                len(p) == 2 and isinstance(p[0], int) and _wf_sval(p[1]) for p in arg[0])
                and len({nm(p[0]) for p in arg[0]}) == len(arg[0]))
        if op == "config_text":
            return len(arg) == 1 and _wf_theme(arg[0])
        if op == "config_rt":
            return len(arg) == 3 and _wf_theme(arg[0]) and arg[1] in (0, 1) and arg[2] in (0, 1)
        if op == "cp_hyp":
            return all(len(p) == 2 and all(isinstance(x, list) and all(isinstance(c, int) for c in x) for x in p) for p in arg)
        return arg == []
    except Exception:
        return False


def quiet_cmd(c):
    """model/Theme.v `quiet`: cannot raise (given that pops are matched)"""
    if c[0] in (0, 1, 3):
        return True
    if c[0] == 2:
        return all(quiet_cmd(x) for x in c[3])
    if c[0] == 5:
        return c[1][0] == 0
    return False


def balanced(cmds):
    """model/Theme.v `bal`: explicit push ... pop pairs enclose only commands that cannot raise;
    use_theme / try blocks have balanced bodies"""
    opened = 0
    for c in cmds:
        k = c[0]
        if k == 0:
            opened += 1
        elif k == 1:
            if opened == 0:
                return False
            opened -= 1
        else:
            if k == 2 and not balanced(c[3]):
                return False
            if k == 3 and not balanced(c[1]):
                return False
            if opened > 0 and not quiet_cmd(c):
                return False
    return opened == 0


def balanced_after(cmds):
    """smallest k such that cmds = k top-level pushes ++ a balanced history, or None"""
    k = 0
    while True:
        if balanced(cmds[k:]):
            return k
        if k < len(cmds) and cmds[k][0] == 0:
            k += 1
        else:
            return None


def _default_names():
    """keys of DEFAULT_STYLES in dict order, as the translator extracted them from the source
    (coq/gen/ThemeFacts.v, regenerated at the start of every check; rich is not imported here
    because this also runs in the checker process).  impl() verifies it against the live dict."""
    import re
    path = os.path.join(common.VERIF, "coq", "gen", "ThemeFacts.v")
    text = open(path, encoding="utf-8").read()
    text = text[text.index("Definition default_style_names"):]
    body = text[text.index(":=") + 2:text.index("].") + 1]
    return ["".join(chr(int(x)) for x in re.findall(r"\d+", m)) for m in re.findall(r"\[([0-9; ]*)\]", body.strip()[1:])]


_DN = []


def dnames():
    if not _DN:
        _DN.extend(_default_names())
    return _DN


def tok_of_def(s):
    """the harness' claim about Style.parse(s): token or None"""
    if s.startswith("color(") and s.endswith(")") and s[6:-1].isdigit() and int(s[6:-1]) < 256:
        return int(s[6:-1])
    if s in CATALOG:
        return 1000 + CATALOG.index(s)
    if s in SELF_NAMED and s in dnames():
        return 5000 + dnames().index(s)
    return None


def show_of_tok(t):
    return f"color({t})" if t < 256 else CATALOG[t - 1000]


def parse_tbl(strings):
    out = []
    for s in dict.fromkeys(strings):
        t = tok_of_def(s)
        if t is not None:
            out.append([s2t(s), t])
    return out


# ---------------------------------------------------------------- generation
DEFS = CATALOG + ["color(1)", "color(254)", "bold", "none"] + UNPARSEABLE[:3]
ALPHA_N = "abcxyz019_.-"
ALPHA_V = "abAB019 =:;#[]%()/,.-_\\\"'!?*"
VALUES = CATALOG + ["color(9)", "none", "%", "%%", "a%%b", "%(a)s", "x = y", "[styles]", "# c", "; c"]


def rtok(rng, pct=True):
    while True:
        t = rng.choice([rng.randint(0, 255), rng.randint(0, 8), 1000 + rng.randrange(len(CATALOG))])
        if pct or t not in PCT:
            return t


def rtheme(rng, inherit_defaults_p=0.25, pct=True):
    n = rng.choice([0, 1, 1, 2, 3, 5])
    ks = rng.sample(range(NT), min(n, NT))
    return [[[k, rtok(rng, pct)] for k in ks], 1 if rng.random() < inherit_defaults_p else 0]


def rsval(rng, names):
    if rng.random() < 0.2:
        return [0, rtok(rng)]
    return [1, rng.choice(names)]


def rget(rng, names, quiet=False):
    d = [] if rng.random() < 0.5 else [rsval(rng, names)]
    if quiet:      # cannot raise: the name is a Style object
        return [5, [0, rtok(rng)], d]
    return [5, rsval(rng, names), d]


def rinh(rng):
    return rng.choice([0, 0, 1, 1, 2])


def gen_balanced(rng, depth, names, quiet=False, maxlen=4):
    """commands after which the stack is as before, whatever raises (model/Theme: `bal`)"""
    out = []
    for _ in range(rng.randint(0, maxlen)):
        r = rng.random()
        if depth <= 0 or r < 0.25:
            if not quiet and rng.random() < 0.25:
                out.append([4])
            else:
                out.append(rget(rng, names, quiet))
        elif r < 0.5:
            out.append([2, rtheme(rng), rinh(rng), gen_balanced(rng, depth - 1, names, quiet)])
        elif r < 0.65:
            out.append([3, gen_balanced(rng, depth - 1, names, False)])
        else:
            out.append([0, rtheme(rng), rinh(rng)])
            out += gen_balanced(rng, depth - 1, names, True)
            out.append([1])
    return out


def gen_any(rng, depth, names, maxlen=6):
    out = []
    for _ in range(rng.randint(0, maxlen)):
        r = rng.random()
        if r < 0.3:
            out.append([0, rtheme(rng), rinh(rng)])
        elif r < 0.55:
            out.append([1])
        elif r < 0.7:
            out.append(rget(rng, names))
        elif r < 0.75:
            out.append([4])
        elif depth > 0 and r < 0.9:
            out.append([2, rtheme(rng), rinh(rng), gen_any(rng, depth - 1, names, 4)])
        elif depth > 0:
            out.append([3, gen_any(rng, depth - 1, names, 4)])
    return out


def names_in(cmds, acc):
    """names (indices) mentioned by a history"""
    for c in cmds:
        if c[0] in (0, 2):
            acc += [p[0] for p in c[1][0]]
        if c[0] == 2:
            names_in(c[3], acc)
        if c[0] == 3:
            names_in(c[1], acc)
        if c[0] == 5:
            for sv in [c[1]] + c[2]:
                if sv[0] == 1:
                    acc.append(sv[1])
    return acc


def rhist(rng):
    pool = rng.sample(range(NT), rng.randint(2, 6)) + rng.sample(range(NT, len(NAMES)), rng.randint(1, 4))
    base = rtheme(rng, 0.3)
    depth = rng.choice([1, 2, 2, 3])
    if rng.random() < 0.5:
        k = rng.choice([0, 0, 1, 2, 3])
        prefix = [[0, rtheme(rng), rinh(rng)] for _ in range(k)]
        cmds = prefix + gen_balanced(rng, depth, pool, maxlen=rng.choice([2, 4, 6]))
    else:
        cmds = gen_any(rng, depth, pool, rng.choice([3, 6, 10, 20]))
    used = names_in(cmds, [p[0] for p in base[0]])
    probes = rng.sample(pool, min(len(pool), rng.randint(1, 5))) + rng.sample(used, min(len(used), 3))
    return [base, cmds, list(dict.fromkeys(probes))]


def ritems(rng):
    """items for the configparser hypothesis: [[name char indices], [value char indices | -(k+1) = VALUES[k]]]"""
    items = []
    for _ in range(rng.choice([0, 1, 2, 3, 6])):
        name = [rng.randrange(len(ALPHA_N)) for _ in range(rng.randint(1, 8))]
        if rng.random() < 0.4:
            v = [-(rng.randrange(len(VALUES)) + 1)]
        else:
            v = [rng.randrange(len(ALPHA_V)) for _ in range(rng.randint(1, 12))]
        items.append([name, v])
    return items


def wire_items(arg):
    """-> [(name, value)] inside the domain of the hypothesis: names non-empty over [a-z0-9_.-] and
    distinct; values non-empty printable ASCII without leading/trailing blank"""
    items = {}
    for n, v in arg:
        name = "".join(ALPHA_N[abs(i) % len(ALPHA_N)] for i in n) or "n"
        if v and v[0] < 0:
            val = VALUES[(-v[0] - 1) % len(VALUES)]
        else:
            val = "".join(ALPHA_V[abs(i) % len(ALPHA_V)] for i in v).strip(" ") or "v"
        items[name] = val
    return list(items.items())


def generate(rng, tier):
    k = 1 if tier == "quick" else 40
    cases = [("default_names", []), ("default_theme_rt", [])]
    for _ in range(2600 * k):
        cases.append(("hist", rhist(rng)))
    for _ in range(300 * k):
        pairs = []
        for name in rng.sample(range(NT), rng.choice([0, 1, 2, 4])):
            if rng.random() < 0.4:
                pairs.append([name, [0, rtok(rng)]])
            else:
                pairs.append([name, [1, rng.randrange(len(DEFS))]])
        cases.append(("theme_init", [pairs, rng.randint(0, 1)]))
    for _ in range(500 * k):
        th = rtheme(rng, 0.0, pct=rng.random() < 0.5)
        cases.append(("config_text", [th]))
        cases.append(("config_rt", [th, rng.randint(0, 1), rng.randint(0, 1)]))
    for _ in range(400 * k):
        cases.append(("cp_hyp", ritems(rng)))
    return cases


# ---------------------------------------------------------------- case -> wire form (code points, normalised tokens)
def to_wire(op, arg):
    if op == "hist":
        return [wire_theme(arg[0]), wire_cmds(arg[1]), [s2t(nm(p)) for p in arg[2]]]
    if op == "theme_init":
        return [[[s2t(nm(n)), [0, norm_tok(sv[1])] if sv[0] == 0 else [1, s2t(DEFS[sv[1] % len(DEFS)])]] for n, sv in arg[0]],
                arg[1]]
    if op == "config_text":
        return [wire_theme(arg[0])]
    if op == "config_rt":
        return [wire_theme(arg[0]), arg[1], arg[2]]
    if op == "cp_hyp":
        return [[s2t(n), s2t(v)] for n, v in wire_items(arg)]
    return arg


def wire_names(cmds, acc):
    for c in cmds:
        if c[0] in (0, 2):
            acc += [t2s(p[0]) for p in c[1][0]]
        if c[0] == 2:
            wire_names(c[3], acc)
        if c[0] == 3:
            wire_names(c[1], acc)
        if c[0] == 5:
            for sv in [c[1]] + c[2]:
                if sv[0] == 1:
                    acc.append(t2s(sv[1]))
    return acc


def hist_ptbl(w):
    base, cmds, probes = w
    return parse_tbl([t2s(p) for p in probes] + wire_names(cmds, [t2s(p[0]) for p in base[0]]))


def _tables(th):
    toks = list(dict.fromkeys(p[1] for p in th[0]))
    return [[t, s2t(show_of_tok(t))] for t in toks], [[s2t(show_of_tok(t)), t] for t in toks]


def model_case(op, arg):
    """what the model driver reads: the wire form preceded by the oracle tables (the harness'
    claims about Style.parse / str(style) on the strings of the case).  They are derived from the
    case here, so that shrinking a case never shrinks a claim."""
    if not wf_case(op, arg):
        return ("ill_res" if OPS.get(op, {}).get("res") else "ill"), []   # impl() answers the same
    w = to_wire(op, arg)
    if op == "hist":
        return op, [hist_ptbl(w)] + w
    if op == "theme_init":
        return op, [parse_tbl([t2s(sv[1]) for _, sv in w[0] if sv[0] == 1])] + w
    if op == "config_text":
        return op, [_tables(w[0])[0]] + w
    if op == "config_rt":
        show, ptbl = _tables(w[0])
        return op, [show, ptbl] + w
    return op, w


# ---------------------------------------------------------------- known-finding matchers
def _uses_noinherit_ctx(cmds):
    for c in cmds:
        if c[0] == 2 and (c[2] == 0 or _uses_noinherit_ctx(c[3])):
            return True
        if c[0] == 3 and _uses_noinherit_ctx(c[1]):
            return True
    return False


def kf_d6(op, arg):
    """D6: use_theme(th, inherit=False) still inherits"""
    return op == "hist" and wf_case(op, arg) and _uses_noinherit_ctx(arg[1])


def kf_pct(op, arg):
    """a style definition containing '%' does not survive Theme.config -> from_file"""
    if op not in ("config_text", "config_rt") or not wf_case(op, arg):
        return False
    return any(norm_tok(p[1]) in PCT for p in arg[0][0])


# ---------------------------------------------------------------- implementation side
_cache = {}


def _universe():
    if "u" not in _cache:
        from rich.style import Style
        from rich.default_styles import DEFAULT_STYLES
        cat = [Style.parse(c) for c in CATALOG]
        for n in set(NAMES + SELF_NAMED) & set(DEFAULT_STYLES):
            if any(c == DEFAULT_STYLES[n] for c in cat):
                raise RuntimeError(f"harness: catalogue style equals DEFAULT_STYLES[{n!r}]")
        for i, c in enumerate(CATALOG):
            if str(cat[i]) != c:
                raise RuntimeError(f"harness: catalogue entry {c!r} is not in normal form ({str(cat[i])!r})")
        for n in SELF_NAMED:
            if Style.parse(n) != DEFAULT_STYLES[n]:
                raise RuntimeError(f"harness: Style.parse({n!r}) != DEFAULT_STYLES[{n!r}]")
        if list(DEFAULT_STYLES) != dnames():
            raise RuntimeError("harness: DEFAULT_STYLES keys differ from the translator's list (coq/gen/ThemeFacts.v)")
        _cache["u"] = cat
    return _cache["u"]


def _style(tok):
    from rich.style import Style
    from rich.default_styles import DEFAULT_STYLES
    cat = _universe()
    if tok < 256:
        return Style.parse(f"color({tok})")
    if tok < 5000:
        return cat[tok - 1000]
    return DEFAULT_STYLES[dnames()[tok - 5000]]


def _tok(style, hints=()):
    from rich.style import Style
    from rich.default_styles import DEFAULT_STYLES
    cat = _universe()
    for h in hints:
        if h in DEFAULT_STYLES and style == DEFAULT_STYLES[h]:
            return 5000 + dnames().index(h)
    c = style.color
    if c is not None and c.number is not None and style == Style.parse(f"color({c.number})"):
        return c.number
    for i, s in enumerate(cat):
        if s == style:
            return 1000 + i
    for n in SELF_NAMED:       # Style.parse(n), the same value as DEFAULT_STYLES[n]
        if style == DEFAULT_STYLES[n]:
            return 5000 + dnames().index(n)
    return -1


def _theme(t):
    from rich.theme import Theme
    return Theme({t2s(n): _style(tok) for n, tok in t[0]}, inherit=bool(t[1]))


def _sval(sv):
    return _style(sv[1]) if sv[0] == 0 else t2s(sv[1])


class _UserError(Exception):
    pass


def _exc_code(e):
    name = type(e).__name__
    if isinstance(e, _UserError):
        return 100
    if name in DOC_ERRORS:
        return DOC_ERRORS[name]
    return 1000 + CRASH_ERRORS.get(name, 99)


def _res_of(fn, hints):
    try:
        return [0, _tok(fn(), hints)]
    except Exception as e:  # noqa
        name = type(e).__name__
        if name in DOC_ERRORS:
            return [1, DOC_ERRORS[name]]
        return [2, CRASH_ERRORS.get(name, 99)]


def _snap(console, probes):
    return [_res_of(lambda p=p: console.get_style(p), [p]) for p in probes]


def _run(console, cmds, probes, obs):
    for c in cmds:
        k = c[0]
        if k == 0:
            if c[2] == 2:
                console.push_theme(_theme(c[1]))
            else:
                console.push_theme(_theme(c[1]), inherit=bool(c[2]))
            obs.append([0, _snap(console, probes)])
        elif k == 1:
            try:
                console.pop_theme()
            finally:
                obs.append([0, _snap(console, probes)])
        elif k == 2:
            cm = console.use_theme(_theme(c[1])) if c[2] == 2 else console.use_theme(_theme(c[1]), inherit=bool(c[2]))
            try:
                with cm:
                    obs.append([0, _snap(console, probes)])
                    _run(console, c[3], probes, obs)
            finally:
                obs.append([0, _snap(console, probes)])
        elif k == 3:
            try:
                _run(console, c[1], probes, obs)
            except Exception:  # noqa
                pass
        elif k == 4:
            raise _UserError()
        elif k == 5:
            name = _sval(c[1])
            hints = [x for x in [name] + ([_sval(c[2][0])] if c[2] else []) if isinstance(x, str)]
            err = []

            def call():
                try:
                    if c[2]:
                        return console.get_style(name, default=_sval(c[2][0]))
                    return console.get_style(name)
                except Exception as e:  # noqa
                    err.append(e)
                    raise
            obs.append([1, _res_of(call, hints)])
            if err:
                raise err[0]
        else:
            raise ValueError("bad command")


def _console(base):
    import io
    from rich.console import Console
    return Console(file=io.StringIO(), width=80, force_terminal=False, color_system=None,
                   legacy_windows=False, _environ={}, theme=_theme(base))


def _sorted_styles(theme):
    return [[s2t(n), _tok(s, [n])] for n, s in sorted(theme.styles.items())]


def impl(op, arg):
    import io
    from rich.theme import Theme, ThemeStackError
    from rich.default_styles import DEFAULT_STYLES
    if not wf_case(op, arg):
        if OPS.get(op, {}).get("res"):
            raise KeyError("ill-formed case")
        return []
    arg = to_wire(op, arg)
    if op == "hist":
        base, cmds, probes = arg
        probes = [t2s(p) for p in probes]
        console = _console(base)
        init = _snap(console, probes)
        obs = []
        exc = 0
        try:
            _run(console, cmds, probes, obs)
        except Exception as e:  # noqa
            exc = _exc_code(e)
        n = 0
        while n < 10000:
            try:
                console.pop_theme()
            except ThemeStackError:
                break
            n += 1
        return [obs, exc, n, _snap(console, probes), init]
    if op == "theme_init":
        pairs, inherit = arg
        th = Theme({t2s(n): _sval(sv) for n, sv in pairs}, inherit=bool(inherit))
        return _sorted_styles(th)
    if op == "config_text":
        return s2t(_theme(arg[0]).config)
    if op == "config_rt":
        th, read_inherit, via_file = arg
        text = _theme(th).config
        if via_file:
            import tempfile
            fd, path = tempfile.mkstemp(suffix=".ini", prefix="verif_c20_")
            try:
                with os.fdopen(fd, "wt") as f:
                    f.write(text)
                th2 = Theme.read(path, inherit=bool(read_inherit))
            finally:
                os.remove(path)
        else:
            th2 = Theme.from_file(io.StringIO(text), inherit=bool(read_inherit))
        return _sorted_styles(th2)
    if op == "cp_hyp":
        import configparser
        items = [(t2s(n), t2s(v)) for n, v in arg]
        text = "[styles]\n" + "\n".join(f"{n} = {v.replace('%', '%%')}" for n, v in items)
        cfg = configparser.ConfigParser()
        try:
            cfg.read_file(io.StringIO(text))
            back = [[[s2t(n), s2t(v)] for n, v in cfg.items("styles")]]
        except configparser.Error:
            back = []
        return [s2t(text), back]
    if op == "default_names":
        return [s2t(n) for n in DEFAULT_STYLES]
    if op == "default_theme_rt":
        t = Theme()
        t2 = Theme.from_file(io.StringIO(t.config), inherit=False)
        t3 = Theme.from_file(io.StringIO(t.config))
        return [1 if t2.styles == t.styles else 0, 1 if t3.styles == t.styles else 0,
                [s2t(n) for n in t.styles], [s2t(str(s)) for s in t.styles.values()]]
    raise KeyError(op)


# ---------------------------------------------------------------- spec checkers on the implementation's output
def spec_cases(op, arg, out):
    if isinstance(out, dict) or not wf_case(op, arg):
        return []
    cases = []
    w = to_wire(op, arg)
    if op == "hist":
        base, cmds, probes = w
        ptbl = hist_ptbl(w)
        obs, exc, npops, final, init = out
        cases.append(("spec.lookup_ok", [ptbl, base, cmds, probes, obs, exc]))
        cases.append(("spec.base_ok", [ptbl, base, probes, final]))
        k = balanced_after(arg[1])
        if k is not None:
            # k plain pushes, then a balanced history: every lookup is what it was after the k-th
            # push, and exactly those k entries are left above the base
            snaps = [init] + [o[1] for o in obs if o[0] == 0]
            cases.append(("spec.restored", [snaps[k], snaps[-1]]))
            cases.append(("spec.restored", [[[0, npops]], [[0, k]]]))
    elif op == "config_rt":
        if out[0] != 0:
            cases.append(("spec.is_ok", out))
        elif arg[1] == 0:
            cases.append(("spec.config_rt", [w[0], out[1]]))
        else:
            own = {t2s(n) for n, _ in w[0][0]}
            cases.append(("spec.config_rt", [w[0], [p for p in out[1] if t2s(p[0]) in own]]))
    elif op == "cp_hyp":
        cases.append(("spec.items_ok", w))
    elif op == "default_theme_rt":
        cases.append(("spec.restored", [[[0, out[0]], [0, out[1]]], [[0, 1], [0, 1]]]))
        cases.append(("spec.names_ok", out[2]))
        for v in out[3]:
            cases.append(("spec.value_ok", v))
    return cases


def describe(op, arg):
    try:
        if not wf_case(op, arg):
            return "(ill-formed)"
        w = to_wire(op, arg)
        if op == "hist":
            def th(t):
                return "Theme({%s}, inherit=%s)" % (", ".join(f"{t2s(n)!r}: T{v}" for n, v in t[0]), bool(t[1]))

            def sv(x):
                return f"T{x[1]}" if x[0] == 0 else repr(t2s(x[1]))

            def cs(cmds):
                out = []
                for c in cmds:
                    if c[0] == 0:
                        out.append(f"push({th(c[1])}, inherit={c[2]})")
                    elif c[0] == 1:
                        out.append("pop()")
                    elif c[0] == 2:
                        out.append(f"with use_theme({th(c[1])}, inherit={c[2]}): [{cs(c[3])}]")
                    elif c[0] == 3:
                        out.append(f"try: [{cs(c[1])}]")
                    elif c[0] == 4:
                        out.append("raise")
                    else:
                        out.append(f"get_style({sv(c[1])}" + (f", default={sv(c[2][0])})" if c[2] else ")"))
                return "; ".join(out)
            return f"base={th(w[0])}; {cs(w[1])}; probes={[t2s(p) for p in w[2]]}"
        if op == "cp_hyp":
            return repr([(t2s(n), t2s(v)) for n, v in w])
        if op in ("config_text", "config_rt"):
            return repr([(t2s(n), show_of_tok(t)) for n, t in w[0][0]]) + repr(arg[1:])
    except Exception:
        pass
    return None
