"""Layer `live` (C10): Live / Progress / Status display histories, the terminal oracle, control codes.

ops
  term   [H, bytes]                       coq TermGrid.interp  vs  tools/vt100.py  (oracle vs oracle)
  codes  [w, h] | []                      LiveRender.position_cursor / restore_cursor strings
  run    [cfg, f0, mode, pre, ops, tags]  a history; result [bytes, raised, hooks, redirected, started, offsets,
                                          [redirected?, started?] after every op]
         cfg  = [progress, transient, overflow(0 crop,1 ellipsis,2 visible), W, H, [k]?, [k]?, kind, base]
                base 1: the injected exception is a KeyboardInterrupt (not an Exception subclass)
                kind 0 Live, 1 Progress, 2 Status; the two options are fault indices (render / build)
         mode = 0 free-form history up to the first exception, 1 `with display:` block (pre = lines printed
                before it), 2 free-form where the caller catches every exception and goes on (sessions after
                a faulted stop())
         ops  = [0,lines] print | [1,lines] log | [2] print(raising) | [3,frame,refresh] update |
                [4] refresh | [5] start | [6] stop |
                Progress only: [7,lines,newframe] add_task | [8,i,newframe] remove_task |
                [9,i,vis,newframe] update(visible=) | [10,i] advance
         tags = codes of the known finding / excluded class the case is a witness of (23 = D23, 24 = restart,
                1 = Progress taller than the page, 2 = visible overflow): spec checks skipped, bytes compared
"""
import io, os, sys
from common import s2t, t2s

sys.path.insert(0, os.path.join(os.path.dirname(os.path.dirname(os.path.abspath(__file__)))))

OPS = {"term": {}, "codes": {}, "run": {}}

BUDGET = 10000
# Status: (spinner name, first frame) -- the clock of the test console stands still, so frame 0 is shown
SPINNERS = [("dots", [0x280B]), ("line", [0x2D]), ("star", [0x2736]), ("simpleDots", [0x2E, 32, 32]),
            ("dots12", [0x2880, 0x2800])]


# ------------------------------------------------------------------ generators
TEXT = "abcxyzABC019 .-_#"
WIDE = "あ中\U0001f600"
ZERO = "́​"


def rline(rng, maxw):
    """a text line of at most maxw cells (wide = 2 cells, combining = 0)"""
    target = rng.choice([0, 1, 2, 3, 3, 5, maxw // 2, maxw - 1, maxw, rng.randint(0, maxw)])
    target = max(0, min(target, maxw))
    out, w = [], 0
    while w < target:
        r = rng.random()
        if r < 0.12 and w + 2 <= target:
            out.append(rng.choice(WIDE)); w += 2
        elif r < 0.16 and out:
            out.append(rng.choice(ZERO))
        else:
            out.append(rng.choice(TEXT)); w += 1
    return "".join(out)


def rframe(rng, h, maxw):
    return [s2t(rline(rng, maxw)) for _ in range(h)]


def rheight(rng, H, cap):
    """frame heights around every boundary: empty, one, fits, exactly H, exceeds"""
    h = rng.choice([0, 0, 1, 1, 2, 3, H - 2, H - 1, H, H + 1, H + 3, rng.randint(0, H + 3)])
    return max(0, min(h, cap))


def gen_history(rng, kind, mode, faulty, maxops=40):
    W = rng.choice([6, 12, 20, 40])
    H = rng.choice([5, 8, 30])
    progress = 1 if kind == 1 else 0
    transient = 1 if kind == 2 else rng.randint(0, 1)
    ovf = 1 if kind == 2 else rng.choice([0, 1, 2])
    lw = W - 4 if kind == 2 else W        # Status puts the spinner (<= 3 cells) and a blank in front
    # excluded input classes (notes/C10.md): `visible` overflow and Progress have no overflow
    # handling (documented upstream); a transient display must end with a frame shorter than the
    # screen (D23); keep every frame below the bound so that a fault at any point is covered too
    # -- both classes are generated again as soon as the code under test repairs them (T3 facts)
    F = facts()
    cap = H + 3
    if (kind == 0 and ovf == 2) or (kind == 1 and not F["live_render_crops_to_page"]):
        cap = H
    if transient and not (kind != 1 and ovf != 2 and F["live_transient_final_room"]
                          and F["live_stop_visible_unless_transient"]):
        cap = min(cap, H - 1)
    restart_ok = F["live_stop_resets_shape"] and F["progress_stop_resets_shape"] and F["live_stop_restores_overflow"]
    fr = fb = []
    n = rng.choice([3, 8, 15, 25, maxops])
    f0 = rframe(rng, rheight(rng, H, cap), lw)
    ops = []
    tasks = []      # Progress: [lines, visible] of the extra tasks, task 0 holds the generic frame
    base = list(f0)

    def frame_now():
        f = list(base)
        for ls, v in tasks:
            if v:
                f += ls
        return f

    def body_op():
        r = rng.random()
        if r < 0.28:
            return [0, rframe(rng, rng.choice([0, 1, 1, 2, 3, H + 1]), W)]
        if r < 0.36:
            return [1, rframe(rng, rng.choice([0, 1, 2]), W)]
        if r < 0.40 and faulty:
            return [2]
        if r < 0.75:
            f = rframe(rng, rheight(rng, H, cap), lw)
            if kind == 1:
                base[:] = f
                for t in tasks:
                    t[1] = 0
            if kind == 2:     # Status.update(status=..., spinner=...?) always refreshes
                return [3, f, 1] + ([rng.randrange(len(SPINNERS))] if rng.random() < 0.3 else [])
            return [3, f, rng.randint(0, 1)]
        if r < 0.85:
            return [4]
        if r < 0.88:
            return [5]     # start while started: no-op
        # (not when the caller goes on after an exception: add_task() whose refresh raises has stored the
        #  task but neither returned nor advanced the id -- the harness could not address it afterwards)
        if kind == 1 and mode != 2:
            k = rng.random()
            if k < 0.4 and len(tasks) < 4:
                room = cap - len(frame_now())
                if room >= 1:
                    ls = rframe(rng, rng.randint(1, min(2, room)), lw)
                    tasks.append([ls, 1])
                    return [7, ls, frame_now()]
            if k < 0.55 and tasks:
                i = rng.randrange(len(tasks))
                tasks.pop(i)
                return [8, i, frame_now()]
            if k < 0.8 and tasks:
                i = rng.randrange(len(tasks))
                v = rng.randint(0, 1)
                if v and not tasks[i][1] and len(frame_now()) + len(tasks[i][0]) > cap:
                    v = 0
                tasks[i][1] = v
                return [9, i, v, frame_now()]
            if tasks:
                return [10, rng.randrange(len(tasks))]
        return [4]

    # keep the byte string of one case below ~BUDGET characters (the shared wire parser is
    # was quadratic once; the interpreter costs ~40us per character); histories of 40 ops still occur with small frames
    budget = [BUDGET]

    def body_ops(n):
        out = []
        for _ in range(n):
            o = body_op()
            f = frame_now() if kind == 1 else (o[1] if o[0] == 3 else cur_frame[0])
            if o[0] == 3:
                cur_frame[0] = o[1]
            wmax = max([len(l) for l in f] + [0])
            if kind == 1:
                hmax[0] = max(hmax[0], len(f)); wmx[0] = max(wmx[0], wmax)
                fsize = hmax[0] * (wmx[0] + 10)
            else:
                fsize = sum(len(l) + 10 for l in f[:H]) + (W if len(f) > H else 0) + (2 * len(f[:H]) if kind == 2 else 0)
            cost = fsize
            if o[0] == 0:
                cost += sum(len(l) + 1 for l in o[1])
            if o[0] == 1:
                cost += (W + 1) * max(1, len(o[1]))
            if o[0] == 3 and not o[2]:
                cost = 0
            if o[0] in (2, 5, 10):
                cost = 0
            budget[0] -= cost
            out.append(o)
            if budget[0] < 0:
                break
        return out

    cur_frame = [f0]
    hmax, wmx = [len(f0)], [max([len(l) for l in f0] + [0])]
    pre = []
    if mode == 1:
        pre = [rframe(rng, rng.choice([1, 2]), W) for _ in range(rng.choice([0, 1, 3, H]))]
        ops = body_ops(n)
    elif mode == 2:
        # session; stop (which may be the faulted call); the same display again with a tall frame;
        # nothing is printed between a stop() and the next start(): a faulted stop leaves its frame
        # on the screen without a final new line
        for _ in range(rng.choice([0, 1, 2])):
            ops.append([0, rframe(rng, rng.choice([1, 2]), W)])
        ops.append([5])
        ops += body_ops(rng.choice([0, 1, 3, 6]))
        for _ in range(rng.choice([1, 1, 2])):
            ops.append([6])
            if rng.random() < 0.3:
                ops.append([6])
            ops.append([5])
            tall = rframe(rng, max(0, min(cap, H + rng.choice([0, 1, 3]))), lw)
            if kind == 1:
                base[:] = tall
                for t in tasks:
                    t[1] = 0
            ops.append([3, tall, 1])
            cur_frame[0] = tall
            ops += body_ops(rng.choice([1, 2, 5]))
        if rng.random() < 0.8:
            ops.append([6])
    else:
        for _ in range(rng.choice([0, 0, 1, 3, H + 1])):   # before start: plain prints, silent updates
            ops.append(rng.choice([[0, rframe(rng, rng.choice([1, 2]), W)], [4]]))
        ops.append([5])
        ops += body_ops(n)
        if rng.random() < 0.85:
            ops.append([6])
            for _ in range(rng.choice([0, 0, 1, 2])):        # after stop: plain again
                ops.append(rng.choice([[0, rframe(rng, 1, W)], [4], [6]]))
            if restart_ok and rng.random() < 0.4:            # a second (third) session of the same display
                for _ in range(rng.choice([1, 1, 2])):
                    ops.append([5])
                    ops += body_ops(rng.choice([1, 3, 6]))
                    if rng.random() < 0.8:
                        ops.append([6])
        ops = ops[:maxops]
    case = [[progress, transient, ovf, W, H, fr, fb, kind, 0], f0, mode, pre, ops, []]
    return case


_FACTS = {}


def facts():
    """T3 facts about the tree under test, as compiled into this property's model driver (op `facts`);
    coq/gen is shared between concurrent checks, the driver is not"""
    if not _FACTS:
        names = ["progress_start_guarded", "live_stop_visible_unless_transient", "live_stop_restores_overflow",
                 "live_stop_resets_shape", "progress_stop_resets_shape", "live_transient_final_room",
                 "live_render_crops_to_page"]
        vals = None
        try:
            import common
            r = common.run_model([("facts", [])], nproc=1)[0]
            if isinstance(r, list) and len(r) == len(names):
                vals = r
        except Exception:
            vals = None
        if vals is None:   # no driver (stand-alone use): the as-found behaviour, i.e. avoid both classes
            vals = [0] * len(names)
        _FACTS.update({n: bool(v) for n, v in zip(names, vals)})
    return _FACTS


# ---- matchers of the known findings (known_findings.json: "matcher"): exactly the input classes
def _frames_of(arg):
    cfg, f0, mode, pre, ops, tags = arg
    out = [f0]
    for o in ops:
        if o[0] == 3:
            out.append(o[1])
        elif o[0] in (7, 8):
            out.append(o[2])
        elif o[0] == 9:
            out.append(o[3])
    return out


def known_d23(op, arg):
    """transient display that may have to stop with a frame of >= H rows (Live/Status: some frame has
    >= H rows; Progress: the tallest frame so far has)"""
    if op != "run" or len(arg) != 6:
        return False
    cfg = arg[0]
    return bool(cfg[1]) and any(len(f) >= cfg[4] for f in _frames_of(arg))


def known_restart(op, arg):
    """start() takes effect again after a stop() that ended an earlier session of the same display"""
    if op != "run" or len(arg) != 6:
        return False
    started, stopped_once = arg[2] == 1, False
    for o in arg[4]:
        if o[0] == 5 and not started:
            if stopped_once:
                return True
            started = True
        elif o[0] == 6 and started:
            started, stopped_once = False, True
    return False


def known_progress_tall(op, arg):
    """Progress (live_render.LiveRender has no overflow handling) with a frame taller than the page"""
    if op != "run" or len(arg) != 6:
        return False
    cfg = arg[0]
    return cfg[7] == 1 and any(len(f) > cfg[4] for f in _frames_of(arg))


def known_progress_transient_full(op, arg):
    """transient Progress whose tallest frame fills the page (>= H rows): LiveRender does not know that
    the display is transient, the final new line scrolls the first row out of reach of restore_cursor"""
    if op != "run" or len(arg) != 6:
        return False
    cfg = arg[0]
    return cfg[7] == 1 and bool(cfg[1]) and any(len(f) >= cfg[4] for f in _frames_of(arg))


def with_fault(case, which, k, base=0):
    c = [list(case[0])] + case[1:]
    c[0][5] = [k] if which == "render" else []
    c[0][6] = [k] if which == "build" else []
    c[0][8] = base
    return c


def rescape(rng):
    toks = ["a", "b", "xyz", " ", "あ", "\U0001f600", "́", "\r", "\n", "\n", "\x1b[A", "\x1b[1A", "\x1b[2A",
            "\x1b[2K", "\x1b[K", "\x1b[0K", "\x1b[1K", "\x1b[2J", "\x1b[J", "\x1b[H", "\x1b[2;3H", "\x1b[9;1H",
            "\x1b[?25l", "\x1b[?25h", "\x1b[?7h", "\x1b[0m", "\x1b[1;31m", "\x1b[38;5;196m", "\x1b[38;2;1;2;3m",
            "\x1b]8;id=1;http://x\x1b\\", "\x1b]8;;\x1b\\", "\x1b]0;t\x07", "\x1b(B", "\x1b=", "\x1b[", "\x1b",
            "\x1b[12", "\x1b[?", "\x1b[1;", "\x1b[>1A", "\x1b[1 q", "\x07", "\x08", "\t", "\x7f", "\x9b", "\x00",
            "\x1b[10A", "\x1b[;H", "\x1b[0A", "\x1b[3;;2H", "\x1b[?25;1h", "\x1b[1:2m", "\x1b[2K\x1b[1A"]
    n = rng.choice([1, 3, 8, 20, 60])
    return "".join(rng.choice(toks) for _ in range(n))


def generate(rng, tier):
    k = 1 if tier == "quick" else 12
    cases = []
    for _ in range(1500 * k):
        cases.append(("term", [rng.choice([1, 2, 3, 5, 8]), s2t(rescape(rng))]))
    for h in list(range(0, 12)) + [30, 31, 100]:
        cases.append(("codes", [rng.randint(0, 80), h]))
    cases.append(("codes", []))
    # histories without faults
    for _ in range(260 * k):
        kind = rng.choice([0, 0, 1, 1, 2])
        cases.append(("run", gen_history(rng, kind, rng.choice([0, 0, 0, 1]), False)))
    # fault injection: the k-th render / build call raises, for EVERY k of a base history
    for _ in range(14 * k):
        kind = rng.choice([0, 1, 1, 2])
        base = gen_history(rng, kind, rng.choice([0, 1, 1]), True, maxops=rng.choice([6, 12]))
        nr = count_calls(base)
        for which, n in (("render", nr[0]), ("build", nr[1] if kind == 1 else 0)):
            for j in range(n + 1):
                # both kinds: an Exception subclass and a BaseException-only one (KeyboardInterrupt)
                cases.append(("run", with_fault(base, which, j, 0)))
                cases.append(("run", with_fault(base, which, j, 1)))
    # the caller catches the exception and goes on: the same display started again after a stop() that
    # may have raised, with a tall frame (seed C10-r3m3); a fault at EVERY index
    for _ in range(8 * k):
        kind = rng.choice([0, 0, 1, 2])
        base = gen_history(rng, kind, 2, True, maxops=14)
        cases.append(("run", base))
        nr = count_calls(base)
        for which, n in (("render", nr[0]), ("build", nr[1] if kind == 1 else 0)):
            for j in range(n + 1):
                cases.append(("run", with_fault(base, which, j, j % 2)))
    return cases


def count_calls(case):
    """upper bound of render / build calls of a history (each op renders / builds at most twice)"""
    n = len(case[4]) + 3
    return (n, n)


# ------------------------------------------------------------------ model-side argument mapping
def status_lines(f, W, glyph):
    """what Status' grid (spinner, blank, status) turns a frame into; hand-written, checked by the
    byte comparison"""
    from_w = _cell_len
    w = max([from_w(l) for l in f] + [1])
    gw = from_w(glyph)
    n = max(1, len(f))
    out = []
    for i in range(n):
        l = list(f[i]) if i < len(f) else []
        out.append((list(glyph) if i == 0 else [32] * gw) + [32] + l + [32] * (w - from_w(l)))
    return out


_WIDTHS = {}


def _cell_len(t):
    """cell width of a code point list by the table C13 proves equal to rich's"""
    if not _WIDTHS:
        import re
        src = open(os.path.join(os.path.dirname(__file__), "..", "..", "coq", "gen", "CellWidthTable.v")).read()
        _WIDTHS["t"] = [(int(a), int(b), int(c.strip("()"))) for a, b, c in
                        re.findall(r"\((\d+), (\d+), (\(?-?\d+\)?)\)", src)]
    tot = 0
    for cp in t:
        tot += _cw(cp)
    return tot


def _cw(cp):
    if 32 <= cp < 127:
        return 1
    for a, b, w in _WIDTHS["t"]:
        if a <= cp <= b:
            return 0 if w == -1 else w
        if cp < a:
            break
    return 1


def model_case(op, arg):
    if op != "run":
        return op, arg
    cfg, f0, mode, pre, ops, tags = arg
    kind, W = cfg[7], cfg[3]
    glyph = [SPINNERS[0][1]]
    raw = [f0]           # Status: the status in force (a spinner change re-lays it out)

    def fx(f):
        return status_lines(f, W, glyph[0]) if kind == 2 else f
    mops = []
    for o in ops:
        if o[0] == 3:
            if kind == 2 and len(o) > 3:
                glyph[0] = SPINNERS[o[3]][1]
            raw[0] = o[1]
            mops.append([3, fx(o[1]), o[2]])
        elif o[0] == 7:
            mops.append([3, o[2], 1])
        elif o[0] == 8:
            mops.append([3, o[2], 0])
        elif o[0] == 9:
            mops.append([3, o[3], 0])
        elif o[0] == 10:
            mops.append([3, None, 0])
        else:
            mops.append(o)
    glyph[0] = SPINNERS[0][1]
    # advance: the frame does not change -- replay the frame in force
    cur = f0
    fixed = []
    for o, m in zip(ops, mops):
        if m[0] == 3 and m[1] is None:
            m = [3, cur, 0]
        if m[0] == 3:
            cur = m[1]
        fixed.append(m)
    return op, [(cfg + [0])[:9], fx(f0), mode, pre, fixed]


# ------------------------------------------------------------------ implementation side
class Boom(Exception):
    pass


class BoomBase(KeyboardInterrupt):
    """what Ctrl-C raises inside a column: not an Exception subclass"""


class Fault:
    def __init__(self, fr, fb, base=0):
        self.exc = BoomBase if base else Boom
        self.fr = fr[0] if fr else None
        self.fb = fb[0] if fb else None
        self.nr = 0
        self.nb = 0
        self.armed = False

    def render(self):
        if not self.armed:
            return
        k = self.nr
        self.nr += 1
        if k == self.fr:
            raise self.exc("render %d" % k)

    def build(self):
        if not self.armed:
            return
        k = self.nb
        self.nb += 1
        if k == self.fb:
            raise self.exc("build %d" % k)


def _mk(exc=None):
    exc = exc or Boom
    from rich.segment import Segment
    from rich.measure import Measurement
    from rich.cells import cell_len

    class Lines:
        """a renderable that yields exactly these text lines"""
        def __init__(self, lines, fault=None):
            self.lines = [t2s(l) for l in lines]
            self.fault = fault

        def __rich_console__(self, console, options):
            if self.fault is not None:
                self.fault.render()
            for l in self.lines:
                yield Segment(l)
                yield Segment.line()

        def __rich_measure__(self, console, max_width):
            w = max([cell_len(l) for l in self.lines], default=0)
            return Measurement(w, w)

    class Wrap:
        """counts / faults one render of the whole Progress frame"""
        def __init__(self, inner, fault):
            self.inner, self.fault = inner, fault

        def __rich_console__(self, console, options):
            self.fault.render()
            yield self.inner

        def __rich_measure__(self, console, max_width):
            return Measurement.get(console, self.inner, max_width)

    class Raiser:
        def __rich_console__(self, console, options):
            raise exc("user renderable")
            yield  # pragma: no cover

    return Lines, Wrap, Raiser


def impl_run(arg):
    from rich.console import Console
    from rich.live import Live
    from rich.progress import Progress, ProgressColumn
    from rich.status import Status
    cfg, f0, mode, pre, ops, tags = arg
    progress, transient, ovf, W, H, fr, fb, kind = cfg[:8]
    base = cfg[8] if len(cfg) > 8 else 0
    fault = Fault(fr, fb, base)
    Lines, Wrap, Raiser = _mk(fault.exc)
    buf = io.StringIO()
    console = Console(file=buf, force_terminal=True, width=W, height=H, color_system=None, legacy_windows=False,
                      _environ={}, log_time=False, log_path=False, get_time=lambda: 0.0)
    so, se = sys.stdout, sys.stderr
    hooks0 = len(console._render_hooks)
    overflow = ["crop", "ellipsis", "visible"][ovf]
    tids = []
    if kind == 0:
        disp = Live(Lines(f0, fault), console=console, auto_refresh=False, transient=bool(transient),
                    vertical_overflow=overflow)
        started = lambda: disp._started
    elif kind == 2:
        disp = Status(Lines(f0, fault), console=console)
        disp._live.auto_refresh = False     # the refresh thread belongs to C11
        started = lambda: disp._live._started
    else:
        class Col(ProgressColumn):
            def render(self, task):
                return Lines(task.fields["lines"])

        class P(Progress):
            def get_renderable(self):
                fault.build()
                return Wrap(Progress.get_renderable(self), fault)

        disp = P(Col(), console=console, auto_refresh=False, transient=bool(transient))
        t0 = disp.add_task("", lines=f0, visible=bool(f0))
        started = lambda: disp._started
    fault.armed = True
    offsets = []
    obs = []
    raised = False

    def observe():
        a, b = sys.stdout is not so, sys.stderr is not se
        obs.append([1 if (a and b) else (0 if not (a or b) else 2), 1 if started() else 0])

    def do(o):
        k = o[0]
        if k == 0:
            console.print(Lines(o[1]))
        elif k == 1:
            console.log(Lines(o[1]))
        elif k == 2:
            console.print(Raiser())
        elif k == 3:
            if kind == 0:
                disp.update(Lines(o[1], fault), refresh=bool(o[2]))
            elif kind == 2:
                if len(o) > 3:
                    disp.update(status=Lines(o[1], fault), spinner=SPINNERS[o[3]][0])
                else:
                    disp.update(status=Lines(o[1], fault))
            else:
                for t in tids:
                    disp.update(t, visible=False)
                disp.update(t0, lines=o[1], visible=bool(o[1]), refresh=bool(o[2]))
        elif k == 4:
            if kind == 2:
                disp.update()
            else:
                disp.refresh()
        elif k == 5:
            disp.start()
        elif k == 6:
            disp.stop()
        elif k == 7:
            tids.append(disp.add_task("", lines=o[1]))
        elif k == 8:
            disp.remove_task(tids.pop(o[1]))
        elif k == 9:
            disp.update(tids[o[1]], visible=bool(o[2]))
        elif k == 10:
            disp.advance(tids[o[1]])
        else:
            raise KeyError(k)

    try:
        if mode in (0, 2):
            for o in ops:
                try:
                    do(o)
                except (Boom, BoomBase):
                    raised = True
                offsets.append(len(buf.getvalue()))
                observe()
                if raised and mode == 0:
                    break
        else:
            for ls in pre:
                console.print(Lines(ls))
            try:
                with disp:
                    for o in ops:
                        do(o)
            except (Boom, BoomBase):
                raised = True
        redirected = (sys.stdout is not so) or (sys.stderr is not se)
        return [s2t(buf.getvalue()), 1 if raised else 0, len(console._render_hooks) - hooks0,
                1 if redirected else 0, 1 if started() else 0, offsets, obs]
    finally:
        sys.stdout, sys.stderr = so, se


def impl(op, arg):
    if op == "term":
        import vt100
        from rich.cells import get_character_cell_size
        H, bs = arg
        return vt100.Term(H, lambda cp: get_character_cell_size(chr(cp))).feed(bs).dump()
    if op == "codes":
        from rich.live_render import LiveRender
        lr = LiveRender("")
        lr._shape = tuple(arg) if arg else None
        return [s2t(str(lr.position_cursor())), s2t(str(lr.restore_cursor()))]
    if op == "run":
        return impl_run(arg)
    raise KeyError(op)


# ------------------------------------------------------------------ spec checkers on the implementation's output
def spec_cases(op, arg, out):
    if isinstance(out, dict):
        return []
    if op == "codes" and arg:
        h = arg[1]
        return [("spec.erase_ok", [5, pre, h, out[0]]) for pre in (0, 2)]
    if op == "run":
        cfg, f0, mode, pre, ops, tags = arg
        if tags:
            return []
        _, marg = model_case(op, arg)
        bytes_, raised, hooks, redirected, started, offsets, obs = out
        H = cfg[4]
        specs = [("spec.view_ok", [marg, bytes_]),
                 ("spec.cursor_vis_ok", [H, started, bytes_])]
        if mode in (0, 2):
            specs.append(("spec.cursor_ok", [marg, bytes_, offsets]))
            specs.append(("spec.redirect_ok", obs))
        if mode == 1 or not started:
            # nothing may be left behind once the display is not running: with-block exit, stop(),
            # or an exception that escaped start()
            specs.append(("spec.cleanup_ok", [H, 0, hooks, 0 if redirected else 1, bytes_]))
        return specs
    return []


def describe(op, arg):
    try:
        if op == "term":
            return repr(t2s(arg[1]))
        if op == "run":
            cfg = arg[0]
            return "kind=%s transient=%s overflow=%s W=%s H=%s faults=%s/%s mode=%s ops=%d" % (
                ["Live", "Progress", "Status"][cfg[7]], cfg[1], cfg[2], cfg[3], cfg[4], cfg[5], cfg[6], arg[2], len(arg[4]))
    except Exception:
        pass
    return None
