"""Layer wrap (C02): rich._wrap (words, divide_line) and Text.wrap with everything it runs
(split, expand_tabs, divide, rstrip_end, Lines.justify, truncate).

Styles: a token k is the style object FS((k,)); FS is the FREE "later overrides earlier" algebra
(tuple of tokens, only the last occurrence of a token kept) with the interface text.py/containers.py
use (`copy`, `+`, `==`, hash).  A fake console hands them through `get_style`.  Text.wrap never
renders, so no real Style is needed; per-character styles are read back by the same replay
get_style_at_offset does (base style, then the covering spans in span order)."""
import re

from common import s2t, t2s

OPS = {
    "is_space_range": {}, "words": {}, "rstrip": {}, "divide_line": {}, "divide": {}, "split": {},
    "expand_tabs": {}, "truncate": {}, "rstrip_end": {}, "wrap": {}, "wrap_raw": {}, "wrap_seq": {},
}

# the variant of the model the implementation is compared with: [fix_order, fix_pad]
FIX = [1, 1]

ASCII = "abcXYZ019-_.,"
WIDE = "\u3042\u4e2d\U0001f600\uff21"
ZERO = "\u0301\u200b\x00\u0483"
OTHER_WS = "\xa0\u3000\x1c\u2028\x85\u2003"
ELL = "\u2026"
JUSTIFY = ["default", "left", "center", "right", "full"]
OVERFLOW = ["fold", "crop", "ellipsis", "ignore"]


def rword(rng, maxlen):
    n = rng.choice([1, 1, 2, 3, 4, 5, 7, maxlen])
    kind = rng.random()
    if kind < 0.55:
        pool = ASCII
    elif kind < 0.75:
        pool = ASCII + WIDE
    elif kind < 0.9:
        pool = ASCII + WIDE + ZERO
    else:
        pool = WIDE + ZERO + ELL
    return "".join(rng.choice(pool) for _ in range(rng.randint(1, max(1, n))))


def rgap(rng, nl, tabs):
    r = rng.random()
    if r < 0.55:
        return " "
    if r < 0.75:
        return " " * rng.randint(2, 6)
    if r < 0.82 and nl:
        return rng.choice(["\n", "\n\n", " \n", "\n  "])
    if r < 0.9 and tabs:
        return rng.choice(["\t", "\t\t", " \t", "\t "])
    if r < 0.96:
        return rng.choice(OTHER_WS)
    return ""


def rplain(rng, nl=True, tabs=True, maxwords=8, maxword=12):
    nwords = rng.choice([0, 1, 1, 2, 3, 4, 6, maxwords])
    s = ""
    if rng.random() < 0.3:
        s += rgap(rng, nl, tabs) * rng.randint(1, 2)
    for _ in range(nwords):
        s += rword(rng, maxword) + rgap(rng, nl, tabs)
    if rng.random() < 0.5:
        s = s.rstrip(" ")
    if rng.random() < 0.1:
        s += "\n"
    return s


def rspans(rng, n):
    k = rng.choice([0, 0, 1, 2, 3, 4, 6])
    spans = []
    for _ in range(k):
        r = rng.random()
        if spans and r < 0.2:
            s, e, st = rng.choice(spans)          # duplicated span
            if rng.random() < 0.3:
                st = [rng.randint(1, 4)]
            spans.append([s, e, st])
            continue
        if spans and r < 0.3:                      # same start or same end as an earlier one
            s0, e0, _ = rng.choice(spans)
            s = s0 if rng.random() < 0.5 else rng.randint(0, max(0, n))
            e = e0 if s != s0 else rng.randint(0, max(0, n))
        else:
            s = rng.randint(0, max(0, n))
            e = rng.randint(0, n + 2) if rng.random() < 0.85 else s
        if e < s and rng.random() < 0.8:
            s, e = e, s
        spans.append([s, e, [rng.randint(1, 4)]])
    return spans


def rtext(rng, **kw):
    s = rplain(rng, **kw)
    base = [] if rng.random() < 0.6 else [9]
    return [s2t(s), rspans(rng, len(s)), base]


def rwidth(rng, s):
    n = max(2, len(s))
    return rng.choice([2, 2, 3, 4, 5, 6, 8, 10, rng.randint(2, 12), rng.randint(2, 30), rng.randint(2, 200),
                       min(200, n), min(200, max(2, n - 1)), min(200, n + 1)])


def generate(rng, tier):
    cases = []
    k = 1 if tier == "quick" else 25
    for lo in range(0, 0x110000, 8192):
        cases.append(("is_space_range", [lo, min(lo + 8192, 0x110000)]))
    for _ in range(300 * k):
        cases.append(("words", s2t(rplain(rng))))
        cases.append(("rstrip", s2t(rplain(rng, maxwords=3) + rng.choice(["", " ", "\u3000 ", "\x1c", "\t\n"]))))
    for _ in range(1200 * k):
        s = rplain(rng, nl=rng.random() < 0.1, tabs=rng.random() < 0.1, maxword=rng.choice([6, 12, 30]))
        cases.append(("divide_line", [s2t(s), rwidth(rng, s), rng.randint(0, 1)]))
    for _ in range(700 * k):
        t = rtext(rng)
        n = len(t[0])
        offs = sorted(rng.randint(0, n) for _ in range(rng.choice([0, 1, 1, 2, 3, 5])))
        if rng.random() < 0.7:
            offs = sorted(set(offs))
        cases.append(("divide", [t, offs]))
    for _ in range(250 * k):
        t = rtext(rng)
        cases.append(("split", [t, rng.choice([10, 32, 9]), rng.randint(0, 1), rng.randint(0, 1)]))
        t = rtext(rng)
        cases.append(("expand_tabs", [t, rng.choice([1, 2, 3, 4, 8])]))
        t = rtext(rng, nl=False, tabs=False)
        cases.append(("truncate", [t, rwidth(rng, t[0]), rng.randint(0, 3), rng.randint(0, 1)]))
        t = rtext(rng, nl=False, tabs=False)
        cases.append(("rstrip_end", [t, rng.randint(0, len(t[0]) + 1)]))
    for i in range(3200 * k):
        t = rtext(rng, maxwords=rng.choice([4, 8, 14]), maxword=rng.choice([6, 12, 25]))
        w = rwidth(rng, t[0])
        j = rng.randint(0, 4)
        ov = rng.choice([0, 0, 0, 1, 2, 3])
        ts = rng.choice([8, 8, 4, 2, 1, 3])
        nw = 1 if rng.random() < 0.15 else 0
        cases.append(("wrap" if i % 4 else "wrap_raw", [t, w, j, ov, ts, nw]))
    # the SAME Text object wrapped two or three times: wrap must not mutate its receiver (aliasing)
    for i in range(700 * k):
        t = rtext(rng, maxwords=rng.choice([4, 8]), maxword=rng.choice([6, 12]))
        if not t[1] or rng.random() < 0.7:
            t[1] = t[1] + rspans(rng, len(t[0])) + [[0, max(1, len(t[0]) // 2), [rng.randint(1, 4)]]]
        cfgs = []
        for _ in range(rng.choice([2, 2, 3])):
            if cfgs and rng.random() < 0.35:
                cfgs.append(list(cfgs[-1]))           # the same call again
                continue
            cfgs.append([rwidth(rng, t[0]), rng.choice([2, 3, 2, 3, 0, 1, 4]), rng.choice([0, 0, 1, 2, 3]),
                         rng.choice([8, 4, 2]), 1 if rng.random() < 0.15 else 0])
        cases.append(("wrap_seq", [t, cfgs]))
    return cases


# ---------------------------------------------------------------- input domain
# Text.__init__ strips these four characters and then disagrees with itself about its length (C05's
# D1): they are outside C02's domain.  The shrinker may wander there, so every entry point maps them
# to 'a' first -- on the model side, the implementation side and for the spec checkers alike.
FORBIDDEN = {8, 11, 12, 13}


def _ds(cps):
    return [97 if c in FORBIDDEN else c for c in cps] if isinstance(cps, list) else []


def _dt(t):
    try:
        plain, spans, base = t
        return [_ds(plain), [[int(s), int(e), list(st)] for s, e, st in spans], list(base)]
    except Exception:
        return [[], [], []]


def dom(op, arg):
    try:
        if op in ("words", "rstrip"):
            return _ds(arg)
        if op == "divide_line":
            return [_ds(arg[0]), max(1, arg[1]), arg[2]]
        if op == "divide":
            return [_dt(arg[0]), sorted(max(0, o) for o in arg[1])]
        if op == "split":
            return [_dt(arg[0]), arg[1] if arg[1] in (9, 10, 32) else 32, arg[2], arg[3]]
        if op == "expand_tabs":
            return [_dt(arg[0]), max(1, arg[1])]
        if op == "truncate":
            return [_dt(arg[0]), max(2, arg[1]), arg[2] % 4, arg[3]]
        if op == "rstrip_end":
            return [_dt(arg[0]), max(0, arg[1])]
        if op in ("wrap", "wrap_raw"):
            t, w, j, ov, ts, nw = arg
            return [_dt(t), max(2, w), j % 5, ov % 4, max(1, ts), nw]
        if op == "wrap_seq":
            return [_dt(arg[0]), [[max(2, w), j % 5, ov % 4, max(1, ts), nw] for w, j, ov, ts, nw in arg[1]]]
    except Exception:
        pass
    return arg


# ---------------------------------------------------------------- implementation side
def canon(tokens):
    out = []
    for i, x in enumerate(tokens):
        if x not in tokens[i + 1:]:
            out.append(x)
    return tuple(out)


class FS:
    """free style: the tokens it was combined from (last occurrence of each kept)"""
    __slots__ = ("t",)

    def __init__(self, t):
        self.t = tuple(t)

    def copy(self):
        return FS(self.t)

    def __add__(self, other):
        if other is None:
            return self
        return FS(canon(self.t + other.t))

    def __eq__(self, other):
        return isinstance(other, FS) and self.t == other.t

    def __ne__(self, other):
        return not self.__eq__(other)

    def __hash__(self):
        return hash(self.t)

    def __repr__(self):
        return f"FS{self.t}"


class FakeConsole:
    tab_size = 8

    def get_style(self, name, default=None):
        if isinstance(name, FS):
            return name
        if name == "" or name is None:
            return FS(())
        raise KeyError(name)


def _toks(style):
    if isinstance(style, FS):
        return list(style.t)
    if style == "" or style is None:
        return []
    raise TypeError(f"unexpected style {style!r}")


def mk_text(t):
    from rich.text import Text, Span
    plain, spans, base = t
    return Text(t2s(plain), style=FS(base) if base else "",
                spans=[Span(s, e, FS(st)) for s, e, st in spans])


def raw(text):
    return [s2t(text.plain), [[sp.start, sp.end, _toks(sp.style)] for sp in text._spans], _toks(text.style)]


def styled_line(text):
    """[plain, per character: canonical tokens of base style + covering spans in order]"""
    plain = text.plain
    base = _toks(text.style)
    per = []
    for i in range(len(plain)):
        toks = list(base)
        for sp in text._spans:
            if sp.start <= i < sp.end:
                toks += _toks(sp.style)
        per.append(list(canon(tuple(toks))))
    return [s2t(plain), per]


def impl(op, arg):
    arg = dom(op, arg)
    if op == "is_space_range":
        lo, hi = arg
        out = []
        for cp in range(lo, hi):
            c = chr(cp)
            votes = (c.isspace(), re.match(r"\s", c) is not None, re.match(r"\S", c) is None,
                     c.strip() == "", ("a" + c).rstrip() == "a", len(("a" + c + "b").split()) == 2,
                     re.search(r"\s+$", "a" + c) is not None)
            out.append(1 if all(votes) else (0 if not any(votes) else 2))
        return out
    from rich import _wrap
    if op == "words":
        return [[s, e] for s, e, _ in _wrap.words(t2s(arg))]
    if op == "rstrip":
        return s2t(t2s(arg).rstrip())
    if op == "divide_line":
        return list(_wrap.divide_line(t2s(arg[0]), arg[1], fold=bool(arg[2])))
    if op == "divide":
        return [raw(l) for l in mk_text(arg[0]).divide(arg[1])]
    if op == "split":
        t, sep, inc, blank = arg
        return [raw(l) for l in mk_text(t).split(chr(sep), include_separator=bool(inc), allow_blank=bool(blank))]
    if op == "expand_tabs":
        t = mk_text(arg[0])
        t.expand_tabs(arg[1])
        return raw(t)
    if op == "truncate":
        t = mk_text(arg[0])
        t.truncate(arg[1], overflow=OVERFLOW[arg[2]], pad=bool(arg[3]))
        return raw(t)
    if op == "rstrip_end":
        t = mk_text(arg[0])
        t.rstrip_end(arg[1])
        return raw(t)
    if op in ("wrap", "wrap_raw"):
        t, w, j, ov, ts, nw = arg
        lines = mk_text(t).wrap(FakeConsole(), w, justify=JUSTIFY[j], overflow=OVERFLOW[ov], tab_size=ts,
                                no_wrap=bool(nw))
        return [raw(l) if op == "wrap_raw" else styled_line(l) for l in lines]
    if op == "wrap_seq":
        text = mk_text(arg[0])
        out = []
        for w, j, ov, ts, nw in arg[1]:
            lines = text.wrap(FakeConsole(), w, justify=JUSTIFY[j], overflow=OVERFLOW[ov], tab_size=ts, no_wrap=bool(nw))
            out.append([[styled_line(l) for l in lines], raw(text)])
        return out
    raise KeyError(op)


def model_case(op, arg):
    arg = dom(op, arg)
    if op in ("wrap", "wrap_raw", "wrap_seq"):
        return op, FIX + arg
    if op in ("divide", "split", "expand_tabs"):
        return op, [FIX[0]] + arg
    return op, arg


def _styled_from_raw(line):
    plain, spans, base = line
    per = []
    for i in range(len(plain)):
        toks = list(base)
        for s, e, st in spans:
            if s <= i < e:
                toks += st
        per.append(list(canon(tuple(toks))))
    return [plain, per]


def spec_cases(op, arg, out):
    if isinstance(out, dict):
        return []
    arg = dom(op, arg)
    if op == "wrap_seq":
        t, cfgs = arg
        specs = []
        for (w, j, ov, ts, nw), (lines, after) in zip(cfgs, out):
            specs += spec_cases("wrap", [t, w, j, ov, ts, nw], lines)     # every wrap, against the ORIGINAL text
            specs.append(("spec.receiver_unchanged", [t, after]))
        return specs
    if op in ("wrap", "wrap_raw"):
        t, w, j, ov, ts, nw = arg
        lines = out if op == "wrap" else [_styled_from_raw(l) for l in out]
        plains = [l[0] for l in lines]
        wrapped = not nw and ov != 3
        specs = []
        if ov != 3:
            specs.append(("spec.all_fit", [w, plains]))
        if wrapped and ov == 0:
            specs.append(("spec.same_nonspace", [t[0], plains]))
            specs.append(("spec.breaks_only_long", [w, ts, t, plains]))
        # what may be dropped: nothing when folding (or ignoring the width); with no_wrap a fold/crop
        # line is cropped (tests/test_text.py::test_no_wrap_no_crop pins that)
        mode = ov if (wrapped or ov in (2, 3)) else 1
        specs.append(("spec.styles_kept", [mode, t, lines]))
        return specs
    if op == "divide":
        t, offs = arg
        # dividing alone must keep every character with its styles (covers D15 directly)
        return [("spec.styles_kept", [0, t, [_styled_from_raw(l) for l in out]]),
                ("spec.same_nonspace", [t[0], [l[0] for l in out]])]
    return []


def describe(op, arg):
    try:
        if op in ("wrap", "wrap_raw"):
            t, w, j, ov, ts, nw = arg
            return (f"Text({t2s(t[0])!r}, style={t[2]}, spans={t[1]}).wrap(width={w}, justify={JUSTIFY[j]}, "
                    f"overflow={OVERFLOW[ov]}, tab_size={ts}, no_wrap={bool(nw)})")
        if op == "wrap_seq":
            t, cfgs = arg
            return (f"x = Text({t2s(t[0])!r}, style={t[2]}, spans={t[1]}); " + "; ".join(
                f"x.wrap(width={w}, justify={JUSTIFY[j]}, overflow={OVERFLOW[ov]}, tab_size={ts}, no_wrap={bool(nw)})"
                for w, j, ov, ts, nw in cfgs))
        if op == "divide_line":
            return f"divide_line({t2s(arg[0])!r}, {arg[1]}, fold={bool(arg[2])})"
        if op == "divide":
            return f"Text({t2s(arg[0][0])!r}, spans={arg[0][1]}).divide({arg[1]})"
    except Exception:
        pass
    return None
