"""Layer L2 text operations (C05): histories of rich.text.Text editing operations.

One case = ("text_hist", [init, ops]); the implementation answers with the observable state after
EVERY prefix: plain, the cached length, the spans, the metadata and -- from Text.render() -- the
effective (foreground, background) of every character.  The model (coq/model/TextOps.v) answers
with plain/length/spans/metadata; the reference semantics (SpecTextOps.v: characters with ordered
style lists) is checked against the implementation's states by `spec.text_hist_ok`.
"""
import os
from common import s2t, t2s

OPS = {"text_hist": {}, "store_hist": {}, "strip": {}, "hl_real": {"spec_only": True}}

# 1 = behaviour with the proposed fixes applied (see notes/C05.md); VERIF_C05_ASIS=1 -> code as found
FIXBITS = [0] * 9 if os.environ.get("VERIF_C05_ASIS") else [1] * 9

CTL = "\b\v\f\r"
ASCII = "abcxyz AB09_-"
WIDE = "あ中\U0001f600Ａ"
ZERO = "́​\x00\x07\x1b"
WS = " \t\n   \x1c\x85"
ALPHA = ASCII + WIDE + ZERO + WS + CTL
# regex metacharacters: every separator / word / suffix / character set the code hands to `re` must be
# treated literally (re.escape); a dropped escape only shows when these occur in the argument AND the text
META = ".|$^+*?()[]{}\\"
META_SEPS = [".", "|", "$", "^", "+", "*", "?", "(", ")", "[", "]", "{", "}", "\\", "a.", ".b", "a|b", "b$a", "a+",
             "(a)", "[ab]", "\\n", "a*", ".*", "^a", "b$", "{1}", "\\d", "a?", "..", "||", "a|", "|a", "$$", "(", "a\\"]
TAIL = [""]        # what the history last put at the end of the text (for remove_suffix / rstrip_end hits)

JUSTIFY = [None, "left", "center", "right", "full", "default"]
OVERFLOW = [None, "fold", "crop", "ellipsis", "ignore"]
NOWRAP = [None, False, True]


def rstr(rng, maxlen=8, pool=None):
    n = rng.choice([0, 1, 1, 2, 3, 4, 6, maxlen])
    n = min(n, maxlen)
    pool = pool or rng.choice([ASCII, ASCII, ASCII + WS, ASCII + CTL, ASCII + WIDE, ASCII + ZERO, ALPHA, "a\t\n", "ab",
                               "ab" + META, "ab.|$+", ASCII + META])
    return "".join(rng.choice(pool if rng.random() < 0.8 else ALPHA) for _ in range(n))


def clean(s):
    return "".join(c for c in s if c not in CTL)


def rstyle(rng, none_ok=True):
    if none_ok and rng.random() < 0.3:
        return []
    return [rng.randint(0, 6)]


def rspans(rng, n, wild=False):
    out = []
    for _ in range(rng.choice([0, 0, 1, 2, 3, 5])):
        if wild:
            s, e = rng.randint(-2, n + 2), rng.randint(-2, n + 3)
        else:
            s = rng.randint(0, n)
            e = s if rng.random() < 0.1 else rng.randint(s, n)
        out.append([s, e, rng.randint(0, 6)])
    if out and rng.random() < 0.35:      # duplicates / coinciding spans (what a value-keyed dict confuses)
        d = list(rng.choice(out))
        if rng.random() < 0.5:
            d[2] = rng.randint(0, 6)
        out.insert(rng.randint(0, len(out)), d)
    return out


def rarg(rng, wild=False, length=None):
    s = rstr(rng, 6)
    if length is not None:
        s = "".join(rng.choice("pqr あ") for _ in range(length))
    return [s2t(s), rng.randint(0, 6) if rng.random() < 0.5 else 0, rspans(rng, len(clean(s)), wild)]


def roff(rng, est):
    return rng.choice([0, 1, 2, est - 1, est, est + 1, est + 3, rng.randint(0, max(1, est)), rng.randint(0, 14)])


def rneg(rng, est):
    return rng.choice([-1, -2, -est, -est - 1, -est + 1, -rng.randint(1, 9)])


def ridx(rng, est):
    return rneg(rng, est) if rng.random() < 0.35 else roff(rng, est)


def ropt(rng, v):
    return [] if rng.random() < 0.25 else [v]


def padchar(rng, wild):
    if wild and rng.random() < 0.5:
        return ord(rng.choice(CTL))
    return ord(rng.choice(" .-xあ́"))


def rop(rng, est, wild):
    """one operation and the new length estimate"""
    k = rng.choice([1, 1, 1, 2, 2, 3, 3, 4, 4, 5, 5, 6, 6, 7, 7, 8, 8, 9, 9, 9, 10, 11, 11, 11, 12, 13, 14, 15, 16, 16,
                    17, 17, 18, 18, 19, 20, 21, 21, 22, 24, 25, 25, 26, 26, 26, 27, 28, 29,
                    30, rng.choice([23, 10, 1, 26, 30])])
    if k == 1:
        s = rstr(rng, 6)
        if rng.random() < 0.25:     # trailing whitespace runs (rstrip, rstrip_end) and metacharacter tails
            s += rng.choice([" ", "  ", " \t", "\n", " \x1c", "\u3000 ", "\x85", " \n ", ".", "a.", "$", "+)", "|"])
        TAIL[0] = clean(s)
        return [1, s2t(s), rstyle(rng)], est + len(clean(s))
    if k in (2, 3):
        a = rarg(rng, wild)
        return [k, a], est + len(clean(t2s(a[0])))
    if k == 4:
        toks = [[s2t(rstr(rng, 4)), rstyle(rng)] for _ in range(rng.randint(0, 3))]
        return [4, toks], est + sum(len(clean(t2s(t[0]))) for t in toks)
    if k == 5:
        parts = []
        for _ in range(rng.randint(0, 3)):
            c = rng.randint(0, 2)
            if c == 0:
                parts.append([0, s2t(rstr(rng, 4))])
            elif c == 1:
                parts.append([1, s2t(rstr(rng, 4)), rstyle(rng)])
            else:
                parts.append([2, rarg(rng, wild)])
        return [5, rng.randint(0, 6), parts], est + 4
    if k == 6:
        sep = rarg(rng, wild)
        if rng.random() < 0.5:
            # a separator with a base style AND spans setting the same attribute (same parity = same attribute)
            txt = rng.choice([", ", "|", " . ", "--", "$"])
            b = rng.randint(1, 6)
            sep = [s2t(txt), b, [[0, len(txt), ((b + 1) % 6) + 1 if (((b + 1) % 6) + 1) % 2 == b % 2 else ((b + 2) % 6) + 1],
                                 [0, 1, rng.randint(1, 6)]]]
        return [6, sep, [rarg(rng, wild) for _ in range(rng.randint(0, 2))],
                [rarg(rng, wild) for _ in range(rng.randint(0, 2))]], est + 6
    if k == 7:
        return [7, [rarg(rng, wild) for _ in range(rng.randint(0, 3))]], est + 6
    if k == 8:
        sep = rng.choice(["\n", "\t", " ", "a", "aa", "ab", "\n", "b", "あ", "" if wild else "a"]
                         + [rng.choice(META_SEPS) for _ in range(6)]
                         + [c for c in TAIL[0] if c in META][:3] * 2          # metacharacters known to be in the text
                         + [TAIL[0][j:j + 2] for j in range(len(TAIL[0]) - 1) if TAIL[0][j] in META or TAIL[0][j + 1] in META][:2])
        return [8, s2t(sep), rng.randint(0, 1), rng.randint(0, 1), rng.choice([0, 0, 1, 1, 2, 3, -1])], max(0, est // 2)
    if k == 9:
        offs = [roff(rng, est) for _ in range(rng.randint(0, 4))]
        if not wild or rng.random() < 0.5:
            offs.sort()
        elif rng.random() < 0.5:
            offs = [ridx(rng, est) for _ in offs]
        return [9, offs, rng.choice([0, 0, 1, 1, 2, 3])], max(0, est // 2)
    if k == 10:
        return [10, ridx(rng, est)], est   # usually replaces the text by one character; est kept on IndexError
    if k == 11:
        return [11, ropt(rng, ridx(rng, est)), ropt(rng, ridx(rng, est))], max(0, est - 2)
    if k in (12, 13, 14):
        n = rng.choice([0, 1, 2, 3, rng.randint(0, 5)]) if (not wild or rng.random() < 0.6) else -rng.randint(1, 3)
        if rng.random() < 0.08:
            n = -rng.randint(1, 3)
        return [k, n, padchar(rng, wild)], est + max(0, n) * (2 if k == 12 else 1)
    if k == 15:
        w = rng.choice([est - 2, est, est + 1, est + 4, rng.randint(0, 12), -1 if rng.random() < 0.2 else 3])
        return [15, rng.randint(0, 2), w, padchar(rng, wild)], max(0, w)
    if k == 16:
        w = rng.choice([est - 2, est - 1, est, est + 1, est + 3, rng.randint(0, 12), 0, 1, -1 if rng.random() < 0.2 else 2])
        return [16, w, rng.choice([0, 0, 1, 2, 3, 3, 4]), rng.randint(0, 1)], max(0, min(est, w))
    if k == 17:
        n = rng.choice([0, 0, 1, 2, est - 1, est, est + 1, est + 3, -1 if rng.random() < 0.3 else 1])
        return [17, n], max(0, est - max(0, n))
    if k == 18:
        n = rng.choice([0, 1, est - 1, est, est + 1, est + 3, rng.randint(0, 12), -1 if rng.random() < 0.2 else 2])
        return [18, n], max(0, n)
    if k == 19:
        return [19], est
    if k == 20:
        return [20, rng.choice([0, 1, est - 2, est - 1, est, est + 1, -1 if rng.random() < 0.2 else 2])], est
    if k == 21:
        return [21, rng.choice([[], [], [4], [8], [1], [1], [2], [3], [0], [-2] if rng.random() < 0.3 else [5]])], est + 3
    if k in (22, 23):
        return [k], est if k == 22 else 0
    if k == 24:
        s = rstr(rng, 8)
        TAIL[0] = clean(s)
        return [24, s2t(s)], len(clean(s))
    if k == 25:
        tail = TAIL[0]
        hits = [tail[-j:] for j in (1, 2, 3) if len(tail) >= j] + [tail]
        return [25, s2t(rng.choice(["", "", "a", " ", "b", "ab", "\n", rstr(rng, 3), ".", "$", "a.", ".*", "a|b", "+", "\\"]
                                   + hits + hits))], est
    if k == 26:
        return [26, rng.randint(0, 6), ridx(rng, est), ropt(rng, ridx(rng, est))], est
    if k == 27:
        ws = [rng.choice(["a", "b", "ab", "ba", " ", "あ", "abc", "x", ".", "a.", "a|b", "$", "+", "(", "[a]", "\\", "a*",
                          ".*", "|", "b$", "^a", "?"]) for _ in range(rng.randint(1, 3))]
        return [27, [s2t(w) for w in ws], rng.randint(0, 6)], est
    if k == 28:
        return [28, s2t(rng.choice(["a", "ab", " ", "abc09", "あb", "a.$", "|+*", "^", "]", "\\", "-a", "^a", "[b", "a-c", "\\b"])),
                rng.randint(1, 6)], est   # a falsy style is "no style" there
    if k == 30:
        # a Highlighter object called on the text (RegexHighlighter with character-class patterns; no pattern =
        # NullHighlighter), on a str, or on something that is neither
        pats = [[s2t(rng.choice(["a", "ab", " ", "0123456789", "あb", "a.$", "xyz", "AB_-"])), rng.randint(1, 6)]
                for _ in range(rng.choice([0, 1, 1, 2, 3]))]
        kind = rng.choice([0, 0, 0, 0, 0, 1, 2 if rng.random() < 0.3 else 0])
        s = rstr(rng, 6) if kind == 1 else ""
        return [30, pats, kind, s2t(s)], (len(clean(s)) if kind == 1 else est)
    # copy_styles: "must be the same length" -- in-domain uses come from rhist, which pins the length first
    if wild:
        return [29, rarg(rng, wild)], est
    return [22], est


def rhist(rng, wild, maxops=12):
    s = rstr(rng, 10)
    n = len(clean(s))
    meta = [rng.choice([0, 0, 0, rng.randint(1, 6)]), rng.randint(0, 5) if rng.random() < 0.3 else 0,
            rng.randint(0, 4) if rng.random() < 0.4 else 0, rng.randint(0, 2) if rng.random() < 0.2 else 0,
            s2t(rng.choice(["\n", "\n", "", " "])), rng.choice([[8], [8], [4], [], [1], [3]])]
    init = [s2t(s), meta, rspans(rng, n, wild and rng.random() < 0.5)]
    ops = []
    est = n
    for _ in range(rng.randint(1, maxops)):
        if rng.random() < 0.06 and len(ops) + 2 <= maxops:
            # set_length(n); copy_styles(text of exactly n characters)
            m = rng.randint(0, 6)
            ops.append([18, m])
            ops.append([29, rarg(rng, False, length=m)])
            est = m
            continue
        o, est = rop(rng, est, wild)
        ops.append(o)
    return [init, ops[:maxops]]



PRODUCING = (5, 6, 7, 8, 9, 10, 11, 22, 23, 30)      # operations that return a Text instead of editing in place


def rinit(rng, wild=False):
    s = rstr(rng, 10)
    n = len(clean(s))
    meta = [rng.choice([0, 0, 0, rng.randint(1, 6)]), rng.randint(0, 5) if rng.random() < 0.3 else 0,
            rng.randint(0, 4) if rng.random() < 0.4 else 0, rng.randint(0, 2) if rng.random() < 0.2 else 0,
            s2t(rng.choice(["\n", "\n", "", " "])), rng.choice([[8], [8], [4], [], [1], [3]])]
    sp = rspans(rng, n, wild)
    if not wild and not sp and n and rng.random() < 0.7:     # aliasing of span lists needs spans to show
        a = rng.randint(0, n - 1)
        sp = [[a, rng.randint(a + 1, n), rng.randint(1, 6)]]
    return [s2t(s), meta, sp], n


def rstore(rng, wild=False, maxops=12):
    """history over a store of named Text values: copies and other derived values stay alive next to
    their source, either may then be edited, and every live value is observed after every step"""
    inits, ests = [], []
    for _ in range(rng.choice([1, 1, 2, 3])):
        i, n = rinit(rng, wild and rng.random() < 0.5)
        inits.append(i)
        ests.append(n)
    sops = []
    while len(sops) < maxops:
        n = len(ests)
        x = rng.randrange(n)
        c = rng.random()
        if c < 0.22 or (len(sops) == 0 and c < 0.6):
            # y := a value derived from x with nothing cut (copy, t[:], split/divide with nothing to cut)
            y = rng.choice([n, n, n, rng.randrange(n)])
            o = rng.choice([[22], [22], [22], [11, [], []], [9, [], 0], [8, s2t("\x00\x00"), 0, 0, 0],
                            [30, [], 0, []], [30, [[s2t("ab"), rng.randint(1, 6)]], 0, []]])
            sops.append([1, y, x, o])
            if y == n:
                ests.append(ests[x])
            else:
                ests[y] = ests[x]
        elif c < 0.62:
            # edit x in place (or derive a value from it)
            for _ in range(20):
                o, e = rop(rng, ests[x], wild)
                if o[0] != 29:
                    break
            if o[0] in PRODUCING:
                y = rng.choice([n, n, x, rng.randrange(n)])
                sops.append([1, y, x, o])
                if y == n:
                    ests.append(e)
                else:
                    ests[y] = e
            else:
                sops.append([1, x if (not wild or rng.random() < 0.9) else n, x, o])
                ests[x] = e
        elif c < 0.70:
            if rng.random() < 0.5:
                sep = rng.choice(["\n", "\t", " ", "a", "b", "ab"])
                o = [8, s2t(sep), rng.randint(0, 1), rng.randint(0, 1), 0]
            else:
                o = [9, sorted(roff(rng, ests[x]) for _ in range(rng.randint(0, 3))), 0]
            sops.append([2, x, o])
            ests.append(max(0, ests[x] // 2))          # at least one new slot; later indices may miss -> IndexError
        elif c < 0.82:
            z = rng.randrange(n)
            if z == x and n > 1 and rng.random() < 0.9:
                z = (x + 1) % n
            sops.append([rng.choice([3, 4]), x, z])
            ests[x] += ests[z]
        elif c < 0.87:
            # x.copy_styles(copy of x, possibly restyled): same length by construction
            sops.append([1, n, x, [22]])
            ests.append(ests[x])
            if rng.random() < 0.6 and len(sops) < maxops - 1:
                sops.append([1, n, n, [26, rng.randint(1, 6), ridx(rng, ests[x]), ropt(rng, ridx(rng, ests[x]))]])
            sops.append([5, x, n])
        elif c < 0.94:
            lines = [rng.randrange(n) for _ in range(rng.randint(0, 3))]
            y = rng.choice([n, n, rng.randrange(n)])
            sops.append([6, y, rng.randrange(n), lines])
            e = sum(ests[i] for i in lines) + 2
            if y == n:
                ests.append(e)
            else:
                ests[y] = e
        else:
            parts = [rng.randrange(n) for _ in range(rng.randint(0, 3))]
            y = rng.choice([n, n, rng.randrange(n)])
            sops.append([7, y, rng.randint(0, 6), parts])
            e = sum(ests[i] for i in parts)
            if y == n:
                ests.append(e)
            else:
                ests[y] = e
    return [inits, sops[:maxops]]


def rmeta_hist(rng):
    """regex metacharacters that occur LITERALLY in the text, as separator / word / suffix / character set"""
    pool = "ab" + META
    txt = "".join(rng.choice(pool if rng.random() < 0.7 else "ab") for _ in range(rng.randint(2, 9)))
    n = len(txt)
    init = [s2t(txt), [rng.randint(0, 6), 0, 0, 0, s2t("\n"), [8]], rspans(rng, n)]

    def sub():
        if rng.random() < 0.25:
            return rng.choice(META_SEPS)
        i = rng.randrange(n)
        return txt[i:i + rng.choice([1, 1, 2, 3])]
    ops = []
    for _ in range(rng.randint(1, 4)):
        c = rng.random()
        if c < 0.5:
            ops.append([8, s2t(sub()), rng.randint(0, 1), rng.randint(0, 1), rng.choice([0, 0, 1, 2])])
        elif c < 0.7:
            ops.append([27, [s2t(sub()) for _ in range(rng.randint(1, 3))], rng.randint(1, 6)])
        elif c < 0.8:
            ops.append([25, s2t(txt[-rng.choice([1, 2, 3]):] if rng.random() < 0.7 else sub())])
        elif c < 0.9:
            ops.append([28, s2t(sub()), rng.randint(1, 6)])
        else:
            ops.append([1, s2t(sub() + rng.choice(["", " ", "\t"])), rstyle(rng)])
    return [init, ops]


def generate(rng, tier):
    cases = []
    k = 1 if tier == "quick" else 25
    for _ in range(6000 * k):
        cases.append(("text_hist", rhist(rng, wild=False)))
    for _ in range(600 * k):    # outside the theorem's domain: model vs implementation only
        cases.append(("text_hist", rhist(rng, wild=True)))
    for _ in range(600 * k):    # short histories: single operations at the boundaries
        cases.append(("text_hist", rhist(rng, wild=rng.random() < 0.2, maxops=2)))
    for _ in range(500 * k):
        cases.append(("text_hist", rmeta_hist(rng)))
    for _ in range(2500 * k):   # several live values: copies / derived values next to their source
        cases.append(("store_hist", rstore(rng, wild=False, maxops=rng.choice([3, 6, 12]))))
    for _ in range(300 * k):
        cases.append(("store_hist", rstore(rng, wild=True)))
    for _ in range(400 * k):    # real highlighter objects (spec only: the matches are the regex engine's)
        txt = rng.choice(["x=12 [a, b] {'k': 3.5}", "GET /a?b=1 200", "<Foo id=3 ok=True>", "None 0x1f 10.0.0.1 'q'",
                          rstr(rng, 12, "ab12 =[](){}.'\"<>/"), rstr(rng, 10)])
        init, _n = rinit(rng)
        if rng.random() < 0.7:
            init = [s2t(txt), init[1], rspans(rng, len(clean(txt)))]
            if not init[2]:
                init[2] = [[0, len(clean(txt)), rng.randint(1, 6)]]
        which = rng.choice([0, 0, 1, 2, 2])
        cases.append(("hl_real", [init, which, [rng.randint(0, 6) for _ in range(rng.randint(0, 3))], rng.choice([0, 0, 0, 1])]))
    for _ in range(100 * k):
        cases.append(("strip", s2t(rstr(rng, 12, ALPHA))))
    return cases



# ---------------------------------------------------------------- well-formedness (the shrinker cuts lists blindly)
def _isint(x):
    return isinstance(x, int) and not isinstance(x, bool)


def _isstr(x):
    return isinstance(x, list) and all(_isint(c) and 0 <= c < 0x110000 and not (0xD800 <= c < 0xE000) for c in x)


def _isopt(x, f=_isint):
    return isinstance(x, list) and (x == [] or (len(x) == 1 and f(x[0])))


def _isspans(x):
    return isinstance(x, list) and all(isinstance(sp, list) and len(sp) == 3 and all(_isint(v) for v in sp)
                                       and 0 <= sp[2] <= 6 for sp in x)


def _istarg(a):
    return isinstance(a, list) and len(a) == 3 and _isstr(a[0]) and _isint(a[1]) and 0 <= a[1] <= 6 and _isspans(a[2])


def _islist(x, f):
    return isinstance(x, list) and all(f(v) for v in x)


def _ispart(p):
    if not (isinstance(p, list) and p and _isint(p[0])):
        return False
    if p[0] == 0:
        return len(p) == 2 and _isstr(p[1])
    if p[0] == 1:
        return len(p) == 3 and _isstr(p[1]) and _isopt(p[2])
    return p[0] == 2 and len(p) == 2 and _istarg(p[1])


def _ischar(c):
    return _isint(c) and 0 <= c < 0x110000 and not (0xD800 <= c < 0xE000)


def _style_ok(k):
    return _isint(k) and 0 <= k <= 6


_SCHEMA = {
    1: [_isstr, lambda x: _isopt(x, _style_ok)], 2: [_istarg], 3: [_istarg],
    4: [lambda x: _islist(x, lambda t: isinstance(t, list) and len(t) == 2 and _isstr(t[0]) and _isopt(t[1], _style_ok))],
    5: [_style_ok, lambda x: _islist(x, _ispart)], 6: [_istarg, lambda x: _islist(x, _istarg), lambda x: _islist(x, _istarg)],
    7: [lambda x: _islist(x, _istarg)], 8: [_isstr, _isint, _isint, _isint], 9: [lambda x: _islist(x, _isint), _isint],
    10: [_isint], 11: [_isopt, _isopt], 12: [_isint, _ischar], 13: [_isint, _ischar], 14: [_isint, _ischar],
    15: [lambda k: k in (0, 1, 2), _isint, _ischar], 16: [_isint, lambda k: k in (0, 1, 2, 3, 4), _isint],
    17: [_isint], 18: [_isint], 19: [], 20: [_isint], 21: [_isopt], 22: [], 23: [], 24: [_isstr], 25: [_isstr],
    30: [lambda x: _islist(x, lambda p: isinstance(p, list) and len(p) == 2 and _isstr(p[0]) and len(p[0]) > 0
                                and _style_ok(p[1]) and p[1] > 0),
         lambda k: k in (0, 1, 2), _isstr],
    26: [_style_ok, _isint, _isopt], 27: [lambda x: _islist(x, lambda w: _isstr(w) and len(w) > 0) and len(x) > 0, _style_ok],
    28: [lambda x: _isstr(x) and len(x) > 0, lambda k: _style_ok(k) and k > 0], 29: [_istarg],
}
TRIVIAL = [[[], [0, 0, 0, 0, [10], [8]], []], []]
TRIVIAL_STORE = [[[[], [0, 0, 0, 0, [10], [8]], []]], []]


def _isnat(x):
    return _isint(x) and 0 <= x <= 64


def _init_ok(init):
    s, m, sp = init
    return (_isstr(s) and isinstance(m, list) and len(m) == 6 and _style_ok(m[0]) and m[1] in range(6) and m[2] in range(5)
            and m[3] in range(3) and _isstr(m[4]) and _isopt(m[5]) and _isspans(sp))


def _op_ok(o):
    sch = _SCHEMA.get(o[0]) if isinstance(o, list) and o and _isint(o[0]) else None
    return sch is not None and len(o) == len(sch) + 1 and all(f(v) for f, v in zip(sch, o[1:]))


_SSCHEMA = {1: [_isnat, _isnat, _op_ok], 2: [_isnat, _op_ok], 3: [_isnat, _isnat], 4: [_isnat, _isnat], 5: [_isnat, _isnat],
            6: [_isnat, _isnat, lambda x: _islist(x, _isnat)], 7: [_isnat, _style_ok, lambda x: _islist(x, _isnat)]}


def _wfs(arg):
    try:
        inits, sops = arg
        ok = isinstance(inits, list) and len(inits) >= 1 and all(_init_ok(i) for i in inits) and isinstance(sops, list)
        for o in sops:
            sch = _SSCHEMA.get(o[0]) if isinstance(o, list) and o and _isint(o[0]) else None
            ok = ok and sch is not None and len(o) == len(sch) + 1 and all(f(v) for f, v in zip(sch, o[1:]))
        return arg if ok else TRIVIAL_STORE
    except Exception:
        return TRIVIAL_STORE



def _wf(arg):
    try:
        init, ops = arg
        s, m, sp = init
        ok = (_isstr(s) and isinstance(m, list) and len(m) == 6 and _style_ok(m[0]) and m[1] in range(6) and m[2] in range(5)
              and m[3] in range(3) and _isstr(m[4]) and _isopt(m[5]) and _isspans(sp) and isinstance(ops, list))
        for o in ops:
            sch = _SCHEMA.get(o[0]) if isinstance(o, list) and o and _isint(o[0]) else None
            ok = ok and sch is not None and len(o) == len(sch) + 1 and all(f(v) for f, v in zip(sch, o[1:]))
        return arg if ok else TRIVIAL
    except Exception:
        return TRIVIAL


# ---------------------------------------------------------------- implementation side
_styles = {}
_rev = {}
_names = {}


def _style(k):
    """abstract token -> a real style: 0 the null style "", odd k foreground k, even k background k"""
    from rich.style import Style
    if k == 0:
        return ""
    if k not in _styles:
        _styles[k] = Style.parse(f"color({k})" if k % 2 else f"on color({k})")
        _rev[id(_styles[k])] = k
    return _styles[k]


def _tok(style):
    if isinstance(style, str):
        if style == "":
            return 0
        if style.startswith("s.t"):          # "<base_style><group name>" of the harness's RegexHighlighter
            return int(style[3:])
        if style in _names:
            return _names[style]
        _names[style] = 100 + len(_names)     # any other style name (ReprHighlighter's): an opaque token
        return _names[style]
    if id(style) in _rev:
        return _rev[id(style)]
    if style.color is not None and style.bgcolor is None:
        return style.color.number
    if style.bgcolor is not None and style.color is None:
        return style.bgcolor.number
    return 0


def _ostyle(opt):
    return _style(opt[0]) if opt else None


def _spans(sp):
    from rich.text import Span
    return [Span(s, e, _style(k)) for s, e, k in sp]


def _arg(a):
    from rich.text import Text
    return Text(t2s(a[0]), style=_style(a[1]), spans=_spans(a[2]))


_console = []


def _state(t):
    from rich.console import Console
    import io
    if not _console:
        from rich.theme import Theme
        theme = Theme({f"s.t{k}": (f"color({k})" if k % 2 else f"on color({k})") for k in range(1, 7)})
        _console.append(Console(file=io.StringIO(), width=80, force_terminal=True, color_system="256",
                                legacy_windows=False, _environ={}, theme=theme))
    rendered = []
    try:
        for seg in t.render(_console[0]):
            st = seg.style
            fg = st.color.number if (st is not None and st.color is not None) else 0
            bg = st.bgcolor.number if (st is not None and st.bgcolor is not None) else 0
            for c in seg.text:
                rendered.append([ord(c), fg, bg])
    except (ValueError, RuntimeError):      # stack.remove on an inverted span / combine(()) past the end
        rendered = [[-1, -1, -1]]
    meta = [_tok(t.style), JUSTIFY.index(t.justify), OVERFLOW.index(t.overflow), NOWRAP.index(t.no_wrap),
            s2t(t.end), [] if t.tab_size is None else [t.tab_size]]
    return [s2t(t.plain), t._length, [[s.start, s.end, _tok(s.style)] for s in t._spans], meta, rendered]


def _pick(lines, k):
    if k < 0 or k >= len(lines):
        raise IndexError("line")
    return lines[k]


def _apply(t, o):
    from rich.text import Text
    k = o[0]
    if k == 1:
        t.append(t2s(o[1]), _ostyle(o[2]))
    elif k == 2:
        t.append(_arg(o[1]))
    elif k == 3:
        t.append_text(_arg(o[1]))
    elif k == 4:
        t.append_tokens([(t2s(s), _ostyle(st)) for s, st in o[1]])
    elif k == 5:
        parts = []
        for p in o[2]:
            if p[0] == 0:
                parts.append(t2s(p[1]))
            elif p[0] == 1:
                parts.append((t2s(p[1]), _ostyle(p[2])))
            else:
                parts.append(_arg(p[1]))
        return Text.assemble(t, *parts, style=_style(o[1]))
    elif k == 6:
        return _arg(o[1]).join([_arg(a) for a in o[2]] + [t] + [_arg(a) for a in o[3]])
    elif k == 7:
        return t.join([_arg(a) for a in o[1]])
    elif k == 8:
        return _pick(t.split(t2s(o[1]), include_separator=bool(o[2]), allow_blank=bool(o[3])), o[4])
    elif k == 9:
        return _pick(t.divide(o[1]), o[2])
    elif k == 10:
        return t[o[1]]
    elif k == 11:
        return t[(o[1][0] if o[1] else None):(o[2][0] if o[2] else None)]
    elif k == 12:
        t.pad(o[1], chr(o[2]))
    elif k == 13:
        t.pad_left(o[1], chr(o[2]))
    elif k == 14:
        t.pad_right(o[1], chr(o[2]))
    elif k == 15:
        t.align(["left", "center", "right"][o[1]], o[2], chr(o[3]))
    elif k == 16:
        t.truncate(o[1], overflow=OVERFLOW[o[2]], pad=bool(o[3]))
    elif k == 17:
        t.right_crop(o[1])
    elif k == 18:
        t.set_length(o[1])
    elif k == 19:
        t.rstrip()
    elif k == 20:
        t.rstrip_end(o[1])
    elif k == 21:
        t.expand_tabs(o[1][0] if o[1] else None)
    elif k == 22:
        return t.copy()
    elif k == 23:
        return t.blank_copy()
    elif k == 24:
        t.plain = t2s(o[1])
    elif k == 25:
        t.remove_suffix(t2s(o[1]))
    elif k == 26:
        t.stylize(_style(o[1]), o[2], o[3][0] if o[3] else None)
    elif k == 27:
        t.highlight_words([t2s(w) for w in o[1]], _style(o[2]))
    elif k == 28:
        import re
        t.highlight_regex("[" + re.escape(t2s(o[1])) + "]+", _style(o[2]))
    elif k == 29:
        t.copy_styles(_arg(o[1]))
    elif k == 30:
        hl = _highlighter(o[1])
        return hl(t if o[2] == 0 else t2s(o[3]) if o[2] == 1 else 12345)
    else:
        raise KeyError(k)
    return t


def _highlighter(pats):
    """a real highlighter object: NullHighlighter for no pattern, else a RegexHighlighter subclass whose
    patterns are named groups over a character class; style name = base_style + group name = "s.t<token>" """
    import re
    from rich.highlighter import NullHighlighter, RegexHighlighter
    if not pats:
        return NullHighlighter()

    class H(RegexHighlighter):
        base_style = "s."
        highlights = ["(?P<t%d>[%s]+)" % (k, re.escape(t2s(cs))) for cs, k in pats]
    return H()


def _mk(init):
    from rich.text import Text
    m = init[1]
    return Text(t2s(init[0]), style=_style(m[0]), justify=JUSTIFY[m[1]], overflow=OVERFLOW[m[2]], no_wrap=NOWRAP[m[3]],
                end=t2s(m[4]), tab_size=(m[5][0] if m[5] else None), spans=_spans(init[2]))


def _put(store, y, v):
    if y < len(store):
        store[y] = v
    else:
        store.append(v)


def _sapply(store, o):
    """one store operation on real Text OBJECTS; the other objects stay alive and are observed afterwards"""
    from rich.text import Text
    k = o[0]
    if k == 1:
        y, x, op = o[1], o[2], o[3]
        t = store[x]
        if op[0] not in PRODUCING and y != x:
            raise RuntimeError("in-place operation cannot bind another name")
        _put(store, y, _apply(t, op))
    elif k == 2:
        t = store[o[1]]
        op = o[2]
        if op[0] == 8:
            lines = t.split(t2s(op[1]), include_separator=bool(op[2]), allow_blank=bool(op[3]))
        elif op[0] == 9:
            lines = t.divide(op[1])
        else:
            raise RuntimeError("not a Lines operation")
        store.extend(list(lines))
    elif k in (3, 4, 5):
        t, z = store[o[1]], store[o[2]]
        if o[1] == o[2]:
            raise RuntimeError("self argument")
        if k != 5 and t._spans is z._spans:
            # two distinct live objects share one span list: extend(generator over itself) would never
            # end.  Skip the operation; the model performs it, so the states differ and the case is reported.
            raise RuntimeError("aliased span list")
        if k == 3:
            t.append(z)
        elif k == 4:
            t.append_text(z)
        else:
            t.copy_styles(z)
    elif k == 6:
        sep = store[o[2]]
        lines = [store[i] for i in o[3]]
        _put(store, o[1], sep.join(lines))
    elif k == 7:
        parts = [store[i] for i in o[3]]
        _put(store, o[1], Text.assemble(*parts, style=_style(o[2])))
    else:
        raise KeyError(k)


def _oc(e):
    from common import CRASH_ERRORS, DOC_ERRORS
    name = type(e).__name__
    return 100 + DOC_ERRORS[name] if name in DOC_ERRORS else 200 + CRASH_ERRORS.get(name, 99)


_guarded = []


def _guard():
    """the implementation under test may be broken in ways that do not terminate or eat memory"""
    if _guarded:
        return
    _guarded.append(1)
    try:
        import resource, signal
        resource.setrlimit(resource.RLIMIT_AS, (3 << 30, 3 << 30))

        def _alarm(signum, frame):
            raise TimeoutError("case took too long")
        signal.signal(signal.SIGALRM, _alarm)
    except Exception:
        pass


def impl(op, arg):
    from common import CRASH_ERRORS, DOC_ERRORS
    _guard()
    import signal
    signal.alarm(20)
    try:
        return _impl(op, arg)
    finally:
        signal.alarm(0)


REAL_REGEXES = [r"(?P<num>\d+)", r"\b(?P<word>[a-z]+)\b", r"(?P<brace>[\{\[\(\)\]\}])", r"a(?P<after_a>.)",
                r"(?P<all>.+)", r"(?P<none>q{3})", r"(?P<eq>\w+)=(?P<val>\w+)"]


def _impl_hl_real(arg):
    """[init, which, regex indexes, as_str]: ReprHighlighter() / NullHighlighter() / a RegexHighlighter with
    ordinary regexes, called on a styled Text (or on the same characters as a str).  Answer: the state of
    the source before, of the result, of the source afterwards, and whether result and source are one object"""
    from rich.highlighter import NullHighlighter, RegexHighlighter, ReprHighlighter
    if not _hl_real_wf(arg):
        arg = [TRIVIAL[0], 1, [], 0]
    init, which, idx, as_str = arg
    src = _mk(init)
    if which == 0:
        hl = ReprHighlighter()
    elif which == 1:
        hl = NullHighlighter()
    else:
        class H(RegexHighlighter):
            base_style = "x."
            highlights = [REAL_REGEXES[i % len(REAL_REGEXES)] for i in idx]
        hl = H()
    if as_str:
        from rich.text import Text
        before = _state(Text(src.plain))[:4]
        out = hl(src.plain)
        return [before, _state(out)[:4], before, 0]
    before = _state(src)[:4]
    out = hl(src)
    return [before, _state(out)[:4], _state(src)[:4], 1 if (out is src or out._spans is src._spans) else 0]


def _impl(op, arg):
    from common import CRASH_ERRORS, DOC_ERRORS
    if op == "hl_real":
        return _impl_hl_real(arg)
    if op == "strip":
        from rich.control import strip_control_codes
        return s2t(strip_control_codes(t2s(arg)))
    if op == "store_hist":
        inits, sops = _wfs(arg)
        store = [_mk(i) for i in inits]
        out = [[_state(t) for t in store]]
        for o in sops:
            oc = 0
            try:
                _sapply(store, o)
            except Exception as e:  # noqa
                oc = _oc(e)
            out.append([oc, [_state(t) for t in store]])
        return out
    from rich.text import Text
    init, ops = _wf(arg)
    t = _mk(init)
    out = [_state(t)]
    for o in ops:
        oc = 0
        try:
            t = _apply(t, o)
        except Exception as e:  # noqa
            name = type(e).__name__
            oc = 100 + DOC_ERRORS[name] if name in DOC_ERRORS else 200 + CRASH_ERRORS.get(name, 99)
        out.append([oc, _state(t)])
    return out


# ---------------------------------------------------------------- model side
def _hl_real_wf(arg):
    try:
        init, which, idx, as_str = arg
        return _init_ok(init) and which in (0, 1, 2) and _islist(idx, _isnat) and as_str in (0, 1)
    except Exception:
        return False


def model_case(op, arg):
    if op == "text_hist":
        arg = _wf(arg)
        return op, [FIXBITS, arg[0], arg[1]]
    if op == "store_hist":
        arg = _wfs(arg)
        return op, [FIXBITS, arg[0], arg[1]]
    return op, arg


def spec_cases(op, arg, out):
    if isinstance(out, dict):
        return []
    if op == "store_hist":
        arg = _wfs(arg)
        return [("spec.store_hist_ok", [arg[0], arg[1], out])]
    if op == "hl_real":
        if not (isinstance(out, list) and len(out) == 4):
            return []
        if out[3] == 1:      # result and source are one object / share a span list: not a copy
            return [("spec.hl_ok", [out[0], [[], -1, [], out[0][3]], out[2]])]
        return [("spec.hl_ok", [out[0], out[1], out[2]])]
    if op != "text_hist":
        return []
    arg = _wf(arg)
    return [("spec.text_hist_ok", [arg[0], arg[1], out])]


def describe(op, arg):
    try:
        if op == "store_hist":
            return "store of %d Text values, steps %r" % (len(arg[0]), [o[:3] if o[0] != 1 else [o[1], o[2], o[3][0]] for o in arg[1]])
        if op == "text_hist":
            return "Text(%r, spans=%r) then ops %r" % (t2s(arg[0][0]), arg[0][2], [o[0] for o in arg[1]])
    except Exception:
        pass
    return None
