"""Layer `conc` (C11): real threads on one rich Console, serialised by tools/sched_console.

ops
  vis   [rep, init, progs, vsched]   schedule directed at visible-event granularity; model and
                                     implementation must produce the same writes (with thread ids),
                                     captures, record order and screen rows
  line  [init, progs, seed, pswitch%] seeded random preemption at every executed line of
                                     rich/console.py, live.py, live_render.py and at every lock
                                     operation / file write; spec-only: the observed trace must be
                                     admissible in the model and satisfy the spec checkers
  live_race                          = vis + the strict screen statement (the D17 witness; not generated)
init = [live_started, [], fid, h]; progs = per thread a list of
  [0,id] print  [1,id] log  [2]/[3] with console: begin/end  [4]/[5] capture begin/end
  [6,fid,h,refresh] live.update  [7] live.refresh  [8] one _RefreshThread iteration  [9] start  [10] stop
"""
import re

OPS = {"vis": {}, "line": {"spec_only": True}, "live_race": {}, "progress_race": {"spec_only": True},
       "auto": {"spec_only": True}, "pstart": {"spec_only": True}}

W = 40


def model_case(op, arg):
    if op == "live_race":
        return ("vis", arg)
    return (op, arg)


# ------------------------------------------------------------------ implementation side

TOK = re.compile(
    r"(\r\x1b\[2K(?:\x1b\[1A\x1b\[2K)*)|(\x1b\[\?25[lh])|(?:(?=[^F])([^\n\x1b\rF]*?T(\d+)x(\d+)[^\n]*\n))|(F(\d+)r(\d+)\n?)|(\n)|(.)",
    re.S)


def parse_items(text):
    """written / captured text -> items of the model"""
    items = []
    open_frame = False      # last item is a frame whose last row ended with a newline
    for m in TOK.finditer(text):
        if m.group(6):
            fid, k = int(m.group(7)), int(m.group(8))
            if open_frame and items[-1][1] == fid and items[-1][2] == k:
                items[-1][2] = k + 1
                open_frame = m.group(6).endswith("\n")
                continue
            if open_frame:
                items.append([3, 2])    # the newline after the last frame row was Console.line()'s
            if k == 0:
                items.append([2, fid, 1])
            else:
                items.append([3, 2000 + k])     # a frame that does not start at row 0: no model item
            open_frame = m.group(6).endswith("\n") and items[-1][0] == 2
            continue
        if open_frame:
            items.append([3, 2])
        open_frame = False
        if m.group(1):
            items.append([1, m.group(1).count("\x1b[2K")])
        elif m.group(2):
            items.append([3, 0 if m.group(2).endswith("l") else 1])
        elif m.group(3):
            items.append([0, int(m.group(4)), int(m.group(5))])
        elif m.group(9):
            items.append([3, 2])
        else:
            items.append([3, 1000 + ord(m.group(10))])   # unexpected byte: no model item has this code
    if open_frame:
        items.append([3, 2])
    return items


def vt_rows(text):
    """a minimal terminal: CR, LF (onlcr), CSI 2K, CSI 1A, cursor show/hide -> list of row strings"""
    rows = [[]]
    r = c = 0
    i = 0
    n = len(text)
    while i < n:
        ch = text[i]
        if ch == "\x1b":
            m = re.compile(r"\x1b\[(\??[0-9;]*)([A-Za-z])").match(text, i)
            if not m:
                i += 1
                continue
            p, f = m.group(1), m.group(2)
            if f == "K" and p == "2":
                rows[r] = []
            elif f == "A":
                r = max(0, r - int(p or "1"))
            i = m.end()
            continue
        if ch == "\r":
            c = 0
        elif ch == "\n":
            r += 1
            c = 0
            while len(rows) <= r:
                rows.append([])
        else:
            row = rows[r]
            while len(row) < c:
                row.append(" ")
            if c < len(row):
                row[c] = ch
            else:
                row.append(ch)
            c += 1
        i += 1
    out = ["".join(x).rstrip() for x in rows]
    while out and out[-1] == "":
        out.pop()
    return out


def row_tree(s):
    m = re.search(r"T(\d+)x(\d+)", s)
    f = re.fullmatch(r"F(\d+)r(\d+)", s)
    if f:
        return [1, int(f.group(1)), int(f.group(2))]
    if m and not re.search(r"F\d+r\d+", s):
        return [0, int(m.group(1)), int(m.group(2))]
    if s == "":
        return [2]
    return [3]      # a row mixing a frame row and text: matches nothing in the model


def frame(fid, h):
    from rich.text import Text
    return Text("\n".join(f"F{fid}r{k}" for k in range(h)))


class OnceEvent:
    """stands in for _RefreshThread.done: wait() lets exactly `n` iterations happen"""

    def __init__(self, n):
        self.n = n

    def wait(self, timeout=None):
        self.n -= 1
        return self.n < 0

    def is_set(self):
        return False

    def set(self):
        self.n = 0


def run_impl(init, progs, mode, vsched=(), seed=0, pswitch=0.1):
    import os, sys
    sys.path.insert(0, os.path.join(os.path.dirname(os.path.dirname(os.path.abspath(__file__)))))
    from sched_console.sched import Scheduler, RLockProxy, HookList, SchedFile
    from rich.console import Console
    from rich.live import Live, _RefreshThread
    sched = Scheduler(mode=mode, vsched=vsched, seed=seed, pswitch=pswitch)
    f = SchedFile(sched)
    console = Console(file=f, width=W, height=60, force_terminal=True, color_system=None, legacy_windows=False,
                      record=True, _environ={}, log_path=False, log_time=False, highlight=False)
    console._lock = RLockProxy(sched, "Console._lock")
    console._record_buffer_lock = RLockProxy(sched, "Console._record_buffer_lock")
    console._render_hooks = HookList(sched)
    live = Live(frame(init[2], init[3]), console=console, auto_refresh=False, redirect_stdout=False,
                redirect_stderr=False, vertical_overflow="visible")
    live._lock = RLockProxy(sched, "Live._lock")
    if init[0]:
        live.start()      # on the main thread, before the scheduled phase
    f.all.clear()
    console._record_buffer.clear()
    caps = [[] for _ in progs]

    def body(t, ops):
        def go():
            stack = []
            for o in ops:
                k = o[0]
                if k == 0:
                    console.print(f"T{t}x{o[1]}")
                elif k == 1:
                    console.log(f"T{t}x{o[1]}")
                elif k == 2:
                    console.__enter__()
                elif k == 3:
                    console.__exit__(None, None, None)
                elif k == 4:
                    c = console.capture()
                    c.__enter__()
                    stack.append(c)
                elif k == 5:
                    if stack:
                        c = stack.pop()
                        c.__exit__(None, None, None)
                        caps[t].append(c.get())
                    else:
                        caps[t].append(console.end_capture())
                elif k == 6:
                    live.update(frame(o[1], o[2]), refresh=bool(o[3]))
                elif k == 7:
                    live.refresh()
                elif k == 8:
                    rt = _RefreshThread(live, 1000.0)
                    rt.done = OnceEvent(1)
                    rt.run()
                elif k == 9:
                    live.start()
                elif k == 10:
                    live.stop()
        return go

    ok = sched.run([body(t, ops) for t, ops in enumerate(progs)])
    writes = [[t, parse_items(text)] for t, text in f.writes]
    trace = [[t, c, parse_items(a[0])] if c == 2 else [t, c] + a for t, c, *a in sched.trace]
    cap_items = [[parse_items(s) for s in cs] for cs in caps]
    captured = {(it[1], it[2]) for cs in cap_items for p in cs for it in p if it[0] == 0}
    rec_text = console.export_text(clear=True, styles=False) if ok else ""
    rec_ids = [(int(a), int(b)) for a, b in re.findall(r"T(\d+)x(\d+)", rec_text)]
    record = [[t, 0 if (t, i) in captured else 1, [[0, t, i]]] for t, i in rec_ids]
    rows = [row_tree(s) for s in vt_rows("".join(f.all))]
    return {"ok": ok and not sched.errors, "errors": sched.errors, "writes": writes, "trace": trace, "caps": cap_items,
            "record": record, "rows": rows, "yields": sched.yields}


def run_progress_race(vsched):
    """D17 on Progress (no lock at all in Progress.process_renderables): thread 0 prints while
    thread 1 adds a task and refreshes.  Frame rows are the task descriptions F1r0, F1r1."""
    import os, sys
    sys.path.insert(0, os.path.join(os.path.dirname(os.path.dirname(os.path.abspath(__file__)))))
    from sched_console.sched import Scheduler, RLockProxy, HookList, SchedFile
    from rich.console import Console
    from rich.progress import Progress, TextColumn
    sched = Scheduler(mode="vis", vsched=vsched)
    f = SchedFile(sched)
    console = Console(file=f, width=W, height=60, force_terminal=True, color_system=None, legacy_windows=False,
                      record=True, _environ={}, highlight=False)
    console._lock = RLockProxy(sched, "Console._lock")
    console._record_buffer_lock = RLockProxy(sched, "Console._record_buffer_lock")
    console._render_hooks = HookList(sched)
    progress = Progress(TextColumn("{task.description}"), console=console, auto_refresh=False,
                        redirect_stdout=False, redirect_stderr=False)
    progress._lock = RLockProxy(sched, "Live._lock")     # logged with the code of the hook's lock
    progress.add_task("F1r0")
    progress.start()                                      # main thread: draws the 1-row frame
    pre = [[9, parse_items(t)] for t in f.all]

    def t0():
        console.print("T0x7")

    def t1():
        progress.add_task("F1r1")
        progress.refresh()
    ok = sched.run([t0, t1])
    writes = pre + [[t, parse_items(text)] for t, text in f.writes]
    rows = [row_tree(s) for s in vt_rows("".join(f.all))]
    return [writes, rows, 1 if ok and not sched.errors else 0]


def _mk_sched(mode, ctl):
    from sched_console.sched import Scheduler
    if mode == 0:
        return Scheduler(mode="vis", vsched=ctl)
    return Scheduler(mode="line", seed=ctl[0], pswitch=ctl[1] / 100.0)


def run_auto(transient, with_print, mode, ctl):
    """auto-refreshing Live: thread 0 = [print?] live.stop(); thread 1 = the refresh thread's run()
    (its done Event and join() are scheduler yield points); thread 2 = a user print (optional)."""
    import os, sys
    sys.path.insert(0, os.path.join(os.path.dirname(os.path.dirname(os.path.abspath(__file__)))))
    from sched_console.sched import RLockProxy, HookList, SchedFile, SchedEvent, sched_join
    import rich.live
    from rich.console import Console
    from rich.live import Live
    sched = _mk_sched(mode, ctl)
    f = SchedFile(sched)
    console = Console(file=f, width=W, height=60, force_terminal=True, color_system=None, legacy_windows=False,
                      record=True, _environ={}, highlight=False)
    console._lock = RLockProxy(sched, "Console._lock")
    console._record_buffer_lock = RLockProxy(sched, "Console._record_buffer_lock")
    console._render_hooks = HookList(sched)
    live = Live(frame(1, 2), console=console, auto_refresh=True, refresh_per_second=1000.0, transient=bool(transient),
                redirect_stdout=False, redirect_stderr=False, vertical_overflow="visible")
    live._lock = RLockProxy(sched, "Live._lock")
    orig_start = rich.live._RefreshThread.start
    rich.live._RefreshThread.start = lambda self: None     # the refresh thread is run by the scheduler
    try:
        live.start()
    finally:
        rich.live._RefreshThread.start = orig_start
    rt = live._refresh_thread
    rt.done = SchedEvent(sched, max_false=2)
    rt.join = sched_join(sched, 1)
    f.all.clear()
    console._record_buffer.clear()

    def t0():
        if with_print & 1:
            console.print("T0x1")
        live.stop()

    def t1():
        rt.run()

    def t2():
        console.print("T2x2")
    bodies = [t0, t1] + ([t2] if with_print & 2 else [])
    ok = sched.run(bodies)
    trace = [[t, c, parse_items(a[0])] if c == 2 else [t, c] + a for t, c, *a in sched.trace]
    writes = [[t, parse_items(text)] for t, text in f.writes]
    progs = [([[0, 1]] if with_print & 1 else []) + [[11, 1]], [[12]]] + ([[[0, 2]]] if with_print & 2 else [])
    return [trace, writes, progs, 0 if (ok and not sched.errors) else 1, [str(e) for e in sched.errors]]


def run_pstart(nthreads, mode, ctl):
    """nthreads threads call progress.start() concurrently: the body must run once"""
    import os, sys
    sys.path.insert(0, os.path.join(os.path.dirname(os.path.dirname(os.path.abspath(__file__)))))
    from sched_console.sched import RLockProxy, HookList, SchedFile
    from rich.console import Console
    from rich.progress import Progress, TextColumn
    sched = _mk_sched(mode, ctl)
    f = SchedFile(sched)
    console = Console(file=f, width=W, height=60, force_terminal=True, color_system=None, legacy_windows=False,
                      record=True, _environ={}, highlight=False)
    console._lock = RLockProxy(sched, "Console._lock")
    console._record_buffer_lock = RLockProxy(sched, "Console._record_buffer_lock")
    hooks = HookList(sched)
    maxlen = [0]
    orig_append = hooks.append

    def append(x):
        orig_append(x)
        maxlen[0] = max(maxlen[0], len(hooks))
    hooks.append = append
    console._render_hooks = hooks
    progress = Progress(TextColumn("{task.description}"), console=console, auto_refresh=False,
                        redirect_stdout=False, redirect_stderr=False)
    progress._lock = RLockProxy(sched, "Live._lock")
    progress.add_task("F1r0")
    ok = sched.run([progress.start for _ in range(nthreads)])
    rows = [row_tree(s) for s in vt_rows("".join(f.all))]
    nframe = sum(1 for r in rows if r == [1, 1, 0])
    return [len(hooks), maxlen[0], nframe, 0 if (ok and not sched.errors) else 1, [str(e) for e in sched.errors]]


def impl(op, arg):
    if op == "auto":
        return run_auto(arg[0], arg[1], arg[2], arg[3])
    if op == "pstart":
        return run_pstart(arg[0], arg[1], arg[2])
    if op == "progress_race":
        return run_progress_race(arg[0])
    if op in ("vis", "live_race"):
        rep, init, progs, vsched = arg
        r = run_impl(init, progs, "vis", vsched=vsched)
        if r["errors"]:
            raise RuntimeError(str(r["errors"]))
        recids = [[e[0], e[2][0][2]] for e in r["record"] if e[1] == 1]
        return [r["writes"], r["caps"], recids, r["rows"], 1 if r["ok"] else 0]
    if op == "line":
        init, progs, seed, psw = arg
        r = run_impl(init, progs, "line", seed=seed, pswitch=psw / 100.0)
        if r["errors"]:
            raise RuntimeError(str(r["errors"]))
        return [r["trace"], r["writes"], r["caps"], r["record"], r["rows"], 0 if r["ok"] else 1]
    raise KeyError(op)


# ------------------------------------------------------------------ spec checkers on impl output

def has_startstop(progs):
    return any(o[0] in (9, 10) for p in progs for o in p)


def spec_cases(op, arg, out):
    if not isinstance(out, list):
        return []
    cases = []
    if op in ("vis", "live_race"):
        rep, init, progs, vsched = arg
        writes, caps, recids, rows, fin = out
        record = [[t, 1, [[0, t, i]]] for t, i in recids]
        cases.append(("spec.no_deadlock", [fin]))
        if fin:
            cases.append(("spec.writes_atomic", [progs, writes]))
            cases.append(("spec.captures_isolated", [progs, caps]))
            cases.append(("spec.record_order", [writes, record]))
        if op == "live_race":
            cases.append(("spec.screen_rows", [writes, rows]))
    elif op == "auto":
        trace, writes, progs, dead, errors = out
        cases.append(("spec.no_deadlock", [1 - dead]))
        if not dead and not arg[0]:       # the transient erase is not in the model: trace replay for transient=0
            cases.append(("spec.trace_ok", [0, [1, [], 1, 2], progs, trace, [[] for _ in progs]]))
    elif op == "pstart":
        nh, mx, nframe, dead, errors = out
        cases.append(("spec.no_deadlock", [1 - dead]))
        cases.append(("spec.started_once", [nh, mx, nframe]))
    elif op == "progress_race":
        writes, rows, fin = out
        cases.append(("spec.no_deadlock", [fin]))
        cases.append(("spec.screen_rows", [writes, rows]))
    elif op == "line":
        init, progs, seed, psw = arg
        trace, writes, caps, record, rows, dead = out
        cases.append(("spec.no_deadlock", [1 - dead]))
        if not dead:
            cases.append(("spec.trace_ok", [0, init, progs, trace, caps]))
            cases.append(("spec.writes_atomic", [progs, writes]))
            cases.append(("spec.captures_isolated", [progs, caps]))
            cases.append(("spec.record_order", [writes, record]))
            if init[0] and not has_startstop(progs):
                cases.append(("spec.live_screen", [init, progs, trace, rows]))
    return cases


def known_progress_race(op, arg):
    """matcher for known_findings.json: the Progress instance of D17 = op progress_race"""
    return op == "progress_race"


def known_live_race(op, arg):
    """matcher for known_findings.json: the D17 witness class = op live_race"""
    return op == "live_race"


# ------------------------------------------------------------------ generators

def tiny_programs():
    """2-thread programs explored exhaustively up to 2 preemptions (visible-event granularity)"""
    return [
        ([0, [], 1, 2], [[[0, 1], [0, 2]], [[0, 1]]]),
        ([0, [], 1, 2], [[[2], [0, 1], [0, 2], [3]], [[1, 1]]]),
        ([0, [], 1, 2], [[[4], [0, 1], [5], [0, 2]], [[0, 1]]]),
        ([0, [], 1, 2], [[[4], [0, 1], [5]], [[4], [0, 1], [5]]]),
        ([1, [], 1, 2], [[[0, 1]], [[7]]]),
        ([1, [], 1, 2], [[[0, 1]], [[6, 2, 3, 1]]]),
        ([1, [], 1, 2], [[[6, 1, 2, 1], [0, 7]], [[6, 2, 3, 1]]]),
        ([1, [], 1, 2], [[[4], [0, 1], [5]], [[8]]]),
        ([0, [], 1, 2], [[[9], [0, 1], [10]], [[0, 1]]]),
        ([0, [], 1, 1], [[[9], [7], [10]], [[1, 5], [0, 6]]]),
    ]


def two_preemption_schedules(rng, limit, maxlen=26):
    """a^i b^j a^BIG  and  b^i a^j b^BIG  (the tail is skipped once a thread has finished)"""
    out = []
    for a, b in ((0, 1), (1, 0)):
        for i in range(0, maxlen):
            for j in range(1, maxlen):
                out.append([a] * i + [b] * j + [a] * 60)
    if limit and len(out) > limit:
        out = rng.sample(out, limit)
    return out


def rprog(rng, t, live, allow_ss):
    ops = []
    n = rng.randint(1, 4)
    depth = []
    nid = [0]

    def fresh():
        nid[0] += 1
        return nid[0]
    for _ in range(n):
        r = rng.random()
        if r < 0.35:
            ops.append([rng.choice([0, 0, 1]), fresh()])
        elif r < 0.45 and len(depth) < 2:
            ops.append([2])
            depth.append(3)
        elif r < 0.55 and len(depth) < 2:
            ops.append([4])
            depth.append(5)
        elif r < 0.65 and depth:
            ops.append([depth.pop()])
        elif r < 0.78 and live:
            ops.append([6, rng.randint(1, 9), rng.randint(1, 4), rng.choice([0, 1, 1])])
        elif r < 0.88 and live:
            ops.append([rng.choice([7, 8])])
        elif r < 0.94 and allow_ss:
            ops.append([rng.choice([9, 10])])
        else:
            ops.append([0, fresh()])
    while depth:
        ops.append([depth.pop()])
    return ops


def rcase(rng):
    nt = rng.choice([2, 2, 3, 3, 4])
    live = rng.random() < 0.6
    ss = rng.random() < 0.25
    started = 1 if (live and not ss) else rng.choice([0, 0, 1])
    progs = [rprog(rng, t, live or ss, ss) for t in range(nt)]
    return [started, [], rng.randint(1, 9), rng.randint(1, 3)], progs


def generate(rng, tier):
    cases = []
    quick = tier == "quick"
    # exhaustive up to 2 preemptions on the tiny programs
    for init, progs in tiny_programs():
        for vs in two_preemption_schedules(rng, 150 if quick else 0, 18 if quick else 26):
            cases.append(("vis", [0, init, progs, vs]))
    # random programs, random visible-event schedules
    for _ in range(700 if quick else 8000):
        init, progs = rcase(rng)
        vs = [rng.randrange(len(progs)) for _ in range(rng.randint(0, 80))]
        cases.append(("vis", [0, init, progs, vs]))
    # auto-refresh thread vs stop() (join), and concurrent Progress.start(): <= 2 preemptions + random
    two = two_preemption_schedules(rng, 0, 12 if quick else 24)
    for transient in (0, 1):
        for wp in (0, 1):
            for vs in (rng.sample(two, 60) if quick else two):
                cases.append(("auto", [transient, wp, 0, vs]))
        for _ in range(40 if quick else 1500):
            nt = 3 if rng.random() < 0.4 else 2
            wp = rng.choice([0, 1]) | (2 if nt == 3 else 0)
            if rng.random() < 0.5:
                cases.append(("auto", [transient, wp, 0, [rng.randrange(nt) for _ in range(rng.randint(0, 60))]]))
            else:
                cases.append(("auto", [transient, wp, 1, [rng.randint(0, 10 ** 9), rng.choice([2, 5, 10, 30])]]))
    for vs in (rng.sample(two, 80) if quick else two):
        cases.append(("pstart", [2, 0, vs]))
    for _ in range(60 if quick else 2000):
        nt = rng.choice([2, 2, 3])
        if rng.random() < 0.5:
            cases.append(("pstart", [nt, 0, [rng.randrange(nt) for _ in range(rng.randint(0, 40))]]))
        else:
            cases.append(("pstart", [nt, 1, [rng.randint(0, 10 ** 9), rng.choice([2, 5, 10, 30])]]))
    # line-level preemption, seeded
    for _ in range(1500 if quick else 40000):
        init, progs = rcase(rng)
        cases.append(("line", [init, progs, rng.randint(0, 10 ** 9), rng.choice([2, 5, 10, 30])]))
    return cases


def describe(op, arg):
    names = {0: "print", 1: "log", 2: "with(", 3: ")", 4: "capture(", 5: ")", 6: "update", 7: "refresh", 8: "tick",
             9: "start", 10: "stop"}
    if op == "progress_race":
        return "progress_race: print || add_task refresh"
    if op == "auto":
        return "auto: [print] stop(join) || refresh-thread run" + (" transient" if arg[0] else "")
    if op == "pstart":
        return "pstart: %d x progress.start()" % arg[0]
    progs = arg[2] if op != "line" else arg[1]
    return op + ": " + " || ".join(" ".join(names[o[0]] for o in p) for p in progs)
