"""Layer `t2`: validates the statement-level translator (tools/translate/t2.py).  Every op runs a
function REGENERATED from the Python source (coq/gen/T2_*.v, extracted through model/DrvT2.v)
against its Python original.  No spec checkers: the properties live in C07 / C13 / C09; this layer
only makes a translator bug (or a Python/Gallina semantic gap) show as a disagreement."""
import itertools
from common import s2t, t2s

OPS = {
    "t2.ratio_reduce": {"res": True}, "t2.ratio_distribute": {"res": True}, "t2.collapse_widths": {"res": True},
    "t2.cw_range": {"noshrink": True}, "t2.set_cell_size": {"res": True}, "t2.chop_cells": {"res": True},
    "t2.normalize": {}, "t2.with_maximum": {}, "t2.with_minimum": {}, "t2.clamp": {},
    "t2.unpack": {"res": True}, "t2.padding_width": {}, "t2.extra_width": {},
    "t2.span_split": {}, "t2.span_move": {}, "t2.span_right_crop": {},
    "t2.get_ansi_codes": {"res": True}, "t2.position_cursor": {}, "t2.restore_cursor": {},
    "t2.adjust_line_length": {"res": True}, "t2.cell_length": {},
    "t2.task_remaining": {}, "t2.task_elapsed": {}, "t2.task_finished": {}, "t2.task_percentage": {"res": True},
    "t2.task_time_remaining": {"res": True}, "t2.style_add": {"res": True},
    "t2.bar_console": {"res": True}, "t2.pbar_console": {"res": True},
}

ASCII = "abcXYZ 09-_"
WIDE = "あ中\U0001f600Ａᄀ"
ZERO = "́​\x00\x1f\x7f҃"
MISC = "\xe9\xa0 \x1b\t"
ALPHA = ASCII + WIDE + ZERO + MISC
B = 2 ** 26


def rstr(rng, maxlen):
    pool = rng.choice([ASCII, ASCII, WIDE, ZERO, MISC, ALPHA])
    return "".join(rng.choice(pool if rng.random() < 0.7 else ALPHA) for _ in range(rng.randint(0, maxlen)))


def generate(rng, tier):
    k = 1 if tier == "quick" else 20
    cases = []
    # ---- ratio kernels: exhaustive small domains
    for total in range(0, 7):
        for ratios in itertools.product(range(0, 3), repeat=3):
            cases.append(("t2.ratio_distribute", [total, list(ratios), []]))
            for mins in ([1, 1, 1], [0, 2, 1], [3, 0, 0], []):
                cases.append(("t2.ratio_distribute", [total, list(ratios), [mins]]))
            for maxs in ([total, total, total], [1, 1, 1], [0, 2, 5]):
                cases.append(("t2.ratio_reduce", [total, list(ratios), maxs, [5, 3, 4]]))
    for widths in itertools.product(range(0, 5), repeat=3):
        for wrap in itertools.product([0, 1], repeat=3):
            for mw in (0, 2, 3, 5, 7):
                cases.append(("t2.collapse_widths", [list(widths), list(wrap), mw]))
    # ---- ratio kernels: random, incl. negative values, ragged lengths, values at the 2^26 bound
    for _ in range(600 * k):
        n = rng.choice([0, 1, 2, 3, 4, 6, 9])
        hi = B - 1 if rng.random() < 0.1 else rng.choice([3, 10, 100])
        lo = -3 if rng.random() < 0.15 else 0
        ratios = [rng.choice([0, 1, 1, rng.randint(lo, hi)]) for _ in range(n)]
        total = rng.choice([0, 1, rng.randint(0, hi), rng.randint(-20, 200)])
        mins = rng.choice([[], [[rng.choice([0, 1, 3, rng.randint(lo, 30)])
                                 for _ in range(rng.choice([n, n, max(0, n - 1), n + 1]))]]])
        cases.append(("t2.ratio_distribute", [total, ratios, mins]))
        maxs = [rng.choice([0, 1, 5, total, rng.randint(lo, 50)]) for _ in range(rng.choice([n, n, n + 1]))]
        vals = [rng.randint(0, 60) for _ in range(rng.choice([n, n, max(0, n - 1)]))]
        cases.append(("t2.ratio_reduce", [total, ratios, maxs, vals]))
    for _ in range(500 * k):
        n = rng.choice([1, 2, 3, 4, 6, 9])
        widths = [rng.choice([0, 1, 2, 3, rng.randint(0, 40), rng.randint(0, 200)]) for _ in range(n)]
        wrap = [1 if rng.random() < rng.choice([0.5, 0.9, 1.0]) else 0 for _ in range(rng.choice([n, n, n, n - 1, n + 1]))]
        mw = rng.choice([0, 1, n, sum(widths) - 1, sum(widths) // 2, rng.randint(-3, max(1, sum(widths)))])
        cases.append(("t2.collapse_widths", [widths, wrap, mw]))
    # ---- cells: every code point in the thorough tier, every 8th block of 4096 (+ the BMP head) in quick
    for lo in range(0, 0x110000, 4096):
        if tier != "quick" or (lo // 4096) % 8 == 0 or lo < 0x4000:
            cases.append(("t2.cw_range", [lo, min(lo + 4096, 0x110000)]))
    for _ in range(500 * k):
        s = rstr(rng, rng.choice([4, 12, 40, 80]))
        cases.append(("t2.set_cell_size", [s2t(s), rng.choice([0, 1, 2, 3, rng.randint(0, 20), rng.randint(0, 100)])]))
        w = rng.choice([1, 2, 2, 3, 4, rng.randint(2, 30)])
        cases.append(("t2.chop_cells", [s2t(s), w, 0 if rng.random() < 0.6 else rng.randint(0, w)]))
    # ---- measurements: exhaustive small domain + random
    R = range(-2, 5)
    for a in R:
        for b in R:
            cases.append(("t2.normalize", [a, b]))
            for w in R:
                cases.append(("t2.with_maximum", [[a, b], w]))
                cases.append(("t2.with_minimum", [[a, b], w]))
            for mn in ([], [-1], [0], [3]):
                for mx in ([], [-1], [2], [4]):
                    cases.append(("t2.clamp", [[a, b], mn, mx]))
    for _ in range(300 * k):
        a, b, w = (rng.randint(-50, 300) for _ in range(3))
        cases.append(("t2.normalize", [a, b]))
        cases.append(("t2.with_maximum", [[a, b], w]))
        cases.append(("t2.with_minimum", [[a, b], w]))
        cases.append(("t2.clamp", [[a, b], rng.choice([[], [rng.randint(-5, 100)]]), rng.choice([[], [rng.randint(-5, 100)]])]))
    for n in range(0, 7):
        for _ in range(6):
            cases.append(("t2.unpack", [rng.randint(0, 9) for _ in range(n)]))
    for pad in itertools.product(range(0, 4), repeat=2):
        for collapse in (0, 1):
            for idx in range(0, 3):
                cases.append(("t2.padding_width", [[1, pad[0], 2, pad[1]], collapse, idx]))
    for box in (0, 1):
        for edge in (0, 1):
            for n in range(0, 6):
                cases.append(("t2.extra_width", [box, edge, n]))
    # ---- spans: exhaustive small domain (style = opaque token)
    for a in range(-1, 5):
        for b in range(-1, 5):
            for off in range(-2, 6):
                for op in ("t2.span_split", "t2.span_move", "t2.span_right_crop"):
                    cases.append((op, [[a, b, 7], off]))
    # ---- Color.get_ansi_codes: every type x number/triplet presence x foreground
    for ty in range(0, 5):
        for num in ([], [0], [1], [7], [8], [15], [16], [255]):
            for trip in ([], [[1, 2, 3]], [[255, 0, 128]]):
                for fg in (0, 1):
                    cases.append(("t2.get_ansi_codes", [ty, num, trip, fg]))
    for _ in range(100 * k):
        cases.append(("t2.get_ansi_codes", [rng.randint(0, 4), [rng.randint(0, 300)],
                                            [[rng.randint(0, 255) for _ in range(3)]], rng.randint(0, 1)]))
    # ---- LiveRender cursor strings: no shape, heights around 0
    for op in ("t2.position_cursor", "t2.restore_cursor"):
        cases.append((op, []))
        for h in range(-2, 12):
            cases.append((op, [[rng.randint(0, 80), h]]))
    # ---- Segment.adjust_line_length
    for _ in range(700 * k):
        line = []
        for _ in range(rng.choice([0, 1, 2, 3, 4])):
            line.append([s2t(rstr(rng, 8)), [] if rng.random() < 0.3 else [rng.randint(1, 4)],
                         1 if rng.random() < 0.12 else 0])
        n = rng.choice([0, 1, 2, 3, rng.randint(0, 12), rng.randint(0, 40), rng.randint(-2, 0)])
        cases.append(("t2.adjust_line_length", [line, n, [] if rng.random() < 0.4 else [rng.randint(5, 6)], rng.randint(0, 1)]))
        if line:
            cases.append(("t2.cell_length", line[0]))
    # ---- Task derived values (numbers as [num, den]; ints and dyadic values, for which float arithmetic
    #      is exact or recoverable by limit_denominator)
    def q(lo, hi):
        return rng.choice([[rng.randint(lo, hi), 1], [rng.randint(lo, hi), 1], [rng.randint(lo * 4, hi * 4), rng.choice([2, 4, 8])]])
    for total in range(0, 6):
        for comp in range(-1, 8):
            cases.append(("t2.task_percentage", [[total, 1], [comp, 1]]))
            cases.append(("t2.task_remaining", [[total, 1], [comp, 1]]))
    for _ in range(200 * k):
        cases.append(("t2.task_percentage", [q(0, 1000), q(-5, 1200)]))
        cases.append(("t2.task_remaining", [q(0, 1000), q(-5, 1200)]))
        cases.append(("t2.task_elapsed", [q(0, 500), rng.choice([[], [q(0, 300)]]), rng.choice([[], [q(0, 500)]])]))
        cases.append(("t2.task_finished", rng.choice([[], [q(0, 9)]])))
        sp = rng.choice([[], [[[rng.randint(0, 40), 1], [rng.choice([0, 1, 2, 4, 8, 16]), 1]]],  # powers of two: the float speed is exact, so ceil() cannot differ from the rational model by IEEE rounding
                        
                         [[[rng.randint(1, 40), 1], [rng.choice([1, 2, 4, 8]), 1]]]])
        cases.append(("t2.task_time_remaining", [rng.randint(0, 1) if rng.random() < 0.3 else 0, sp,
                                                 [rng.randint(0, 500), 1], [rng.randint(0, 500), 1]]))
    # ---- Style.__add__: colours as tokens, 13-bit attribute words, link / link_id / null combinations
    def rsty():
        word = lambda: rng.choice([0, 1, rng.randint(0, 8191), 8191])
        return [rng.choice([[], [rng.randint(1, 4)]]), rng.choice([[], [rng.randint(1, 4)]]), word(), word(),
                rng.choice([[], [[]], [s2t("http://x")]]), rng.choice([[], s2t("123")]), 1 if rng.random() < 0.2 else 0]
    for _ in range(600 * k):
        cases.append(("t2.style_add", [rsty(), rng.choice([[], [rsty()], [rsty()]])]))
    # ---- Bar.__rich_console__: exhaustive small domain + random
    for size in range(0, 5):
        for b in range(-1, 5):
            for e in range(-1, 6):
                for W in (0, 1, 3, 8):
                    cases.append(("t2.bar_console", [[], b, e, size, [1], W]))
    for _ in range(500 * k):
        size = rng.choice([1, 2, 7, 10, 100, rng.randint(1, 1000)])
        b = rng.randint(-2, size + 2)
        e = rng.randint(-2, size + 3)
        cases.append(("t2.bar_console", [rng.choice([[], [0], [5], [30], [rng.randint(1, 60)]]), b, e, size, [1],
                                         rng.choice([0, 1, 2, 10, 40, rng.randint(0, 120)])]))
    # ---- ProgressBar.__rich_console__ (non-pulse path): exhaustive small domain + random
    for total in range(0, 5):
        for comp in range(-1, 6):
            for W in (0, 1, 2, 5):
                for flags in ((0, 0, 0, 1), (1, 0, 0, 1), (0, 0, 1, 1), (0, 0, 0, 0), (0, 1, 0, 1)):
                    cases.append(("t2.pbar_console", [[], total, comp, W] + list(flags)))
    for _ in range(500 * k):
        total = rng.choice([0, 1, 3, 10, 100, rng.randint(1, 1000)])
        cases.append(("t2.pbar_console", [rng.choice([[], [0], [7], [40]]), total, rng.randint(-3, total + 5),
                                          rng.choice([0, 1, 2, 9, 40, rng.randint(0, 100)]), rng.randint(0, 1),
                                          rng.randint(0, 1), rng.randint(0, 1), rng.randint(0, 1)]))
    return cases


def _mksty(t):
    from rich.style import Style
    from rich.color import Color
    s = Style.__new__(Style)
    s._ansi = s._style_definition = s._hash = None
    s._color = Color.parse("color(%d)" % t[0][0]) if t[0] else None
    s._bgcolor = Color.parse("color(%d)" % t[1][0]) if t[1] else None
    s._attributes, s._set_attributes = t[2], t[3]
    s._link = t2s(t[4][0]) if t[4] else None
    s._link_id = t2s(t[5])
    s._null = bool(t[6])
    return s


def _usty(s):
    return [[s._color.number] if s._color else [], [s._bgcolor.number] if s._bgcolor else [], s._attributes,
            s._set_attributes, [] if s._link is None else [s2t(s._link)], s2t(s._link_id), 1 if s._null else 0]


def _num(p):
    return p[0] if p[1] == 1 else p[0] / p[1]


def _uq(x):
    from fractions import Fraction
    f = Fraction(x).limit_denominator(10 ** 6)
    return [f.numerator, f.denominator]


def _task(total, completed, now=0):
    from rich.progress import Task
    return Task(0, "", total, completed, _get_time=lambda: now)


_styles = {}


def _style(opt):
    from rich.style import Style
    if not opt:
        return None
    if opt[0] not in _styles:
        _styles[opt[0]] = Style.parse("color(%d)" % opt[0])
    return _styles[opt[0]]


def _seg(t):
    from rich.segment import Segment
    return Segment(t2s(t[0]), _style(t[1]), bool(t[2]))


def _useg(g):
    return [s2t(g.text), [] if g.style is None else [g.style.color.number], 1 if g.is_control else 0]


def _span(t):
    from rich.text import Span
    return Span(t[0], t[1], "tok%d" % t[2])


def _uspan(sp):
    return [sp.start, sp.end, int(sp.style[3:])]


def impl(op, arg):
    from rich import cells
    from rich._ratio import ratio_reduce, ratio_distribute
    from rich.measure import Measurement
    if op == "t2.ratio_reduce":
        return ratio_reduce(arg[0], list(arg[1]), list(arg[2]), list(arg[3]))
    if op == "t2.ratio_distribute":
        if arg[2]:
            return ratio_distribute(arg[0], list(arg[1]), list(arg[2][0]))
        return ratio_distribute(arg[0], list(arg[1]))
    if op == "t2.collapse_widths":
        from rich.table import Table
        return Table._collapse_widths(list(arg[0]), [bool(b) for b in arg[1]], arg[2])
    if op == "t2.cw_range":
        return [cells.get_character_cell_size(chr(cp)) for cp in range(arg[0], arg[1])]
    if op == "t2.set_cell_size":
        return s2t(cells.set_cell_size(t2s(arg[0]), arg[1]))
    if op == "t2.chop_cells":
        return [s2t(p) for p in cells.chop_cells(t2s(arg[0]), arg[1], arg[2])]
    if op == "t2.normalize":
        return list(Measurement(arg[0], arg[1]).normalize())
    if op == "t2.with_maximum":
        return list(Measurement(*arg[0]).with_maximum(arg[1]))
    if op == "t2.with_minimum":
        return list(Measurement(*arg[0]).with_minimum(arg[1]))
    if op == "t2.clamp":
        return list(Measurement(*arg[0]).clamp(arg[1][0] if arg[1] else None, arg[2][0] if arg[2] else None))
    if op == "t2.unpack":
        from rich.padding import Padding
        return list(Padding.unpack(tuple(arg)))
    if op == "t2.padding_width":
        from rich.table import Table
        t = Table(padding=tuple(arg[0]), collapse_padding=bool(arg[1]))
        return t._get_padding_width(arg[2])
    if op == "t2.extra_width":
        from rich import box
        from rich.table import Table
        t = Table(box=box.SQUARE if arg[0] else None, show_edge=bool(arg[1]))
        for i in range(arg[2]):
            t.add_column(str(i))
        return t._extra_width
    if op == "t2.get_ansi_codes":
        from rich.color import Color, ColorType
        from rich.color_triplet import ColorTriplet
        c = Color("x", ColorType(arg[0]), arg[1][0] if arg[1] else None, ColorTriplet(*arg[2][0]) if arg[2] else None)
        return [s2t(x) for x in Color.get_ansi_codes.__wrapped__(c, bool(arg[3]))]
    if op in ("t2.position_cursor", "t2.restore_cursor"):
        from rich.live_render import LiveRender
        lr = LiveRender("")
        lr._shape = tuple(arg[0]) if arg else None
        return s2t(str(lr.position_cursor() if op == "t2.position_cursor" else lr.restore_cursor()))
    if op == "t2.adjust_line_length":
        from rich.segment import Segment
        line, n, style, pad = arg
        return [_useg(g) for g in Segment.adjust_line_length([_seg(t) for t in line], n, style=_style(style), pad=bool(pad))]
    if op == "t2.cell_length":
        return _seg(arg).cell_length
    if op == "t2.bar_console":
        import types
        from rich.bar import Bar
        bar = Bar(arg[3], arg[1], arg[2], width=arg[0][0] if arg[0] else None)
        segs = list(bar.__rich_console__(None, types.SimpleNamespace(max_width=arg[5])))
        return [[s2t(g.text), [1] if g.style is not None else [], 1 if g.is_control else 0] for g in segs]
    if op == "t2.pbar_console":
        import types
        from rich.progress_bar import ProgressBar
        w, total, comp, W, lw, ao, nc, hc = arg
        pb = ProgressBar(total, comp, w[0] if w else None, False, 1, 2, 3)
        console = types.SimpleNamespace(get_style=lambda s: s, no_color=bool(nc), color_system="x" if hc else None)
        options = types.SimpleNamespace(max_width=W, legacy_windows=bool(lw), ascii_only=bool(ao))
        return [[s2t(g.text), [] if g.style is None else [g.style], 1 if g.is_control else 0]
                for g in pb.__rich_console__(console, options)]
    if op == "t2.style_add":
        return _usty(_mksty(arg[0]) + (_mksty(arg[1][0]) if arg[1] else None))
    if op == "t2.task_remaining":
        return _uq(_task(_num(arg[0]), _num(arg[1])).remaining)
    if op == "t2.task_percentage":
        return _uq(_task(_num(arg[0]), _num(arg[1])).percentage)
    if op == "t2.task_elapsed":
        t = _task(10, 0, _num(arg[0]))
        t.start_time = _num(arg[1][0]) if arg[1] else None
        t.stop_time = _num(arg[2][0]) if arg[2] else None
        e = t.elapsed
        return [] if e is None else [_uq(e)]
    if op == "t2.task_finished":
        t = _task(10, 0)
        t.finished_time = _num(arg[0]) if arg else None
        return 1 if t.finished else 0
    if op == "t2.task_time_remaining":
        from rich.progress import ProgressSample
        t = _task(_num(arg[2]), _num(arg[3]))
        t.start_time = 0.0
        if arg[0]:
            t.finished_time = 1.0
        if arg[1]:
            c, d = arg[1][0]
            t._progress.append(ProgressSample(0.0, 0))
            t._progress.append(ProgressSample(float(_num(d)), _num(c)))
        r = t.time_remaining
        return [] if r is None else [_uq(r)]
    if op == "t2.span_split":
        a, b = _span(arg[0]).split(arg[1])
        return [_uspan(a), [] if b is None else [_uspan(b)]]
    if op == "t2.span_move":
        return _uspan(_span(arg[0]).move(arg[1]))
    if op == "t2.span_right_crop":
        return _uspan(_span(arg[0]).right_crop(arg[1]))
    raise KeyError(op)


def describe(op, arg):
    try:
        if op in ("t2.set_cell_size", "t2.chop_cells"):
            return repr((t2s(arg[0]),) + tuple(arg[1:]))
    except Exception:
        pass
    return None
