"""Layer `t2`: validates the statement-level translator (tools/translate/t2.py).  Every op runs a
function REGENERATED from the Python source (coq/gen/T2_*.v, extracted through model/DrvT2.v)
against its Python original.  No spec checkers: the properties live in C07 / C13 / C09; this layer
only makes a translator bug (or a Python/Gallina semantic gap) show as a disagreement."""
import itertools
from common import s2t, t2s

OPS = {
    "t2.ratio_reduce": {"res": True}, "t2.ratio_distribute": {"res": True}, "t2.collapse_widths": {"res": True},
    "t2.cw_range": {"noshrink": True}, "t2.set_cell_size": {"res": True}, "t2.chop_cells": {"res": True},
    "t2.normalize": {}, "t2.with_maximum": {}, "t2.with_minimum": {}, "t2.clamp": {},
    "t2.unpack": {"res": True}, "t2.padding_width": {}, "t2.extra_width": {},
    "t2.span_split": {}, "t2.span_move": {}, "t2.span_right_crop": {},
}

ASCII = "abcXYZ 09-_"
WIDE = "あ中\U0001f600Ａᄀ"
ZERO = "́​\x00\x1f\x7f҃"
MISC = "\xe9\xa0 \x1b\t"
ALPHA = ASCII + WIDE + ZERO + MISC
B = 2 ** 26


def rstr(rng, maxlen):
    pool = rng.choice([ASCII, ASCII, WIDE, ZERO, MISC, ALPHA])
    return "".join(rng.choice(pool if rng.random() < 0.7 else ALPHA) for _ in range(rng.randint(0, maxlen)))


def generate(rng, tier):
    k = 1 if tier == "quick" else 20
    cases = []
    # ---- ratio kernels: exhaustive small domains
    for total in range(0, 7):
        for ratios in itertools.product(range(0, 3), repeat=3):
            cases.append(("t2.ratio_distribute", [total, list(ratios), []]))
            for mins in ([1, 1, 1], [0, 2, 1], [3, 0, 0], []):
                cases.append(("t2.ratio_distribute", [total, list(ratios), [mins]]))
            for maxs in ([total, total, total], [1, 1, 1], [0, 2, 5]):
                cases.append(("t2.ratio_reduce", [total, list(ratios), maxs, [5, 3, 4]]))
    for widths in itertools.product(range(0, 5), repeat=3):
        for wrap in itertools.product([0, 1], repeat=3):
            for mw in (0, 2, 3, 5, 7):
                cases.append(("t2.collapse_widths", [list(widths), list(wrap), mw]))
    # ---- ratio kernels: random, incl. negative values, ragged lengths, values at the 2^26 bound
    for _ in range(600 * k):
        n = rng.choice([0, 1, 2, 3, 4, 6, 9])
        hi = B - 1 if rng.random() < 0.1 else rng.choice([3, 10, 100])
        lo = -3 if rng.random() < 0.15 else 0
        ratios = [rng.choice([0, 1, 1, rng.randint(lo, hi)]) for _ in range(n)]
        total = rng.choice([0, 1, rng.randint(0, hi), rng.randint(-20, 200)])
        mins = rng.choice([[], [[rng.choice([0, 1, 3, rng.randint(lo, 30)])
                                 for _ in range(rng.choice([n, n, max(0, n - 1), n + 1]))]]])
        cases.append(("t2.ratio_distribute", [total, ratios, mins]))
        maxs = [rng.choice([0, 1, 5, total, rng.randint(lo, 50)]) for _ in range(rng.choice([n, n, n + 1]))]
        vals = [rng.randint(0, 60) for _ in range(rng.choice([n, n, max(0, n - 1)]))]
        cases.append(("t2.ratio_reduce", [total, ratios, maxs, vals]))
    for _ in range(500 * k):
        n = rng.choice([1, 2, 3, 4, 6, 9])
        widths = [rng.choice([0, 1, 2, 3, rng.randint(0, 40), rng.randint(0, 200)]) for _ in range(n)]
        wrap = [1 if rng.random() < rng.choice([0.5, 0.9, 1.0]) else 0 for _ in range(rng.choice([n, n, n, n - 1, n + 1]))]
        mw = rng.choice([0, 1, n, sum(widths) - 1, sum(widths) // 2, rng.randint(-3, max(1, sum(widths)))])
        cases.append(("t2.collapse_widths", [widths, wrap, mw]))
    # ---- cells: every code point in the thorough tier, every 8th block of 4096 (+ the BMP head) in quick
    for lo in range(0, 0x110000, 4096):
        if tier != "quick" or (lo // 4096) % 8 == 0 or lo < 0x4000:
            cases.append(("t2.cw_range", [lo, min(lo + 4096, 0x110000)]))
    for _ in range(500 * k):
        s = rstr(rng, rng.choice([4, 12, 40, 80]))
        cases.append(("t2.set_cell_size", [s2t(s), rng.choice([0, 1, 2, 3, rng.randint(0, 20), rng.randint(0, 100)])]))
        w = rng.choice([1, 2, 2, 3, 4, rng.randint(2, 30)])
        cases.append(("t2.chop_cells", [s2t(s), w, 0 if rng.random() < 0.6 else rng.randint(0, w)]))
    # ---- measurements: exhaustive small domain + random
    R = range(-2, 5)
    for a in R:
        for b in R:
            cases.append(("t2.normalize", [a, b]))
            for w in R:
                cases.append(("t2.with_maximum", [[a, b], w]))
                cases.append(("t2.with_minimum", [[a, b], w]))
            for mn in ([], [-1], [0], [3]):
                for mx in ([], [-1], [2], [4]):
                    cases.append(("t2.clamp", [[a, b], mn, mx]))
    for _ in range(300 * k):
        a, b, w = (rng.randint(-50, 300) for _ in range(3))
        cases.append(("t2.normalize", [a, b]))
        cases.append(("t2.with_maximum", [[a, b], w]))
        cases.append(("t2.with_minimum", [[a, b], w]))
        cases.append(("t2.clamp", [[a, b], rng.choice([[], [rng.randint(-5, 100)]]), rng.choice([[], [rng.randint(-5, 100)]])]))
    for n in range(0, 7):
        for _ in range(6):
            cases.append(("t2.unpack", [rng.randint(0, 9) for _ in range(n)]))
    for pad in itertools.product(range(0, 4), repeat=2):
        for collapse in (0, 1):
            for idx in range(0, 3):
                cases.append(("t2.padding_width", [[1, pad[0], 2, pad[1]], collapse, idx]))
    for box in (0, 1):
        for edge in (0, 1):
            for n in range(0, 6):
                cases.append(("t2.extra_width", [box, edge, n]))
    # ---- spans: exhaustive small domain (style = opaque token)
    for a in range(-1, 5):
        for b in range(-1, 5):
            for off in range(-2, 6):
                for op in ("t2.span_split", "t2.span_move", "t2.span_right_crop"):
                    cases.append((op, [[a, b, 7], off]))
    return cases


def _span(t):
    from rich.text import Span
    return Span(t[0], t[1], "tok%d" % t[2])


def _uspan(sp):
    return [sp.start, sp.end, int(sp.style[3:])]


def impl(op, arg):
    from rich import cells
    from rich._ratio import ratio_reduce, ratio_distribute
    from rich.measure import Measurement
    if op == "t2.ratio_reduce":
        return ratio_reduce(arg[0], list(arg[1]), list(arg[2]), list(arg[3]))
    if op == "t2.ratio_distribute":
        if arg[2]:
            return ratio_distribute(arg[0], list(arg[1]), list(arg[2][0]))
        return ratio_distribute(arg[0], list(arg[1]))
    if op == "t2.collapse_widths":
        from rich.table import Table
        return Table._collapse_widths(list(arg[0]), [bool(b) for b in arg[1]], arg[2])
    if op == "t2.cw_range":
        return [cells.get_character_cell_size(chr(cp)) for cp in range(arg[0], arg[1])]
    if op == "t2.set_cell_size":
        return s2t(cells.set_cell_size(t2s(arg[0]), arg[1]))
    if op == "t2.chop_cells":
        return [s2t(p) for p in cells.chop_cells(t2s(arg[0]), arg[1], arg[2])]
    if op == "t2.normalize":
        return list(Measurement(arg[0], arg[1]).normalize())
    if op == "t2.with_maximum":
        return list(Measurement(*arg[0]).with_maximum(arg[1]))
    if op == "t2.with_minimum":
        return list(Measurement(*arg[0]).with_minimum(arg[1]))
    if op == "t2.clamp":
        return list(Measurement(*arg[0]).clamp(arg[1][0] if arg[1] else None, arg[2][0] if arg[2] else None))
    if op == "t2.unpack":
        from rich.padding import Padding
        return list(Padding.unpack(tuple(arg)))
    if op == "t2.padding_width":
        from rich.table import Table
        t = Table(padding=tuple(arg[0]), collapse_padding=bool(arg[1]))
        return t._get_padding_width(arg[2])
    if op == "t2.extra_width":
        from rich import box
        from rich.table import Table
        t = Table(box=box.SQUARE if arg[0] else None, show_edge=bool(arg[1]))
        for i in range(arg[2]):
            t.add_column(str(i))
        return t._extra_width
    if op == "t2.span_split":
        a, b = _span(arg[0]).split(arg[1])
        return [_uspan(a), [] if b is None else [_uspan(b)]]
    if op == "t2.span_move":
        return _uspan(_span(arg[0]).move(arg[1]))
    if op == "t2.span_right_crop":
        return _uspan(_span(arg[0]).right_crop(arg[1]))
    raise KeyError(op)


def describe(op, arg):
    try:
        if op in ("t2.set_cell_size", "t2.chop_cells"):
            return repr((t2s(arg[0]),) + tuple(arg[1:]))
    except Exception:
        pass
    return None
