"""Layer `layout` (C01 rendered output never exceeds the available width; C09 measurements are sound).

Renderable trees (tag first; optional values are [] or [v]; texts are code point lists):
  [0, text, justify?, overflow?, no_wrap?]                      Text
  [1, R, top, right, bottom, left, expand]                      Padding
  [2, R, [[box, safe, legacy, ascii], title, title_align, expand, width?, [t,r,b,l]]]   Panel
  [3, R, how, pad, width?]                                      Align
  [4, R, width?]                                                Constrain
  [5, R]                                                        Styled
  [6, [R...], fit]                                              RenderGroup
  [7, title, characters, how]                                   Rule
  [8, size, begin, end, width?]                                 Bar
  [9, total, completed, width?, pulse, animation_time]          ProgressBar
  [10, [topts, box?, title, caption, [col...], [end_section...]], [[R...]...]]          Table
        topts = [box, edge, header, footer, lines, leading, [pt,pr,pb,pl], collapse, pad_edge, expand, width?, minw?]
        col   = [header, footer, justify, overflow, no_wrap, width?, min_width?, max_width?, ratio?]
  [11, [R...], [[t,r,b,l], expand, equal, column_first, right_to_left, align?, title]]  Columns
  [12, label R, [Tree...], expanded]                            Tree
  [13, R]   a renderable without __rich_measure__               [14, R]   an object cast via __rich__

ops   c01 [cfg, R, W, classes_only]      lines of list(Segment.split_lines(console.render(r, width=W)))  (never print /
                                         render_lines: their final crop would mask an overflowing child)
      c09 [cfg, R, avail, classes_only]  [Measurement.get(console, r, avail), [lines at the maximum, lines at the minimum]]
      text_measure [s, fix]  /  text_at_max [s, fix, justify?, overflow?]
      c09_hist [cfg, s0, edits, avail]   ONE Text instance: __rich_measure__ after every in-place edit (append, append_text,
                                         append_tokens, pad, pad_left, pad_right, stylize, truncate, right_crop, plain
                                         setter), then Measurement.get + renders at the maximum/minimum of the Text and of a
                                         Panel.fit that was built (and measured once) BEFORE the edits.  In the functional
                                         model measurement is a function of the current value; this op is the tie for any
                                         memoisation inside the objects.
      c09_get [cfg, R, max_width?]       Measurement.get(console, r) with max_width OMITTED ([]: None = console width) or given
                                         ([0], [w]); checked with meas_bounds_b against the resolved available width
      fits_raw [cfg, R, W]               as c01, checked with plain fits_b W lines (no domain guard); used only by the
                                         known-finding witness corpus/C01_known/*.json -- no generator emits it
cfg = [console width, fix_d20, colour system (0 None / 1 standard / 2 truecolor; optional)]; results carry their outcome class ([0, v] ok / [1, e] documented / [2, k] escape).
The spec-level checkers (spec.fits_dom, spec.meas_bounds, spec.meas_sound_dom, spec.text_meas, spec.not_wrapped) are
evaluated on the IMPLEMENTATION's lines and measurements of every case; the structural minimum and the option domain
they are conditioned on are computed by the model from the tree itself.
"""
from common import s2t, t2s, DOC_ERRORS, CRASH_ERRORS
import common

OPS = {"c01": {"noshrink": False}, "c09": {}, "text_measure": {}, "text_at_max": {},
       "c09_hist": {}, "c09_get": {}, "fits_raw": {}}     # fits_raw: c01 with the UNGUARDED checker spec.fits; known-finding witnesses only, never generated

# the model variant compared with the implementation: 1 = Text.__rich_measure__ splits lines at "\n" only
# (fixes/C09_text_measure_lines.diff applied), 0 = rich 9.10.0 as found (str.splitlines)
FIX_D20 = [1]

ASCII = "abcXYZ 09-_"
WIDE = "あ中\U0001f600Ａ"
ZERO = "\u0301\u200b"
ODD_SEPS = "\u2028\u2029\x85\x1c\x1d\x1e"
BOX_NAMES = ["ASCII", "ASCII2", "ASCII_DOUBLE_HEAD", "SQUARE", "SQUARE_DOUBLE_HEAD", "MINIMAL",
             "MINIMAL_HEAVY_HEAD", "MINIMAL_DOUBLE_HEAD", "SIMPLE", "SIMPLE_HEAD", "SIMPLE_HEAVY",
             "HORIZONTALS", "ROUNDED", "HEAVY", "HEAVY_EDGE", "HEAVY_HEAD", "DOUBLE", "DOUBLE_EDGE"]
ALIGN = ["left", "center", "right"]
JUSTIFY = ["default", "left", "center", "right", "full"]
OVERFLOW = ["fold", "crop", "ellipsis", "ignore"]


# ---------------------------------------------------------------- generators
_EDGES = [None]


def width_edges():
    """first / last code points of the ranges of rich/_cell_widths.py (read with ast from the tree under check) and the
    single-code-point ranges: (width-2 characters, width-0 characters).  A lookup that is off by one at a range
    boundary shows only on these.  Controls, whitespace, line separators and surrogates are left out."""
    if _EDGES[0] is None:
        import ast, os, re
        rows = None
        try:
            with open(os.path.join(common.REPO, "rich", "_cell_widths.py"), encoding="utf-8") as f:
                tree = ast.parse(f.read())
            for node in tree.body:
                if isinstance(node, ast.Assign) and any(getattr(t, "id", None) == "CELL_WIDTHS" for t in node.targets):
                    rows = [tuple(r) for r in ast.literal_eval(node.value)]
        except Exception:
            rows = None
        if not rows:
            with open(os.path.join(common.VERIF, "coq", "gen", "CellWidthTable.v")) as f:
                rows = [tuple(int(x.strip("() ")) for x in m) for m in
                        re.findall(r"\((\(?-?\d+\)?), (\(?-?\d+\)?), (\(?-?\d+\)?)\)", f.read())]
        wide, zero = [], []
        for (a, b, w) in sorted(rows):
            for cp in {a, b}:
                if cp < 0x300 or 0xD800 <= cp <= 0xDFFF or cp > 0x10FFFF:
                    continue
                ch = chr(cp)
                if ch.isspace() or ch in ODD_SEPS or ch in "\x08\x0b\x0c\r":
                    continue
                (wide if w == 2 else zero if w in (0, -1) else []).append(ch)
        _EDGES[0] = (wide or list(WIDE), zero or list(ZERO))
    return _EDGES[0]


def rtext(rng, maxlen=12, nl=True, odd=False):
    n = rng.choice([0, 1, 2, 3, 5, 8, maxlen, maxlen])
    pool = rng.choice([ASCII, ASCII, ASCII, WIDE, ASCII + WIDE, ASCII + WIDE + ZERO, ASCII + ZERO, None, None])
    if pool is None:       # range-boundary code points of the width table
        wide, zero = width_edges()
        pool = ASCII[:6] + "".join(rng.sample(wide, min(4, len(wide)))) + "".join(rng.sample(zero, min(2, len(zero))))
    s = "".join(rng.choice(pool) for _ in range(n))
    if nl and s and rng.random() < 0.35:
        for _ in range(rng.randint(1, 2)):
            k = rng.randint(0, len(s))
            s = s[:k] + "\n" + s[k:]
    if odd and s and rng.random() < 0.5:
        k = rng.randint(0, len(s))
        s = s[:k] + rng.choice(ODD_SEPS) + s[k:]
    return s


def opt(rng, p, f):
    return [f()] if rng.random() < p else []


def rpad4(rng):
    k = rng.random()
    if k < 0.3:
        return [0, 0, 0, 0]
    if k < 0.5:
        a = rng.randint(0, 2)
        return [a, a, a, a]
    if k < 0.75:
        a, b = rng.randint(0, 1), rng.randint(0, 3)
        return [a, b, a, b]
    return [rng.randint(0, 2), rng.randint(0, 4), rng.randint(0, 2), rng.randint(0, 4)]


def gtext(rng, maxlen=None, odd=False):
    odd = odd or (ODD_IN_TREES[0] and rng.random() < 0.15)
    return [0, s2t(rtext(rng, maxlen or rng.choice([4, 12, 30]), odd=odd)),
            opt(rng, 0.3, lambda: rng.randrange(5)),
            opt(rng, 0.35, lambda: rng.choice([0, 0, 1, 2, 2, 3]) if rng.random() < 0.1 else rng.choice([0, 1, 2])),
            opt(rng, 0.1, lambda: 1 if rng.random() < 0.3 else 0)]


def gtree_node(rng, depth, budget):
    kids = []
    if depth < 4 and rng.random() < 0.6:
        kids = [gtree_node(rng, depth + 1, budget) for _ in range(rng.randint(1, 3))]
    return [12, gen_r(rng, depth + 1, budget), kids, 0 if rng.random() < 0.15 else 1]


def gtable(rng, depth, budget):
    ncol = rng.choice([1, 1, 2, 2, 3, 4])
    nrow = rng.choice([0, 1, 1, 2, 3])
    box = opt(rng, 0.85, lambda: rng.randrange(len(BOX_NAMES)))
    topts = [1 if box else 0, rng.randint(0, 1) if rng.random() < 0.4 else 1, rng.randint(0, 1), 1 if rng.random() < 0.3 else 0,
             1 if rng.random() < 0.3 else 0, rng.choice([0, 0, 0, 1, 2]), rpad4(rng) if rng.random() < 0.5 else [0, 1, 0, 1],
             1 if rng.random() < 0.3 else 0, 0 if rng.random() < 0.3 else 1, 1 if rng.random() < 0.4 else 0, [],
             # Table(min_width=N): below, around and above the widths the table will be given
             opt(rng, 0.2, lambda: rng.choice([rng.randint(1, 12), rng.randint(10, 40), rng.randint(30, 120)]))]
    cols = []
    strict = rng.random() < 0.85         # inside the C01 option domain
    for _ in range(ncol):
        cols.append([s2t(rtext(rng, 6, nl=rng.random() < 0.2)), s2t(rtext(rng, 5, nl=False)),
                     rng.randrange(5), rng.choice([0, 1, 2, 2]) if (strict or rng.random() < 0.7) else 3,
                     0 if (strict or rng.random() < 0.7) else 1,
                     [] if (strict or rng.random() < 0.6) else [rng.randint(1, 8)],
                     [] if (strict or rng.random() < 0.6) else [rng.randint(1, 8)],
                     opt(rng, 0.2, lambda: rng.randint(1, 12)),
                     opt(rng, 0.25, lambda: rng.randint(1, 3))])
    rows = []
    for _ in range(nrow):
        rows.append([gen_r(rng, depth + 1, budget, cell=True) for _ in range(ncol)])
    es = [1 if rng.random() < 0.2 else 0 for _ in range(nrow)]
    title = s2t(rtext(rng, 10, nl=rng.random() < 0.2)) if rng.random() < 0.3 else []
    caption = s2t(rtext(rng, 10, nl=False)) if rng.random() < 0.2 else []
    return [10, [topts, box, title, caption, cols, es], rows]


def gen_r(rng, depth, budget, cell=False):
    """a random renderable tree; nesting depth <= 4; budget[0] bounds the number of nodes"""
    budget[0] -= 1
    k = rng.random()
    leafp = [0.0, 0.25, 0.45, 0.65, 1.0][min(depth, 4)]
    if cell:
        leafp = max(leafp, 0.7)
    if budget[0] <= 0 or k < leafp:
        j = rng.random()
        if j < 0.04:
            return [6, [], 1]
        if j < 0.72:
            return gtext(rng)
        if j < 0.82:
            return [7, s2t(rtext(rng, rng.choice([3, 8, 30]), nl=rng.random() < 0.2)) if rng.random() < 0.6 else [],
                    s2t(rng.choice(["─", "=", "あ", "-*", "━"])), rng.randrange(3)]
        if j < 0.91:
            size = rng.choice([10, 100, 7])
            a = rng.randint(0, size)
            return [8, size, a, rng.randint(a, size), opt(rng, 0.3, lambda: rng.randint(0, 12))]
        total = rng.choice([100, 100, 0, 3, -5])
        return [9, total, rng.choice([0, total, total, total + 7, -3, rng.randint(0, 120)]), opt(rng, 0.3, lambda: rng.randint(0, 12)),
                1 if rng.random() < 0.2 else 0, rng.randint(0, 5)]
    k = rng.random()
    if k < 0.13:
        p = rpad4(rng)
        return [1, gen_r(rng, depth + 1, budget), p[0], p[1], p[2], p[3], rng.randint(0, 1)]
    if k < 0.28:
        title = s2t(rtext(rng, rng.choice([3, 8, 20]), nl=rng.random() < 0.2)) if rng.random() < 0.5 else []
        return [2, gen_r(rng, depth + 1, budget),
                [[rng.randrange(len(BOX_NAMES)), 1, 0, 0], title, rng.randrange(3), rng.randint(0, 1),
                 opt(rng, 0.2, lambda: rng.randint(6, 40)), rpad4(rng) if rng.random() < 0.6 else [0, 1, 0, 1]]]
    if k < 0.36:
        return [3, gen_r(rng, depth + 1, budget), rng.randrange(3), rng.randint(0, 1), opt(rng, 0.3, lambda: rng.randint(1, 30))]
    if k < 0.41:
        return [4, gen_r(rng, depth + 1, budget), opt(rng, 0.8, lambda: rng.randint(1, 40))]
    if k < 0.45:
        return [5, gen_r(rng, depth + 1, budget)]
    if k < 0.55:
        j = rng.random()
        if j < 0.12:            # the empty group, and groups of empty groups (measure_renderables' empty guard)
            return [6, [], 0 if rng.random() < 0.2 else 1]
        if j < 0.18:
            return [6, [[6, [], 1] for _ in range(rng.randint(1, 2))], 0 if rng.random() < 0.2 else 1]
        n = rng.randint(1, 3)
        kids = [gen_r(rng, depth + 1, budget) for _ in range(n)]
        return [6, kids, 0 if rng.random() < 0.2 else 1]
    if k < 0.75:
        return gtable(rng, depth, budget)
    if k < 0.85:
        n = rng.choice([0, 1, 2, 3, 4, 6])     # 0: Columns with no items
        items = [gen_r(rng, depth + 1, budget, cell=True) for _ in range(n)]
        p = rpad4(rng) if rng.random() < 0.5 else [0, 1, 0, 1]
        return [11, items, [p, rng.randint(0, 1), rng.randint(0, 1), rng.randint(0, 1), rng.randint(0, 1),
                            opt(rng, 0.4, lambda: rng.randrange(3)), s2t(rtext(rng, 8, nl=False)) if rng.random() < 0.2 else []]]
    if k < 0.93:
        return gtree_node(rng, depth, budget)
    if k < 0.965:
        return [13, gen_r(rng, depth + 1, budget)]
    c = gen_r(rng, depth + 1, budget)
    return [14, c] if c[0] != 14 else c


def rwidth(rng, smin):
    k = rng.random()
    if k < 0.4:
        return smin + rng.randint(-2, 3)
    if k < 0.75:
        return rng.randint(smin, smin + 30)
    return rng.choice([60, 80, 100, 150, 200, rng.randint(max(1, smin), 200)])


def model_smins(trees):
    try:
        outs = common.run_model([("smin", t) for t in trees])
        return [o[0] if isinstance(o, list) else 1 for o in outs]
    except Exception:
        return [1] * len(trees)


ODD_IN_TREES = [False]     # the C09 layer also puts the separators only str.splitlines knows into trees


def gen_trees(rng, tier, n_quick, n_thorough):
    n = n_quick if tier == "quick" else n_thorough
    trees = [gen_r(rng, 0, [rng.choice([6, 12, 25])]) for _ in range(n)]
    return trees, model_smins(trees)


def generate(rng, tier):
    """C01: every tree rendered at two widths from smin - 2 (smin computed by the model) up to 200"""
    trees, smins = gen_trees(rng, tier, 2000, 12000)
    cases = []
    fx = FIX_D20[0]
    for t, sm in zip(trees, smins):
        for _ in range(2):
            W = rwidth(rng, sm)
            cases.append(("c01", [[W, fx, rcolor(rng)], t, W, 0]))
    bars = bar_samples()
    for t, sm in zip(bars, model_smins(bars)):
        for color in (0, 1, 2):
            W = rng.choice([sm, sm + 1, sm + rng.randint(2, 12), rng.randint(max(sm, 1), 60)])
            cases.append(("c01", [[W, fx, color], t, W, 0]))
    return cases


def rcolor(rng):
    return rng.choice([0, 0, 1, 2])


def bar_samples():
    """Bar / ProgressBar: full, empty, over-full, negative, total = 0, fixed width, pulse -- alone, last in a group, in a
    panel, in a table cell"""
    bars = [[9, tot, comp, w, pulse, 2] for tot in (100, 0, 3, -5) for comp in (0, tot, tot + 7, -3, 40)
            for w in ([], [6]) for pulse in (0, 1) if not (pulse and comp not in (0, 40))]
    bars += [[8, 10, a, b, w] for (a, b) in ((0, 10), (0, 0), (3, 7), (10, 10)) for w in ([], [6])]
    tx = [0, s2t("ab"), [], [], []]
    topts = [1, 1, 0, 0, 0, 0, [0, 1, 0, 1], 0, 1, 1, [], []]
    col = [[], [], 1, 2, 0, [], [], [], []]
    out = []
    for i, b in enumerate(bars):
        out.append(b)
        k = i % 3
        if k == 0:
            out.append([6, [tx, b], 1])
        elif k == 1:
            out.append([2, b, [[3, 1, 0, 0], [], 1, i % 2, [], [0, 1, 0, 1]]])
        else:
            out.append([10, [topts, [3], [], [], [col, col], [0]], [[tx, b]]])
    return out


def kind_samples():
    """one small tree of every renderable kind (wider than a narrow console), plus the empty containers"""
    tx = [0, s2t("hello wide world"), [], [], []]
    topts = [1, 1, 1, 0, 0, 0, [0, 1, 0, 1], 0, 1, 0, [], []]
    col = [s2t("head"), [], 1, 2, 0, [], [], [], []]
    return [tx, [1, tx, 0, 2, 0, 2, 0], [2, tx, [[3, 1, 0, 0], s2t("title"), 1, 0, [], [0, 1, 0, 1]]],
            [3, tx, 1, 1, []], [4, tx, [30]], [5, tx], [6, [tx, tx], 1], [6, [], 1], [6, [[6, [], 1]], 1],
            [7, s2t("t"), s2t("-"), 1], [8, 10, 2, 7, []], [8, 10, 2, 7, [30]], [9, 100, 40, [], 0, 0], [9, 100, 40, [30], 0, 0],
            [10, [topts, [3], [], [], [col, col], [0]], [[tx, tx]]], [10, [topts, [3], [], [], [col], []], []],
            [11, [tx, tx, tx], [[0, 1, 0, 1], 0, 0, 0, 0, [], []]], [11, [], [[0, 1, 0, 1], 0, 0, 0, 0, [], []]],
            [12, tx, [[12, tx, [], 1]], 1], [12, [6, [], 1], [], 1], [13, tx], [14, tx],
            [2, [6, [], 1], [[3, 1, 0, 0], [], 1, 0, [], [0, 1, 0, 1]]], [3, [6, [], 1], 1, 1, []],
            [1, [6, [], 1], 0, 1, 0, 1, 0], [11, [[6, [], 1], tx], [[0, 1, 0, 1], 0, 0, 0, 0, [1], []]]]


def redit(rng):
    """an in-place edit of a Text: [kind, payload] (see DrvLayout.apply_edit)"""
    k = rng.choice([0, 0, 1, 7, 2, 3, 4, 5, 6, 6, 8, 9])
    if k in (0, 1, 7, 9):
        return [k, s2t(rtext(rng, rng.choice([3, 8, 20]), nl=rng.random() < 0.3))]
    if k in (2, 3, 4):
        return [k, rng.randint(1, 5)]
    if k == 5:
        return [k, 0]
    if k == 6:
        return [k, [rng.randint(1, 15), rng.randint(0, 1)]]
    return [k, rng.randint(1, 4)]


def generate_measure(rng, tier):
    """C09: Measurement.get at available widths 0..200 (also far below the content's needs), renders at the
    reported maximum / minimum, and the text measurement over every alphabet"""
    ODD_IN_TREES[0] = True
    try:
        trees, smins = gen_trees(rng, tier, 1500, 12000)
    finally:
        ODD_IN_TREES[0] = False
    cases = []
    fx = FIX_D20[0]
    for t, sm in zip(trees, smins):
        W = rwidth(rng, sm) if rng.random() < 0.6 else rng.randint(0, 200)
        avail = W if rng.random() < 0.7 else rng.randint(0, 200)
        cases.append(("c09", [[max(W, avail, 1), fx, rcolor(rng)], t, avail, 0]))   # console width >= every width handed down
    # Measurement.get with max_width omitted (= console width) and with max_width = 0: every tree, and one small
    # tree of every renderable kind at a narrow console
    for t, sm in zip(trees, smins):
        cw = rng.choice([rwidth(rng, sm), rng.randint(1, 12), rng.randint(1, 200)])
        cases.append(("c09_get", [[max(cw, 1), fx, rcolor(rng)], t, []]))
        if rng.random() < 0.3:
            cases.append(("c09_get", [[max(cw, 1), fx], t, [rng.choice([0, 0, 1, max(cw, 1) + rng.randint(1, 40)])]]))
    bars = bar_samples()
    for t, sm in zip(bars, model_smins(bars)):
        color = rng.choice([1, 2])
        avail = rng.choice([sm, sm + rng.randint(1, 10), 30])
        cases.append(("c09", [[max(avail, 1), fx, color], t, avail, 0]))
    for t in kind_samples():
        for cw in (1, 3, 7, 40):
            cases.append(("c09_get", [[cw, fx], t, []]))
            cases.append(("c09_get", [[cw, fx], t, [0]]))
    for _ in range(500 if tier == "quick" else 6000):
        s0 = rtext(rng, rng.choice([4, 12, 30]))
        edits = [redit(rng) for _ in range(rng.randint(1, 4))]
        avail = rng.choice([rng.randint(1, 12), rng.randint(1, 60), 80, 200])
        cases.append(("c09_hist", [[max(avail, 1), fx], s2t(s0), edits, avail]))
    for _ in range(1500 if tier == "quick" else 20000):
        s = rtext(rng, rng.choice([4, 12, 30]), odd=rng.random() < 0.3)
        cases.append(("text_measure", [s2t(s), fx]))
        cases.append(("text_at_max", [s2t(s), fx, opt(rng, 0.4, lambda: rng.randrange(5)), opt(rng, 0.4, lambda: rng.randrange(3))]))
    return cases


# ---------------------------------------------------------------- implementation side
class _NoMeasure:
    def __init__(self, r):
        self.r = r

    def __rich_console__(self, console, options):
        yield self.r


class _Cast:
    def __init__(self, r):
        self.r = r

    def __rich__(self):
        return self.r


def _text(cps):
    from rich.text import Text
    return Text(t2s(cps))


def build(t):
    from rich.text import Text
    k = t[0]
    if k == 0:
        return Text(t2s(t[1]), justify=JUSTIFY[t[2][0]] if t[2] else None,
                    overflow=OVERFLOW[t[3][0]] if t[3] else None,
                    no_wrap=bool(t[4][0]) if t[4] else None)
    if k == 1:
        from rich.padding import Padding
        return Padding(build(t[1]), (t[2], t[3], t[4], t[5]), expand=bool(t[6]))
    if k == 2:
        from rich.panel import Panel
        from rich import box as rbox
        b, title, talign, expand, width, pad = t[2]
        return Panel(build(t[1]), box=getattr(rbox, BOX_NAMES[b[0]]), safe_box=bool(b[1]),
                     title=_text(title) if title else None, title_align=ALIGN[talign], expand=bool(expand),
                     width=width[0] if width else None, padding=tuple(pad))
    if k == 3:
        from rich.align import Align
        return Align(build(t[1]), ALIGN[t[2]], pad=bool(t[3]), width=t[4][0] if t[4] else None)
    if k == 4:
        from rich.constrain import Constrain
        return Constrain(build(t[1]), t[2][0] if t[2] else None)
    if k == 5:
        from rich.styled import Styled
        return Styled(build(t[1]), "bold")
    if k == 6:
        from rich.console import RenderGroup
        return RenderGroup(*[build(c) for c in t[1]], fit=bool(t[2]))
    if k == 7:
        from rich.rule import Rule
        return Rule(_text(t[1]) if t[1] else "", characters=t2s(t[2]), align=ALIGN[t[3]])
    if k == 8:
        from rich.bar import Bar
        return Bar(t[1], t[2], t[3], width=t[4][0] if t[4] else None)
    if k == 9:
        from rich.progress_bar import ProgressBar
        return ProgressBar(total=t[1], completed=t[2], width=t[3][0] if t[3] else None, pulse=bool(t[4]),
                           animation_time=t[5])
    if k == 10:
        from rich.table import Table, Column
        from rich import box as rbox
        (opts, bx, title, caption, cols, es), rows = t[1], t[2]
        columns = [Column(header=_text(c[0]), footer=_text(c[1]), justify=JUSTIFY[c[2]], overflow=OVERFLOW[c[3]],
                          no_wrap=bool(c[4]), width=c[5][0] if c[5] else None, min_width=c[6][0] if c[6] else None,
                          max_width=c[7][0] if c[7] else None, ratio=c[8][0] if c[8] else None) for c in cols]
        tb = Table(*columns, title=_text(title) if title else None, caption=_text(caption) if caption else None,
                   box=getattr(rbox, BOX_NAMES[bx[0]]) if bx else None,
                   show_edge=bool(opts[1]), show_header=bool(opts[2]), show_footer=bool(opts[3]),
                   show_lines=bool(opts[4]), leading=opts[5], padding=tuple(opts[6]),
                   collapse_padding=bool(opts[7]), pad_edge=bool(opts[8]), expand=bool(opts[9]),
                   width=opts[10][0] if opts[10] else None, min_width=opts[11][0] if opts[11] else None)
        for i, row in enumerate(rows):
            tb.add_row(*[build(c) for c in row], end_section=bool(es[i]) if i < len(es) else False)
        return tb
    if k == 11:
        from rich.columns import Columns
        p, expand, equal, cf, rtl, align, title = t[2]
        return Columns([build(c) for c in t[1]], padding=tuple(p), expand=bool(expand), equal=bool(equal),
                       column_first=bool(cf), right_to_left=bool(rtl), align=ALIGN[align[0]] if align else None,
                       title=_text(title) if title else None)
    if k == 12:
        from rich.tree import Tree
        root = Tree(build(t[1]), expanded=bool(t[3]))

        def add(parent, kids):
            for kid in kids:
                node = parent.add(build(kid[1]), expanded=bool(kid[3]))
                add(node, kid[2])
        add(root, t[2])
        return root
    if k == 13:
        return _NoMeasure(build(t[1]))
    return _Cast(build(t[1]))


COLOR_SYSTEMS = [None, "standard", "truecolor"]


def console(W, color=0):
    """color: 0 = no colour system, 1 = "standard", 2 = "truecolor" (cfg[2]; only `color_system is not None` can change
    the CELLS of a rendering -- ProgressBar draws its remaining part only then; styles are stripped by the observation)"""
    import io
    from rich.console import Console
    return Console(width=W, file=io.StringIO(), color_system=COLOR_SYSTEMS[color], legacy_windows=False, _environ={})


def ccon(cfg):
    return console(cfg[0], cfg[2] if len(cfg) > 2 else 0)


def outcome(f, classes_only=False):
    try:
        v = f()
    except Exception as e:
        name = type(e).__name__
        if name in DOC_ERRORS:
            return [1, DOC_ERRORS[name]]
        return [2, CRASH_ERRORS.get(name, 99)]
    return [0, [] if classes_only else v]


def lines_at(con, r, w):
    from rich.segment import Segment
    opts = con.options.update(width=w)
    lines = list(Segment.split_lines(con.render(r, opts)))
    return [s2t("".join(s.text for s in l if not s.is_control)) for l in lines]


def ends_nl(t):
    """mirror of Layout.ends_nl: does the renderable's stream end with a new line?"""
    k = t[0]
    if k == 9:
        return False
    if k in (4, 5, 13, 14):
        return ends_nl(t[1])
    if k == 6:
        return ends_nl(t[1][-1]) if t[1] else True
    return True


def has_unterminated_group_child(t):
    """a RenderGroup with a child that ends without a new line (a ProgressBar, possibly behind Styled / Constrain /
    cast / no-measure wrappers or as the last child of a nested group) and is not the group's last child"""
    k = t[0]
    if k == 6:
        if any(not ends_nl(c) for c in t[1][:-1]):
            return True
        return any(has_unterminated_group_child(c) for c in t[1])
    if k in (1, 2, 3, 4, 5, 13, 14):
        return has_unterminated_group_child(t[1])
    if k == 10:
        return any(has_unterminated_group_child(c) for row in t[2] for c in row)
    if k == 11:
        return any(has_unterminated_group_child(c) for c in t[1])
    if k == 12:
        return has_unterminated_group_child(t[1]) or any(has_unterminated_group_child(c) for c in t[2])
    return False


def known_pbar_group(op, arg):
    """matcher for known_findings.json (C01-progress-bar-no-newline-in-group): the unguarded op on a tree in which a
    group holds a ProgressBar that is not its last child"""
    try:
        return op == "fits_raw" and has_unterminated_group_child(arg[1])
    except Exception:
        return False


def has_column_min_width(t):
    k = t[0]
    if k == 10:
        if any(c[6] or c[5] for c in t[1][4]):
            return True
        return any(has_column_min_width(c) for row in t[2] for c in row)
    if k in (1, 2, 3, 4, 5, 13, 14):
        return has_column_min_width(t[1])
    if k in (6, 11):
        return any(has_column_min_width(c) for c in t[1])
    if k == 12:
        return has_column_min_width(t[1]) or any(has_column_min_width(c) for c in t[2])
    return False


def known_col_minw(op, arg):
    """matcher for known_findings.json (C01-column-min-width-reimposed): the unguarded op on a tree holding a table with
    a column width / min_width"""
    try:
        return op == "fits_raw" and has_column_min_width(arg[1])
    except Exception:
        return False


def impl(op, arg):
    if op == "c01":
        cfg, t, W, co = arg
        con = ccon(cfg)
        return outcome(lambda: lines_at(con, build(t), W), co)
    if op == "fits_raw":
        cfg, t, W = arg
        con = ccon(cfg)
        return outcome(lambda: lines_at(con, build(t), W))
    if op == "c09":
        from rich.measure import Measurement
        cfg, t, avail, co = arg
        con = ccon(cfg)
        m = outcome(lambda: list(Measurement.get(con, build(t), avail)))
        if m[0] != 0:
            return [m, []]
        mn, mx = m[1]
        return [[0, []] if co else m,
                [outcome(lambda: lines_at(con, build(t), mx), co), outcome(lambda: lines_at(con, build(t), mn), co)]]
    if op == "c09_get":
        from rich.measure import Measurement
        cfg, t, mw = arg
        con = ccon(cfg)
        if mw:
            return outcome(lambda: list(Measurement.get(con, build(t), mw[0])))
        return outcome(lambda: list(Measurement.get(con, build(t))))
    if op == "c09_hist":
        from rich.measure import Measurement
        from rich.text import Text
        from rich.panel import Panel
        from rich import box as rbox
        cfg, s0, edits, avail = arg
        con = ccon(cfg)
        tx = Text(t2s(s0))
        pn = Panel(tx, box=rbox.SQUARE, expand=False)
        Measurement.get(con, pn, avail)          # measure the enclosing tree once before any edit
        steps = [[s2t(tx.plain), list(tx.__rich_measure__(con, avail))]]
        for k, p in edits:
            if k == 0:
                tx.append(t2s(p))
            elif k == 1:
                tx.append_text(Text(t2s(p)))
            elif k == 7:
                tx.append_tokens([(t2s(p), None)])
            elif k == 2:
                tx.pad(p)
            elif k == 3:
                tx.pad_left(p)
            elif k == 4:
                tx.pad_right(p)
            elif k == 5:
                tx.stylize("bold", 0, 2)
            elif k == 6:
                tx.truncate(p[0], overflow="crop", pad=bool(p[1]))
            elif k == 8:
                tx.right_crop(p)
            else:
                tx.plain = t2s(p)
            steps.append([s2t(tx.plain), list(tx.__rich_measure__(con, avail))])

        def obs(r):
            m = outcome(lambda: list(Measurement.get(con, r, avail)))
            if m[0] != 0:
                return [m, []]
            mn, mx = m[1]
            return [m, [outcome(lambda: lines_at(con, r, mx)), outcome(lambda: lines_at(con, r, mn))]]
        return [steps, obs(tx), obs(pn)]
    if op == "text_measure":
        from rich.measure import Measurement
        from rich.text import Text
        return list(Text(t2s(arg[0])).__rich_measure__(console(80), 80))
    if op == "text_at_max":
        from rich.text import Text
        s, fx, j, ov = arg
        tx = Text(t2s(s), justify=JUSTIFY[j[0]] if j else None, overflow=OVERFLOW[ov[0]] if ov else None)
        mx = tx.__rich_measure__(console(80), 80).maximum
        if mx < 1:
            return []
        return lines_at(console(max(mx, 1)), tx, mx)
    raise KeyError(op)


# ---------------------------------------------------------------- spec checkers on the implementation's output
def spec_cases(op, arg, out):
    if isinstance(out, dict):
        return []
    res = []
    if op == "c01":
        cfg, t, W, co = arg
        if out[0] == 0 and not co:
            res.append(("spec.fits_dom", [t, W, out[1]]))
    if op == "fits_raw":
        if out[0] == 0:
            res.append(("spec.fits", [arg[2], out[1]]))
    if op == "c09":
        cfg, t, avail, co = arg
        m, rest = out
        if m[0] == 0 and not co:
            if avail >= 0:
                res.append(("spec.meas_bounds", [avail, m[1]]))
            if rest and rest[0][0] == 0 and rest[1][0] == 0:
                res.append(("spec.meas_sound_dom", [t, m[1], rest[0][1], rest[1][1]]))
    if op == "c09_get":
        if out[0] == 0:
            avail = arg[2][0] if arg[2] else arg[0][0]
            if avail >= 0:
                res.append(("spec.meas_bounds", [avail, out[1]]))
    if op == "c09_hist":
        steps, otx, opn = out
        fx = arg[0][1]
        for plain, m in steps:        # after EVERY step: minimum = widest word, maximum = widest line of the current value
            if 9 not in plain and fx:
                res.append(("spec.text_meas", [plain, m]))
        final = steps[-1][0]
        ttree = [0, final, [], [], []]
        ptree = [2, ttree, [[3, 1, 0, 0], [], 1, 0, [], [0, 1, 0, 1]]]
        for tree, o in ((ttree, otx), (ptree, opn)):
            m, rest = o
            if m[0] == 0:
                res.append(("spec.meas_bounds", [arg[3], m[1]]))
                if rest and rest[0][0] == 0 and rest[1][0] == 0:
                    res.append(("spec.meas_sound_dom", [tree, m[1], rest[0][1], rest[1][1]]))
        m, rest = otx
        if m[0] == 0 and 9 not in final and fx and m[1][1] >= 1 and m[1][1] == steps[-1][1][1] and rest and rest[0][0] == 0:
            res.append(("spec.not_wrapped", [final, rest[0][1]]))
    if op == "text_measure":
        s = t2s(arg[0])
        if "\t" not in s and (arg[1] or not any(c in s for c in ODD_SEPS)):
            res.append(("spec.text_meas", [arg[0], out]))
    if op == "text_at_max":
        s = t2s(arg[0])
        if "\t" not in s and out:
            res.append(("spec.not_wrapped", [arg[0], out]))
    return res


def describe(op, arg):
    names = ["Text", "Padding", "Panel", "Align", "Constrain", "Styled", "Group", "Rule", "Bar", "ProgressBar",
             "Table", "Columns", "Tree", "NoMeasure", "Cast"]

    def show(t, d=0):
        k = t[0]
        if k == 0:
            return "Text(%r)" % t2s(t[1])
        if k in (1, 2, 3, 4, 5, 13, 14):
            return "%s(%s)" % (names[k], show(t[1], d + 1))
        if k == 6:
            return "Group(%s)" % ", ".join(show(c, d + 1) for c in t[1])
        if k == 10:
            return "Table(%d cols; %s)" % (len(t[1][4]), "; ".join(", ".join(show(c, d + 1) for c in row) for row in t[2]))
        if k == 11:
            return "Columns(%s)" % ", ".join(show(c, d + 1) for c in t[1])
        if k == 12:
            return "Tree(%s; %s)" % (show(t[1], d + 1), ", ".join(show(c, d + 1) for c in t[2]))
        return names[k]
    try:
        if op in ("c01", "fits_raw"):
            return "render %s at W=%d" % (show(arg[1]), arg[2])
        if op == "c09":
            return "measure %s at avail=%d (console %d)" % (show(arg[1]), arg[2], arg[0][0])
        if op == "c09_get":
            return "Measurement.get(console(%d), %s%s)" % (arg[0][0], show(arg[1]), ", %d" % arg[2][0] if arg[2] else "")
        return "%s %r" % (op, t2s(arg[0]))
    except Exception:
        return None
