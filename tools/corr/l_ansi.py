"""Layer `ansi` (C03): Console._render_buffer / Style.render / Segment.remove_color against the model
(coq/model/Ansi.v), and the independent SGR/OSC-8 interpreter (coq/model/TermSgr.v vs tools/sgrterm.py).

wire formats
  cfg   [system 0=None 1=standard 2=256 3=truecolor 4=windows, no_color, is_terminal, legacy_windows]
        (the model additionally receives [fix_d16, fix_ctl], detected on the tree under test)
  style [color?, bgcolor?, [13 flags: -1 unset / 0 False / 1 True], link?]   colour as in l_color
  seg   [text, style?, link_id, memo ([] fresh | [sys0]), is_control]
  hist  [link_id, style, [step...]]   step = [0, cfg, text] write Segment(text, current) on a console |
        [1] current.without_color | [2] current.copy() | [3, link?] current.update_link | [4, style] current + style |
        [5, style] style + current       (one Style INSTANCE and what is derived from it, memo state included)
"""
import os, subprocess, sys
import common
from common import s2t, t2s

OPS = {
    "sgr.interp": {}, "ansi.render": {"res": True}, "ansi.print": {"res": True},
    "ansi.history": {"res": True}, "ansi.parse_history": {"res": True}, "ansi.hist": {"res": True},
    "ansi.cfg_of_env": {}, "ansi.env_render": {"res": True},
}

SYS_NAME = {0: None, 1: "standard", 2: "256", 3: "truecolor", 4: "windows"}
LID = "0-0"      # what f"{time()}-{randint(0, 999999)}" gives with the two functions pinned (see _pin_ids)

ASCII = "abcXYZ 09-_.,;:[]m"
WIDE = "あ中\U0001f600Ａ"
ZERO = "́​҃"
FORMAT = "\n\t\r\x00\x7f\x9c\x08"
DIRTY = "\x1b\x07\x9b\x9d"
# control strings rich itself emits (cursor movement, erase, show/hide cursor, bell excluded): neutral
CONTROL_CODES = ["\x1b[2J", "\x1b[2J\x1b[H", "\x1b[?25l", "\x1b[?25h", "\r\x1b[2K", "\x1b[1A\x1b[2K", "\r",
                 "\x1b[1A\x1b[2K\x1b[1A\x1b[2K", "\n", "", "\x1b[H", "\x1b]0;title\x07", "\x1b(B"]


# ---------------------------------------------------------------- generators
def rtext(rng, dirty=False, nl=True):
    n = rng.choice([0, 1, 1, 2, 3, 5, 9])
    pools = [ASCII, ASCII, WIDE, ZERO, ASCII + WIDE + ZERO] + ([FORMAT + ASCII] if nl else [])
    pool = rng.choice(pools)
    s = "".join(rng.choice(pool) for _ in range(n))
    if dirty and s:
        k = rng.randrange(len(s) + 1)
        s = s[:k] + rng.choice([rng.choice(DIRTY), "\x1b[31m", "\x1b]8;;x\x1b\\", "\x1b[0m", "\x1b"]) + s[k:]
    return s


def rcolor(rng):
    k = rng.randrange(8)
    if k <= 1:
        return []
    if k == 2:
        return [[s2t("default"), 0, [], []]]
    if k == 3:
        n = rng.randrange(16)
        return [[s2t("color(%d)" % n), 1, [n], []]]
    if k == 4:
        n = rng.choice([16, 17, 21, 100, 196, 231, 232, 244, 255, rng.randrange(16, 256)])
        return [[s2t("color(%d)" % n), 2, [n], []]]
    if k == 5:
        n = rng.randrange(256)
        return [[s2t("color(%d)" % n), 1 if n < 16 else 2, [n], []]]
    r, g, b = (rng.choice([0, 255, 128, 55, 45, rng.randrange(256)]) for _ in range(3))
    if rng.random() < 0.2:
        g = b = r
    return [[s2t("#%02x%02x%02x" % (r, g, b)), 3, [], [[r, g, b]]]]


def rflags(rng):
    k = rng.randrange(6)
    if k == 0:
        return [-1] * 13
    if k == 1:
        f = [-1] * 13
        f[rng.randrange(13)] = rng.choice([0, 1, 1])
        return f
    if k == 2:
        f = [-1] * 13
        for _ in range(2):
            f[rng.randrange(13)] = rng.choice([0, 1, 1])
        return f
    if k == 3:
        return [1] * 13 if rng.random() < 0.5 else [rng.choice([0, 1]) for _ in range(13)]
    return [rng.choice([-1, -1, 0, 1]) for _ in range(13)]


def rlink(rng, dirty=False):
    k = rng.randrange(6)
    if k <= 2:
        return []
    if k == 3:
        return [s2t("")]
    s = rng.choice(["https://example.org/a", "x", "http://h/p;q=1;r", "file:///tmp/é中", "a b", "id=7;u"])
    if dirty and rng.random() < 0.5:
        s += rng.choice(["\x1b", "\x07", "\x9c", "\x1b\\"])
    return [s2t(s)]


def rstyle(rng, dirty=False):
    return [rcolor(rng), rcolor(rng), rflags(rng), rlink(rng, dirty)]


def rseg(rng, pool, dirty=False, ctl_ok=True, nl=True):
    r = rng.random()
    style = [] if r < 0.2 else [rng.choice(pool)] if r < 0.6 else [rstyle(rng, dirty)]
    ctl = 1 if (ctl_ok and rng.random() < 0.18) else 0
    if ctl and (not style or rng.random() < 0.5):
        text = rng.choice(CONTROL_CODES)
    else:
        text = rtext(rng, dirty and rng.random() < 0.5, nl)
    memo = [rng.randrange(1, 5)] if (style and rng.random() < 0.35) else []     # the object was rendered before
    return [s2t(text), style, s2t(LID), memo, ctl]


def rhist(rng):
    """one Style instance: renders on consoles of any configuration interleaved with derivations"""
    main = rng.randrange(1, 5)
    steps = []
    for _ in range(rng.choice([2, 3, 4, 5, 6, 8])):
        r = rng.random()
        if r < 0.55:
            cfg = rcfg(rng)
            if rng.random() < 0.7:
                cfg[0] = main
            cfg[1] = 1 if rng.random() < 0.4 else 0
            steps.append([0, cfg, s2t(rtext(rng, nl=False) or "x")])
        elif r < 0.67:
            steps.append([1])
        elif r < 0.77:
            steps.append([2])
        elif r < 0.85:
            steps.append([3, rlink(rng)])
        elif r < 0.93:
            steps.append([4, rstyle(rng)])
        else:
            steps.append([5, rstyle(rng)])
    return [s2t(LID), rstyle(rng), steps]


def rcfg(rng):
    return [rng.randrange(5), 1 if rng.random() < 0.3 else 0, 1 if rng.random() < 0.65 else 0,
            1 if rng.random() < 0.25 else 0]


def rsegs(rng, dirty=False, ctl_ok=True, nl=True):
    pool = [rstyle(rng, dirty) for _ in range(3)]      # repeated (equal) styles inside one buffer
    return [rseg(rng, pool, dirty, ctl_ok, nl) for _ in range(rng.choice([0, 1, 1, 2, 3, 4, 6]))]


SGR_ALL = (list(range(0, 10)) + list(range(21, 30)) + list(range(30, 50)) + list(range(51, 56))
           + list(range(90, 98)) + list(range(100, 108)) + [10, 20, 26, 50, 56, 65, 108, 256, 999])
TOK = ["\x1b", "[", "]", "m", ";", "0", "1", "5", "8", "38", "48", "2", "255", "256", "\x07", "\\", "\x9b", "\x9c",
       "\x9d", "a", "H", "?", "P", "X", "^", "_", " ", "(", "#", ":", "あ", "\n", "J", "~", "@", "\x7f", "<"]


def rescape(rng):
    parts = []
    for _ in range(rng.choice([1, 2, 3, 5, 8])):
        k = rng.randrange(10)
        if k <= 2:
            ps = []
            for _ in range(rng.choice([0, 1, 1, 2, 3, 5])):
                q = rng.randrange(8)
                if q == 0:
                    ps += [rng.choice([38, 48]), 5, rng.choice([0, 7, 8, 15, 16, 255, 256, rng.randrange(300)])]
                elif q == 1:
                    ps += [rng.choice([38, 48]), 2] + [rng.choice([0, 255, 256, rng.randrange(300)]) for _ in range(rng.choice([3, 3, 3, 2, 1]))]
                elif q == 2:
                    ps += [rng.choice([38, 48])] + ([rng.choice([1, 3, 5, 2])] if rng.random() < 0.5 else [])
                else:
                    ps.append(rng.choice(SGR_ALL))
            body = ";".join("" if (p == 0 and rng.random() < 0.3) else str(p) for p in ps)
            parts.append(rng.choice(["\x1b[", "\x1b[", "\x9b"]) + body + rng.choice(["m", "m", "m", "H", " m", "?m"]))
        elif k == 3:
            uri = rng.choice(["", "http://x", "a;b", "u"])
            parts.append(rng.choice(["\x1b]", "\x9d"]) + rng.choice(["8;", "8;", "0;", "8", ""]) + rng.choice(["", "id=1", "id=a:b"])
                         + rng.choice([";", ";", ""]) + uri + rng.choice(["\x1b\\", "\x07", "\x9c", "\x1b", ""]))
        elif k == 4:
            parts.append("".join(rng.choice(TOK) for _ in range(rng.randint(1, 6))))
        else:
            parts.append(rtext(rng))
    return "".join(parts)


NO_COLOR_VALUES = [None, "", "0", "1", "anything", "false", " "]
TERM_VALUES = [None, "", "xterm", "xterm-256color", "xterm-16color", "screen-256color-bce", "dumb", "DUMB", "unknown", " dumb",
               " XTERM-256COLOR ", "linux", "rxvt-unicode-256color", "-256color", "vt100-16color"]
COLORTERM_VALUES = [None, None, "", "truecolor", "24bit", " TrueColor ", "yes", "24BIT\n"]


def _envt(nc, ct, term):
    return [[] if v is None else [s2t(v)] for v in (nc, ct, term)]


def rctor(rng, nc=None, nc_arg=None):
    """Console(...) keywords + environment: [force_terminal, color_system (0 None, 1-4, 5 auto), no_color, legacy_windows, env]"""
    return [rng.choice([1, 1, 1, 0, -1]), rng.choice([1, 2, 3, 4, 5, 5, 0]),
            rng.choice([-1, -1, 0, 1]) if nc_arg is None else nc_arg, rng.choice([-1, -1, 0, 1]),
            _envt(rng.choice(NO_COLOR_VALUES) if nc is None else nc[0], rng.choice(COLORTERM_VALUES), rng.choice(TERM_VALUES))]


def generate(rng, tier):
    k = 1 if tier == "quick" else 30
    cases = []
    for _ in range(2500 * k):
        cases.append(("sgr.interp", s2t(rescape(rng))))
    for _ in range(3000 * k):
        cases.append(("ansi.render", [rcfg(rng), rsegs(rng)]))
    # one style at a time, every colour kind x every system x flags (the product of the quantifier)
    for sysn in range(5):
        for nc in (0, 1):
            for lw in (0, 1):
                for _ in range(25 * k):
                    cases.append(("ansi.render", [[sysn, nc, 1, lw], [[s2t(rtext(rng, nl=False) or "x"), [rstyle(rng)], s2t(LID), [], 0],
                                                                      [s2t("z"), [], s2t(LID), [], 0]]]))
    for _ in range(400 * k):       # text that is itself an escape sequence, links that end the OSC: bytes only
        cases.append(("ansi.render", [rcfg(rng), rsegs(rng, dirty=True)]))
    for _ in range(500 * k):
        cfg = rcfg(rng)
        cfg[2] = 1
        cases.append(("ansi.print", [cfg, rsegs(rng, ctl_ok=False, nl=False)]))
    for _ in range(300 * k):
        n = rng.choice([1, 2, 2, 3, 4])
        syss = [rng.randrange(1, 5) for _ in range(n)]
        cases.append(("ansi.history", [rstyle(rng), s2t(rtext(rng, nl=False) or "x"), s2t(LID), syss]))
    for _ in range(1200 * k):
        cases.append(("ansi.hist", rhist(rng)))
    # the seeded pattern: coloured render, then the same instance on a NO_COLOR console of the same system
    for sysn in range(1, 5):
        for _ in range(10 * k):
            st = rstyle(rng)
            cases.append(("ansi.hist", [s2t(LID), st, [[0, [sysn, 0, 1, 0], s2t("warm")], [0, [sysn, 1, 1, 0], s2t("hello")],
                                                       [2], [0, [sysn, 1, 0, 1], s2t("copy")], [0, [sysn, 0, 1, 0], s2t("again")]]]))
    # console facts from the environment: NO_COLOR present with every value x the keyword, TERM / COLORTERM detection
    for v in NO_COLOR_VALUES:
        for nc_arg in (-1, 0, 1):
            for sysn in (1, 2, 3, 4, 5):
                ctor = [1, sysn, nc_arg, 0, _envt(v, rng.choice(COLORTERM_VALUES), rng.choice(["xterm-256color", "xterm", None]))]
                cases.append(("ansi.cfg_of_env", ctor))
                cases.append(("ansi.env_render", [ctor, [[s2t(rtext(rng, nl=False) or "x"), [rstyle(rng)], s2t(LID), [], 0],
                                                          [s2t("z"), [], s2t(LID), [], 0]]]))
    for term in TERM_VALUES:
        for ct in COLORTERM_VALUES:
            for ft in (1, 0, -1):
                cases.append(("ansi.cfg_of_env", [ft, 5, -1, -1, _envt(None, ct, term)]))
    for _ in range(300 * k):
        cases.append(("ansi.cfg_of_env", rctor(rng)))
        cases.append(("ansi.env_render", [rctor(rng), rsegs(rng)]))
    defs = ["#ff0000", "bold red", "on #00ff00", "color(196) on color(21)", "rgb(10,200,30) underline", "bright_blue",
            "italic #808080 on #123456", "default on default", "grey50"]   # no link: get_style() copies linked styles
    for d in defs:
        for _ in range(2 * k):
            syss = [rng.randrange(1, 5) for _ in range(rng.choice([2, 3]))]
            cases.append(("ansi.parse_history", [s2t(d), s2t(rng.choice(["x", "hello", "a b"])), s2t(LID), syss]))
    return cases


# ---------------------------------------------------------------- which variant does the tree implement?
_VAR = {}


def variant():
    """(fix_d16, fix_ctl) of the implementation under test, probed once in a subprocess"""
    repo = common.REPO
    if repo not in _VAR:
        code = (
            "import io\n"
            "from rich.console import Console\nfrom rich.segment import Segment\nfrom rich.style import Style\n"
            "from rich.color import Color, ColorSystem\n"
            "s = Style(color=Color.from_rgb(255, 0, 0))\n"
            "s.render('x', color_system=ColorSystem.TRUECOLOR)\n"
            "print('d16=' + ('asis' if '38;2' in s.render('x', color_system=ColorSystem.STANDARD) else 'fixed'))\n"
            "f = io.StringIO()\n"
            "c = Console(file=f, force_terminal=False, color_system=None, width=80, _environ={})\n"
            "c._buffer.append(Segment.control('\\x1b[2J', Style(bold=True)))\nc._check_buffer()\n"
            "print('ctl=' + ('asis' if f.getvalue() else 'fixed'))\n")
        env = dict(os.environ, PYTHONPATH=repo)
        try:
            out = subprocess.run([common.PY, "-c", code], env=env, stdout=subprocess.PIPE, stderr=subprocess.DEVNULL,
                                 cwd="/", timeout=120).stdout.decode()
        except Exception:
            out = ""
        _VAR[repo] = (1 if "d16=fixed" in out else 0, 1 if "ctl=fixed" in out else 0)
    return _VAR[repo]


def model_case(op, arg):
    d16, ctl = variant()
    if op in ("ansi.render", "ansi.print"):
        return "ansi.render", [arg[0] + [d16, ctl], arg[1]]
    if op in ("ansi.history", "ansi.parse_history"):
        return op, [d16] + arg
    if op == "ansi.hist":
        return op, [arg[0], arg[1], [[0, st[1] + [d16, ctl], st[2]] if st[0] == 0 else st for st in arg[2]]]
    if op == "ansi.env_render":
        return op, [arg[0], [d16, ctl], arg[1]]
    return op, arg


# ---------------------------------------------------------------- implementation side
def _pin_ids():
    """Style._link_id = f"{time()}-{randint(0, 999999)}": pin both so that every id is "0-0" """
    import rich.style as rs
    rs.time = lambda: 0
    rs.randint = lambda a, b: 0


def _color(t):
    from rich.color import Color, ColorType
    from rich.color_triplet import ColorTriplet
    return Color(t2s(t[0]), ColorType(t[1]), t[2][0] if t[2] else None, ColorTriplet(*t[3][0]) if t[3] else None)


def _style(t):
    from rich.style import Style
    color, bgcolor, flags, link = t
    names = ["bold", "dim", "italic", "underline", "blink", "blink2", "reverse", "conceal", "strike", "underline2",
             "frame", "encircle", "overline"]
    kw = {n: (None if f < 0 else bool(f)) for n, f in zip(names, flags)}
    return Style(color=_color(color[0]) if color else None, bgcolor=_color(bgcolor[0]) if bgcolor else None,
                 link=t2s(link[0]) if link else None, **kw)


def _console(cfg):
    import io
    from rich.console import Console
    sysn, nc, term, lw = cfg[:4]
    return Console(file=io.StringIO(), force_terminal=bool(term), color_system=SYS_NAME[sysn], no_color=bool(nc),
                   legacy_windows=bool(lw), width=100000, _environ={})


def _env_console(ctor):
    import io
    from rich.console import Console
    ft, cs, nc, lw, env = ctor
    environ = {}
    for name, v in zip(("NO_COLOR", "COLORTERM", "TERM"), env):
        if v:
            environ[name] = t2s(v[0])
    tri = lambda z: None if z < 0 else bool(z)
    return Console(file=io.StringIO(), force_terminal=tri(ft), color_system="auto" if cs == 5 else SYS_NAME[cs],
                   no_color=tri(nc), legacy_windows=tri(lw), width=100000, _environ=environ)


def _segments(segs):
    from rich.segment import Segment
    cache = {}
    out = []
    from rich.color import ColorSystem
    for text, style, _lid, memo, ctl in segs:
        st = None
        if style:
            key = common.dumps([style[0], memo])
            if key not in cache or len(cache) % 2:      # equal styles: sometimes one object, sometimes two
                cache[key] = _style(style[0])
                if memo:                                 # this instance was rendered before, under colour system memo[0]
                    cache[key]._make_ansi_codes(ColorSystem(memo[0]))
            st = cache[key]
        out.append(Segment(t2s(text), st, bool(ctl)))
    return out


class _Raw:
    def __init__(self, segments):
        self.segments = segments

    def __rich_console__(self, console, options):
        yield from self.segments


def _term_tree(s):
    sys.path.insert(0, os.path.join(common.VERIF, "tools"))
    import sgrterm
    t = sgrterm.Term().run(s)

    def col(c):
        return [] if c is None else list(c)

    def lnk(l):
        return [] if l is None else [list(l)]
    return [[[c, f, col(fg), col(bg), lnk(l)] for c, f, fg, bg, l in t.cells], 1 if t.mode == "ground" else 0,
            [t.flags, col(t.fg), col(t.bg), lnk(t.link)], t.sgr_params, t.others]


def impl(op, arg):
    if op == "sgr.interp":
        return _term_tree(arg)
    _pin_ids()
    if op == "ansi.render":
        console = _console(arg[0])
        console._buffer.extend(_segments(arg[1]))
        console._check_buffer()
        return s2t(console.file.getvalue())
    if op == "ansi.print":
        console = _console(arg[0])
        console.print(_Raw(_segments(arg[1])), end="")
        return s2t(console.file.getvalue())
    if op == "ansi.cfg_of_env":
        c = _env_console(arg)
        return [0 if c._color_system is None else int(c._color_system), 1 if c.no_color else 0, 1 if c.is_terminal else 0,
                1 if c.legacy_windows else 0]
    if op == "ansi.env_render":
        console = _env_console(arg[0])
        console._buffer.extend(_segments(arg[1]))
        console._check_buffer()
        return s2t(console.file.getvalue())
    if op == "ansi.hist":
        from rich.segment import Segment
        cur = _style(arg[1])
        outs = []
        for st in arg[2]:
            if st[0] == 0:
                console = _console(st[1])
                console._buffer.append(Segment(t2s(st[2]), cur))
                console._check_buffer()
                outs.append(s2t(console.file.getvalue()))
            elif st[0] == 1:
                cur = cur.without_color
            elif st[0] == 2:
                cur = cur.copy()
            elif st[0] == 3:
                cur = cur.update_link(t2s(st[1][0]) if st[1] else None)
            elif st[0] == 4:
                cur = cur + _style(st[1])
            else:
                cur = _style(st[1]) + cur
        return outs
    if op in ("ansi.history", "ansi.parse_history"):
        import io
        from rich.console import Console
        from rich.segment import Segment
        outs = []
        if op == "ansi.history":
            style = _style(arg[0])
        else:
            from rich.style import Style
            Style.parse.cache_clear()       # the history starts with a never-rendered parsed style
        for sysn in arg[3]:
            console = Console(file=io.StringIO(), force_terminal=True, color_system=SYS_NAME[sysn], legacy_windows=False,
                              width=200, _environ={})
            if op == "ansi.history":
                console._buffer.append(Segment(t2s(arg[1]), style))
                console._check_buffer()
            else:
                console.print(t2s(arg[1]), style=t2s(arg[0]), end="", markup=False, highlight=False, emoji=False)
            outs.append(s2t(console.file.getvalue()))
        return outs
    raise KeyError(op)


# ---------------------------------------------------------------- spec checkers on the implementation's bytes
def _plain(t):
    return not any(c in (27, 7, 155, 157) for c in t)


def _truthy(style):
    if not style:
        return False
    color, bgcolor, flags, link = style[0]
    return bool(color or bgcolor or any(f >= 0 for f in flags) or (link and link[0]))


def _link_ok(style):
    if not style or not style[0][3]:
        return True
    return not any(c in (27, 7, 156) for c in style[0][3][0])


NEUTRAL = {tuple(s2t(c)) for c in CONTROL_CODES}
NEUTRAL_NO_SGR = NEUTRAL


def in_domain(cfg, segs):
    """the hypothesis `segs_ok` of the theorems (with both repairs): what the property quantifies over"""
    term = cfg[2]
    for text, style, _lid, _memo, ctl in segs:
        if ctl and not term:
            continue
        if _truthy(style):
            if not (_plain(text) and _link_ok(style)):
                return False
        elif ctl:
            if tuple(text) not in NEUTRAL:
                return False
        elif not _plain(text):
            return False
    return True


def spec_cases(op, arg, out):
    if isinstance(out, dict) or not isinstance(out, list):
        return []
    if op in ("ansi.render", "ansi.print"):
        if out[0] != 0:
            return []
        cfg, segs = arg
        data = out[1]
        specs = []
        if in_domain(cfg, segs):
            specs.append(("spec.ansi.stream_means", [cfg + [1, 1], segs, data]))
            if cfg[0] == 0 and (not cfg[2] or not any(g[4] for g in segs)):
                specs.append(("spec.ansi.no_escape", data))
            if cfg[1]:
                specs.append(("spec.ansi.no_color_params", data))
            if not cfg[2]:
                specs.append(("spec.ansi.no_controls", data))
        return specs
    if op == "ansi.cfg_of_env":
        return [("spec.ansi.no_color_convention", [arg[2], 1 if arg[4][0] else 0, out[1]])]
    if op == "ansi.env_render":
        if out[0] != 0:
            return []
        ctor, segs = arg
        ft, cs, nc, lw, env = ctor
        no_color = bool(nc) if nc >= 0 else bool(env[0])         # the convention: presence of NO_COLOR, whatever its value
        cfg = [cs, 1 if no_color else 0, 1 if ft == 1 else 0, 1 if lw == 1 else 0]
        specs = []
        if in_domain(cfg, segs):
            if no_color:
                specs.append(("spec.ansi.no_color_params", out[1]))
            if cs != 5:
                specs.append(("spec.ansi.stream_means", [cfg + [1, 1], segs, out[1]]))
        return specs
    if op == "ansi.hist":
        if out[0] != 0:
            return []
        lid, style, steps = arg
        ok = _link_ok([style])
        for st in steps:
            if st[0] == 0:
                ok = ok and _plain(st[2])
            elif st[0] == 3:
                ok = ok and not any(c in (27, 7, 156) for c in (st[1][0] if st[1] else []))
            elif st[0] in (4, 5):
                ok = ok and _link_ok([st[1]])
        if ok:
            return [("spec.ansi.hist_ok", [lid, style, [[0, st[1] + [1, 1], st[2]] if st[0] == 0 else st for st in steps], out[1]])]
        return []
    if op == "ansi.history":
        if out[0] != 0:
            return []
        style, text, lid, syss = arg
        if _plain(text) and _link_ok([style]):
            return [("spec.ansi.history_fresh", [style, text, lid, syss, out[1]])]
    return []


def describe(op, arg):
    try:
        if op == "sgr.interp":
            return repr(t2s(arg))
        if op in ("ansi.render", "ansi.print"):
            return repr((arg[0], [(t2s(g[0]), g[1], g[4]) for g in arg[1]]))
    except Exception:
        pass
    return None
