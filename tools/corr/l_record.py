"""Layer `record` (C15): Console buffer / record / capture / export.

One op, `hist`: arg = [cfg, ops, wf] with cfg = [width, is_terminal, color_system 0..3, legacy_windows, no_color],
ops = the calls to make (see TAGS), wf = 1 when the generator intends the history to satisfy the
hypotheses of the text theorems (printed text free of escape/control characters; control strings and the
text of control segments, styled or not, made of complete escape sequences).

impl() performs the calls on a real `Console(record=True, file=io.StringIO(), ...)` and returns
    [style table, filled ops, observations, twin writes]
  * filled ops: every print/log/rule call replaced by  [0, crop, <the segments Console.render yielded
    for it>]  (tee on the instance's `render`; the renderable -> segments step is an input of the model);
  * style table: one row per distinct style met (by Style.__eq__):
        [token, bool(style), pre, suf, pre_tc, suf_tc, html_rule, [link]?]
    pre/suf = the two halves of style.render() around the text -- the model's abstract `esc`;
  * observations per call: [text written to the file by the call, [returned string]?, [record before,
    record after]? (exports only)];
  * twin writes: what each call writes on a second, identical console on which the capture calls are
    skipped (the independent "as it would have been written").
The op is spec_only: the tie model<->implementation is the checker `spec.replay` (the extracted model is
run on the filled ops and must produce the very same observations), next to the property checkers
evaluated on the implementation's observations.  link ids (time/random based) are canonicalised.
"""
import re
from common import s2t, t2s

OPS = {"hist": {"spec_only": True}}

# model variant the implementation is compared with: 1 = repaired (Segment.simplify keeps control
# segments apart; export_html escapes the href value).  rich 9.10.0 as found corresponds to 0/0.
KEEP_CTL = [1]
HREF_ESC = [1]

T_PRINT, T_LINE, T_CONTROL, T_BELL, T_CLEAR, T_CURSOR, T_BEGIN, T_END, T_XTEXT, T_XHTML = range(10)
T_TEXT, T_LOG, T_RULE = 10, 11, 12
TAGS = {0: "print(segments)", 1: "line", 2: "control", 3: "bell", 4: "clear", 5: "show_cursor",
        6: "begin capture", 7: "end capture", 8: "export_text/save_text", 9: "export_html/save_html",
        10: "print(str)", 11: "log(str)", 12: "rule(str)"}

PALETTE_DEFS = [
    ("null", None), ("bold", None), ("red", None), ("bold red on blue", None),
    ("italic", "http://example.org/?a=1&b=2"), ("underline", 'q"uo>t<e'), ("none", "x"),
    ("#ff8800 underline", None), ("dim reverse green", None),
    # colours a standard / 256-colour console must downgrade for the file, while export_text(styles=True)
    # always renders the recorded style in truecolor
    ("color(123) on color(200)", None), ("bold #123456 on #abcdef", None), ("#00ff7f", "http://t.c/"),
]
NPAL = len(PALETTE_DEFS)

WORDS = ["a", "hello", "x<y", "a>b", "R&D", "&amp;", "&lt;", "<b>", "</pre>", "\"q\"", "&", "<", ">", "あ中", "é",
         "wide\U0001f600", "1234", "True", "'s'", "http://u.rl/?a=1&b=2", "tab", "  ", "-", "<a href=\"x\">"]
CONTROLS_OK = ["\x1b[2K", "\x1b[1A", "\x1b[?1049h", "\r", "\x07", "\x1b]0;title\x07", "\x1b]8;;\x1b\\", "\x1b[H\x1b[2J",
               "\x1b[10;20H", "\x08", "\x1b7"]
CONTROLS_BAD = ["abc", "\x1b[", "\x1b]0;t", "x\x1b[2K", "\x1b"]


def rtext(rng, wf, nl=True):
    n = rng.choice([0, 1, 1, 2, 3, 5])
    parts = []
    for _ in range(n):
        w = rng.choice(WORDS)
        parts.append(w)
        r = rng.random()
        parts.append(" " if r < 0.6 else ("\n" if (nl and r < 0.75) else ""))
    s = "".join(parts)
    if not wf and rng.random() < 0.5:
        k = rng.randint(0, len(s))
        s = s[:k] + rng.choice(["\x1b[1m", "\x07", "\x1b", "\x00", "\x7f", "\t"]) + s[k:]
    return s


def rsegs(rng, wf):
    segs = []
    for _ in range(rng.choice([0, 1, 1, 2, 3, 4, 6])):
        r = rng.random()
        if r < 0.12:
            pool = CONTROLS_OK if (wf or rng.random() < 0.5) else CONTROLS_BAD
            # control segments may carry a style (Segment.control(text, style), Segment.make_control)
            style = [] if rng.random() < 0.6 else [rng.randint(0, NPAL - 1)]
            segs.append([s2t(rng.choice(pool)), style, 1])
        else:
            r2 = rng.random()
            style = [] if r2 < 0.35 else [rng.randint(0, NPAL - 1)]
            if segs and rng.random() < 0.3:
                style = segs[-1][1]          # equal neighbours: what simplify merges
            segs.append([s2t(rtext(rng, wf)), style, 0])
    if rng.random() < 0.7:
        segs.append([[10], [], 0])
    return segs


def rmarkup(rng):
    parts = []
    for _ in range(rng.choice([1, 2, 3])):
        w = rng.choice(["plain", "x<y", "a&b", "1>0", "&amp;", "<i>", "q\"q", "あ", "42"])
        r = rng.random()
        if r < 0.25:
            parts.append(f"[bold]{w}[/bold]")
        elif r < 0.45:
            parts.append(f"[link=http://example.org/?q={rng.choice(['1&r=2', 'a>b', 'x'])}]{w}[/link]")
        elif r < 0.6:
            parts.append(f"[red on white]{w}[/]")
        else:
            parts.append(w)
    return " ".join(parts)


def gen_history(rng, wf):
    ops = []
    depth = 0
    n = rng.choice([1, 2, 3, 4, 6, 8, 12])
    for _ in range(n):
        r = rng.random()
        if r < 0.30:
            ops.append([T_PRINT, 1 if rng.random() < 0.8 else 0, rsegs(rng, wf)])
        elif r < 0.38:
            ops.append([T_TEXT, s2t(rmarkup(rng)), 1])
        elif r < 0.43:
            ops.append([T_TEXT, s2t(rtext(rng, True, nl=True)), 0])
        elif r < 0.48:
            ops.append([T_LOG, s2t(rtext(rng, True, nl=False) or "x")])
        elif r < 0.53:
            ops.append([T_RULE, s2t(rng.choice(["", "t", "a<b", "R&D", "title あ"]))])
        elif r < 0.58:
            ops.append([T_LINE, rng.choice([0, 1, 1, 2, 3])])
        elif r < 0.63:
            pool = CONTROLS_OK if (wf or rng.random() < 0.5) else CONTROLS_BAD
            ops.append([T_CONTROL, s2t(rng.choice(pool))])
        elif r < 0.67:
            ops.append([T_BELL])
        elif r < 0.73:
            ops.append([T_CLEAR, rng.randint(0, 1)])
        elif r < 0.77:
            ops.append([T_CURSOR, rng.randint(0, 1)])
        elif r < 0.85:
            if depth == 0:      # captures are not nested: known finding C15-nested-capture (corpus/C15_known)
                ops.append([T_BEGIN, rng.randint(0, 1)])
                depth += 1
            elif depth > 0:
                ops.append([T_END])
                depth -= 1
        elif r < 0.89:
            if depth > 0 or rng.random() < 0.03:
                ops.append([T_END])
                depth -= 1
        elif r < 0.945:
            ops.append([T_XTEXT, rng.randint(0, 1), rng.randint(0, 1), rng.randint(0, 1)])
        else:
            ops.append([T_XHTML, rng.randint(0, 1), rng.randint(0, 1), rng.randint(0, 1)])
        if rng.random() < 0.08:
            ops += triple(rng)
        elif rng.random() < 0.06:
            ops.append([T_XTEXT, 0, 1, 0])
        if depth == 0 and rng.random() < 0.06:
            ops += empty_block(rng)
    while depth > 0:
        ops.append([T_END])
        depth -= 1
    ops += triple(rng)
    return ops


def empty_block(rng):
    """a capture block whose result is the empty string (on a non-terminal for the control variants)"""
    inner = rng.choice([[], [[T_LINE, 0]], [[T_BELL]], [[T_CLEAR, 1], [T_CONTROL, s2t("\x1b[2K")]],
                        [[T_PRINT, 0, []]], [[T_PRINT, 1, [[[], [], 0]]]], [[T_CURSOR, 0]],
                        [[T_PRINT, 0, [[s2t("\x1b[H"), [], 1]]]]])
    return [[T_BEGIN, rng.randint(0, 1)]] + inner + [[T_END]]


def triple(rng):
    """the three exports at one point, without clearing"""
    return [[T_XTEXT, 0, 0, 0], [T_XTEXT, 0, 1, 0], [T_XHTML, 0, rng.randint(0, 1), 0]]


def generate(rng, tier):
    cases = []
    n = 2500 if tier == "quick" else 60000
    for _ in range(n):
        wf = 1 if rng.random() < 0.8 else 0
        cfg = [rng.choice([1, 2, 3, 5, 8, 10, 20, 40, 80]), rng.randint(0, 1), rng.randint(0, 3),
               1 if rng.random() < 0.1 else 0, 1 if rng.random() < 0.25 else 0]
        cases.append(("hist", [cfg, gen_history(rng, wf), wf]))
    return cases


# ---------------------------------------------------------------- implementation side
_LINK_ID = re.compile("\x1b\\]8;id=[^;]*;")


def canon(s):
    return _LINK_ID.sub("\x1b]8;id=0;", s)


class _Styles:
    def __init__(self):
        from rich.style import Style
        Style.parse.cache_clear()       # fresh Style objects per case: no _ansi memo left over from another case
        self.styles = []
        for d, link in PALETTE_DEFS:
            st = Style.null() if d == "null" else Style.parse(d)
            if link is not None:
                st = st + Style(link=link)
            self.styles.append(st)
        self.extra_base = 100

    def tok(self, style):
        if style is None:
            return []
        for i, s in enumerate(self.styles):
            if s is style or s == style:
                return [i if i < NPAL else self.extra_base + i - NPAL]
        self.styles.append(style)
        i = len(self.styles) - 1
        return [self.extra_base + i - NPAL]

    def get(self, opt):
        return None if not opt else self.styles[opt[0]]

    @staticmethod
    def fresh(s):
        """an equal Style built through the public constructor: no _ansi memo, so what it renders for a colour
        system does not depend on what the console under test rendered before (Style._make_ansi_codes caches)"""
        from rich.style import Style
        if not s:
            return s
        f = Style(color=s.color, bgcolor=s.bgcolor, bold=s.bold, dim=s.dim, italic=s.italic, underline=s.underline,
                  blink=s.blink, blink2=s.blink2, reverse=s.reverse, conceal=s.conceal, strike=s.strike,
                  underline2=s.underline2, frame=s.frame, encircle=s.encircle, overline=s.overline, link=s.link)
        assert f == s, (f, s)
        return f

    def table(self, cs, lw, nc=False):
        from rich.color import ColorSystem
        rows = []
        for i, s in enumerate(self.styles):
            t = i if i < NPAL else self.extra_base + i - NPAL
            shown = self.fresh(s).without_color if (nc and cs and s) else self.fresh(s)      # Segment.remove_color
            a = canon(shown.render("\x00", color_system=cs, legacy_windows=lw)).split("\x00")
            b = canon(self.fresh(s).render("\x00")).split("\x00")
            rows.append([t, 1 if s else 0, s2t(a[0]), s2t(a[1]), s2t(b[0]), s2t(b[1]),
                         s2t(s.get_html_style(None)), [s2t(s.link)] if s.link else []])
        return rows


class _R:
    def __init__(self, segs):
        self.segs = segs

    def __rich_console__(self, console, options):
        yield from self.segs


def _mk_console(cfg):
    import io
    from rich.console import Console
    width, term, cs, lw, nc = (list(cfg) + [0])[:5]
    return Console(record=True, file=io.StringIO(), width=width, force_terminal=bool(term),
                   color_system=[None, "standard", "256", "truecolor"][cs], legacy_windows=bool(lw),
                   _environ={}, log_time=False, log_path=False, no_color=bool(nc))


def _tee(console, sink):
    orig = console.render
    depth = [0]

    def render(renderable, options=None):
        depth[0] += 1
        try:
            segs = list(orig(renderable, options))
        finally:
            depth[0] -= 1
        if depth[0] == 0:
            sink.extend(segs)
        return segs
    console.render = render


def _useg(S, g):
    return [s2t(g.text), S.tok(g.style), 1 if g.is_control else 0]


def _validate(ops):
    """malformed cases (only the shrinker makes them) fail here, before any console call"""
    for op in ops:
        tag = op[0]
        if tag == T_PRINT:
            assert isinstance(op[1], int)
            for t, st, c in op[2]:
                assert all(isinstance(x, int) and 0 <= x < 0x110000 for x in t) and isinstance(c, int)
                assert st == [] or (len(st) == 1 and 0 <= st[0] < NPAL)
        elif tag in (T_TEXT, T_LOG, T_RULE, T_CONTROL):
            assert all(isinstance(x, int) and 0 <= x < 0x110000 for x in op[1])
            if tag == T_TEXT:
                assert isinstance(op[2], int)
        elif tag == T_LINE:
            assert isinstance(op[1], int) and op[1] >= 0
        elif tag in (T_CLEAR, T_CURSOR):
            assert isinstance(op[1], int)
        elif tag in (T_XTEXT, T_XHTML):
            assert isinstance(op[1], int) and isinstance(op[2], int)
        elif tag not in (T_BELL, T_BEGIN, T_END):
            raise KeyError(tag)


def _run(cfg, ops, S, capture=True):
    """-> (filled ops, observations)"""
    import os, tempfile
    from rich.segment import Segment
    console = _mk_console(cfg)
    sink = []
    _tee(console, sink)
    filled, obs = [], []
    caps = []
    pos = 0
    def call(op):
        tag = op[0]
        ret = []
        snap = []
        fop = op
        if tag == T_PRINT:
            segs = [Segment(t2s(t), S.get(st), bool(c)) for t, st, c in op[2]]
            console.print(_R(segs), crop=bool(op[1]))
            fop = [T_PRINT, op[1], [_useg(S, g) for g in sink]]
        elif tag == T_TEXT:
            console.print(t2s(op[1]), markup=bool(op[2]))
            fop = [T_PRINT, 1, [_useg(S, g) for g in sink]]
        elif tag == T_LOG:
            console.log(t2s(op[1]))
            fop = [T_PRINT, 1, [_useg(S, g) for g in sink]]
        elif tag == T_RULE:
            console.rule(t2s(op[1]))
            fop = [T_PRINT, 1, [_useg(S, g) for g in sink]]
        elif tag == T_LINE:
            console.line(op[1])
        elif tag == T_CONTROL:
            console.control(t2s(op[1]))
        elif tag == T_BELL:
            console.bell()
        elif tag == T_CLEAR:
            console.clear(bool(op[1]))
        elif tag == T_CURSOR:
            console.show_cursor(bool(op[1]))
        elif tag == T_BEGIN:
            if capture:
                if len(op) > 1 and op[1]:
                    c = console.capture()
                    c.__enter__()
                    caps.append(c)
                else:
                    console.begin_capture()
                    caps.append(None)
            fop = [T_BEGIN]
        elif tag == T_END:
            if capture:
                c = caps.pop() if caps else None
                if c is not None:
                    c.__exit__(None, None, None)
                    ret = [s2t(canon(c.get()))]
                else:
                    ret = [s2t(canon(console.end_capture()))]
        elif tag in (T_XTEXT, T_XHTML):
            before = [_useg(S, g) for g in console._record_buffer]
            save = len(op) > 3 and op[3]
            if save:
                fd, path = tempfile.mkstemp(prefix="c15_")
                os.close(fd)
                try:
                    if tag == T_XTEXT:
                        console.save_text(path, clear=bool(op[1]), styles=bool(op[2]))
                    else:
                        console.save_html(path, clear=bool(op[1]), inline_styles=bool(op[2]))
                    with open(path, encoding="utf-8", newline="") as f:
                        text = f.read()
                finally:
                    os.unlink(path)
            elif tag == T_XTEXT:
                text = console.export_text(clear=bool(op[1]), styles=bool(op[2]))
            else:
                text = console.export_html(clear=bool(op[1]), inline_styles=bool(op[2]))
            ret = [s2t(canon(text))]
            snap = [before, [_useg(S, g) for g in console._record_buffer]]
            fop = [tag, op[1], op[2]]
        return fop, ret, snap

    _validate(ops)
    for op in ops:
        del sink[:]
        try:
            fop, ret, snap = call(op)
        except Exception as e:          # a console call raised: part of the observation, never swallowed
            tag = op[0]
            if tag in (T_PRINT, T_TEXT, T_LOG, T_RULE):
                fop = [T_PRINT, op[1] if tag == T_PRINT else 1, [_useg(S, g) for g in sink]]
            elif tag in (T_XTEXT, T_XHTML):
                fop = [tag, op[1], op[2]]
            elif tag in (T_BEGIN, T_END):
                fop = [tag]
            else:
                fop = op
            ret, snap = [s2t("!EXC:" + type(e).__name__)], []
        whole = console.file.getvalue()
        obs.append([s2t(canon(whole[pos:])), ret, snap])
        pos = len(whole)
        filled.append(fop)
    return filled, obs


def impl(op, arg):
    if op != "hist":
        raise KeyError(op)
    cfg, ops = arg[0], arg[1]
    from rich.color import ColorSystem
    S = _Styles()
    filled, obs = _run(cfg, ops, S, capture=True)
    _, twin = _run(cfg, ops, S, capture=False)
    cs = [None, ColorSystem.STANDARD, ColorSystem.EIGHT_BIT, ColorSystem.TRUECOLOR][cfg[2]]
    return [S.table(cs, bool(cfg[3]), bool((list(cfg) + [0])[4])), filled, obs, [o[0] for o in twin]]


# ---------------------------------------------------------------- checks on the implementation's output
def _blocks(filled):
    """innermost capture blocks at any depth (begin index, end index): blocks containing no other capture call.
    A block that contains another capture is not claimed (which capture owns the inner output is a matter
    of reading); an innermost block must return exactly what was printed inside it -- for a block opened
    inside another capture this is the known finding C15-nested-capture (corpus/C15_known)."""
    out = []
    stack = []
    for i, op in enumerate(filled):
        if op[0] == T_BEGIN:
            if stack:
                stack[-1][1] = True
            stack.append([i, False])
        elif op[0] == T_END:
            if not stack:
                return out      # unbalanced from here on: no block claims
            start, has_inner = stack.pop()
            if not has_inner:
                out.append((start, i))
    return out


def is_nested_capture(op, arg):
    """matcher for known_findings.json: the history opens a capture while another one is open"""
    if op != "hist":
        return False
    depth = 0
    for o in arg[1]:
        if o[0] == T_BEGIN:
            if depth > 0:
                return True
            depth += 1
        elif o[0] == T_END:
            depth = max(0, depth - 1)
    return False


def spec_cases(op, arg, out):
    if isinstance(out, dict) or op != "hist":
        return []
    cfg, wf = arg[0], arg[2] if len(arg) > 2 else 0
    table, filled, obs, twin = out
    cases = [("spec.replay", [KEEP_CTL[0], HREF_ESC[0], cfg, table, filled, obs])]
    raised = any(o[1] and t2s(o[1][0]).startswith("!EXC:") for o in obs)
    cases.append(("spec.no_exception", 0 if raised else 1))
    events = [[o[0], o[1]] for o in obs]
    cases.append(("spec.capture_silent", [filled, events]))
    for f, o in zip(filled, obs):
        if f[0] in (T_XTEXT, T_XHTML) and o[2]:
            cases.append(("spec.clear_ok", [f[1], o[2][0], o[2][1]]))
            if f[0] == T_XTEXT and f[2] and o[1]:
                # export_text(styles=True) = every recorded segment under ITS recorded style rendered in truecolor,
                # whatever the file write rendered (and cached) before
                cases.append(("spec.styled_export", [table, o[2][0], o[1][0]]))
    for b, e in _blocks(filled):
        would_be = [c for i in range(b, e + 1) for c in twin[i]]
        delta = [c for i in range(b, e + 1) for c in obs[i][0]]
        cases.append(("spec.capture_ok", [obs[e][1][0] if obs[e][1] else [-1], would_be, delta]))
    if wf:
        for k in range(len(filled) - 2):
            a, b, c = filled[k], filled[k + 1], filled[k + 2]
            if (a[0] == T_XTEXT and a[1:3] == [0, 0] and b[0] == T_XTEXT and b[1:3] == [0, 1]
                    and c[0] == T_XHTML and c[1] == 0):
                cases.append(("spec.exports_agree_at", [cfg, table, filled, events, k]))
    return cases


def describe(op, arg):
    try:
        cfg, ops = arg[0], arg[1]
        return f"width={cfg[0]} terminal={cfg[1]} color_system={cfg[2]} legacy={cfg[3]} no_color={(list(cfg) + [0])[4]}: " + ", ".join(
            TAGS.get(o[0], "?") for o in ops)
    except Exception:
        return None
