"""Layer `style` (C06; Style.v is reused by C03/C19): rich.style.Style -- algebra (+), parse / str /
normalize, hashing over construction routes, _make_ansi_codes / render.

Styles travel as field lists [color?, bgcolor?, attributes, set_attributes, link?, null]; colours as
in l_color ([name, type, number?, triplet?]).  Construction routes are expression trees (see
DrvStyle.eval) evaluated here on real Style objects:
  [0] null  [1,s] parse  [2,color,bg,flags,link?] Style(...)  [3,a,b] a+b  [4,e] copy  [5,e,link?] update_link
  [6,e] without_color  [7,c?,b?] from_color  [8,e] str(e);e  [9,fields] raw  [10,e,sys] _make_ansi_codes;e
  [11,e] e+None  [12,e..] combine  [13,e] background_style  [14,e] hash(e);e  (the repaired `_hash` is a lazy memo:
  whether hash() was called on an intermediate style is part of the route)
`link_id` is never compared (render gets it as a parameter).  Parsed styles are built with the
un-memoised Style.parse so that cases are independent of each other; the memo state of one object
(`_style_definition`, `_ansi`) is modelled explicitly (tags 8 and 10)."""
import itertools, os, subprocess, sys
import common
from common import s2t, t2s, DOC_ERRORS, CRASH_ERRORS

OPS = {
    "style.eval": {"res": True}, "style.add3": {"res": True}, "style.add_null": {"res": True},
    "style.hash_eq": {"res": True}, "style.roundtrip": {"res": True}, "style.parse": {"res": True},
    "style.normalize": {"res": True}, "style.split": {}, "style.attrs": {"res": True},
    "style.codes": {"res": True}, "style.render": {"res": True}, "style.spelling": {"noshrink": True},
    "style.n_spellings": {},
}

STD, E8, TRUE, WIN = 1, 2, 3, 4
ATTRS = ["bold", "dim", "italic", "underline", "blink", "blink2", "reverse", "conceal", "strike",
         "underline2", "frame", "encircle", "overline"]
N = len(ATTRS)
ALIASES = {"bold": "b", "dim": "d", "italic": "i", "underline": "u", "reverse": "r", "conceal": "c",
           "strike": "s", "underline2": "uu", "overline": "o"}

# ---------------------------------------------------------------- colours
NAMED = [("black", 0), ("red", 1), ("white", 7), ("bright_black", 8), ("bright_white", 15), ("grey0", 16),
         ("navy_blue", 17), ("khaki1", 228), ("grey93", 255), ("dark_orange", 208)]


def c_named(name, n):
    return [s2t(name), STD if n < 16 else E8, [n], []]


def c_num(n):
    return [s2t("color(%d)" % n), STD if n < 16 else E8, [n], []]


def c_hex(r, g, b):
    return [s2t("#%02x%02x%02x" % (r, g, b)), TRUE, [], [[r, g, b]]]


def c_rgb(r, g, b, sp=""):
    return [s2t("rgb(%d,%s%d,%d)" % (r, sp, g, b)), TRUE, [], [[r, g, b]]]


C_DEFAULT = [s2t("default"), 0, [], []]


def color_str(c):
    return t2s(c[0])


def rand_color(rng, odd=0.0):
    """a colour as Color.parse builds it (its name parses back to it); with probability `odd`
    one whose name does not (a down-converted colour, a name with blanks, a foreign name)"""
    if rng.random() < odd:
        k = rng.randrange(4)
        if k == 0:
            return [s2t("#ff0000"), STD, [1], []]                   # downgrade keeps the name
        if k == 1:
            return c_rgb(rng.randrange(256), 2, 3, sp=" ")        # Color.parse("rgb(1, 2,3)")
        if k == 2:
            return [s2t("color(%d)" % rng.randrange(16)), WIN, [rng.randrange(16)], []]
        return [s2t("mine"), E8, [rng.randrange(256)], []]
    k = rng.randrange(6)
    if k == 0:
        return C_DEFAULT
    if k == 1:
        return c_named(*rng.choice(NAMED))
    if k == 2:
        return c_num(rng.choice([0, 7, 8, 15, 16, 100, 231, 232, 255, rng.randrange(256)]))
    if k == 3:
        return c_hex(rng.randrange(256), rng.randrange(256), rng.randrange(256))
    if k == 4:
        return c_rgb(rng.randrange(256), rng.randrange(256), rng.randrange(256))
    return c_hex(*rng.choice([(0, 0, 0), (255, 255, 255), (255, 0, 0), (128, 128, 128)]))


LINKS = ["http://a", "HTTP://Up.Case/X", "https://example.org/x?y=1", "x", "none", "on", "link", "not", "bold", "ünï/日本", "a;b"]


def rand_link(rng, odd=0.0):
    if rng.random() < odd:
        return rng.choice(["", "a b", " x", "x\n"])
    return rng.choice(LINKS)


# ---------------------------------------------------------------- style specs and routes
def rand_flags(rng):
    """13 tri-state attributes: -1 unset, 0 off, 1 on"""
    m = rng.random()
    if m < 0.15:
        return [-1] * N
    if m < 0.4:
        f = [-1] * N
        for _ in range(rng.randint(1, 2)):
            f[rng.randrange(N)] = rng.choice([0, 1])
        return f
    p = rng.choice([0.2, 0.5, 0.9])
    return [rng.choice([0, 1]) if rng.random() < p else -1 for _ in range(N)]


def rand_spec(rng, odd=0.0):
    """(color?, bgcolor?, flags, link?) with colours as field lists"""
    return (rand_color(rng, odd) if rng.random() < 0.6 else None,
            rand_color(rng, odd) if rng.random() < 0.4 else None,
            rand_flags(rng),
            rand_link(rng, odd) if rng.random() < 0.3 else None)


def opt(x, f=lambda v: v):
    return [] if x is None else [f(x)]


def kw(color=None, bgcolor=None, flags=None, link=None, as_str=False):
    def arg(c):
        if c is None:
            return []
        return [1, c[0]] if as_str else [0, c]
    return [2, arg(color), arg(bgcolor), list(flags) if flags is not None else [-1] * N, opt(link, s2t)]


def definition(spec, rng=None, alias=False):
    color, bg, flags, link = spec
    words = []
    for i, f in enumerate(flags):
        if f >= 0:
            name = ATTRS[i]
            if alias and name in ALIASES and (rng is None or rng.random() < 0.5):
                name = ALIASES[name]
            words.append(name if f else "not " + name)
    if rng is not None:
        rng.shuffle(words)
    if color is not None:
        words.append(color_str(color))
    if bg is not None:
        words += ["on", color_str(bg)]
    if link:
        words += ["link", link]
    if rng is not None and len(words) > 1 and rng.random() < 0.3:
        k = rng.randrange(len(words))
        words[k] = words[k].upper() if not words[k].startswith(("http", "x", "a;")) and words[k] not in LINKS else words[k]
    return " ".join(words) or "none"


def parsable(spec):
    color, bg, flags, link = spec
    def ok(c):
        return c is None or (" " not in color_str(c) and c[1] != WIN and color_str(c) != "mine"
                             and not (c[1] == STD and color_str(c).startswith("#")))
    return ok(color) and ok(bg) and (link is None or (link and not any(ch.isspace() for ch in link)))


def routes(spec, rng):
    """expression trees that all construct a style equal to `spec`"""
    color, bg, flags, link = spec
    out = []
    base = kw(color, bg, flags, link)
    out.append(("kw", base))
    if parsable(spec):
        out.append(("parse", [1, s2t(definition(spec))]))
        out.append(("parse-alias", [1, s2t(definition(spec, rng, alias=True))]))
        out.append(("kw-str", kw(color, bg, flags, link, as_str=True)))
    # one keyword at a time, summed
    parts = []
    for i, f in enumerate(flags):
        if f >= 0:
            fl = [-1] * N
            fl[i] = f
            parts.append(kw(flags=fl))
    if color is not None:
        parts.append(kw(color=color))
    if bg is not None:
        parts.append(kw(bgcolor=bg))
    if link:
        parts.append(kw(link=link))
    if len(parts) >= 2:
        acc = parts[0]
        for p in parts[1:]:
            acc = [3, acc, p]
        out.append(("sum", acc))
        out.append(("combine", [12] + parts))
        rparts = parts[:]
        acc = rparts[-1]
        for p in reversed(rparts[:-1]):
            acc = [3, p, acc]
        out.append(("sum-right", acc))
    out.append(("copy", [4, base]))
    out.append(("null+", [3, [0], base]))
    out.append(("+null", [3, base, [0]]))
    out.append(("+None", [11, base]))
    out.append(("update_link", [5, kw(color, bg, flags, None), opt(link, s2t)]))
    out.append(("update_link2", [5, kw(color, bg, flags, "http://other"), opt(link, s2t)]))
    if color is None and bg is None:
        out.append(("without_color", [6, kw(C_DEFAULT, c_hex(1, 2, 3), flags, link)]))
        out.append(("without_color0", [6, base]))
    if all(f < 0 for f in flags) and not link:
        out.append(("from_color", [7, opt(color), opt(bg)]))
        if color is None and bg is None:
            out.append(("null", [0]))
            out.append(("parse-none", [1, s2t(" none ")]))
            out.append(("copy-null", [4, [0]]))
    if color is not None and bg is not None:
        out.append(("from_color+", [3, [7, opt(color), opt(bg)], kw(flags=flags, link=link)]))
    out.append(("copy-str", [4, [8, base]]))
    # --- routes that START from a style of another colour shape (fg only / bg only / both / neither)
    X1, X2 = c_named("navy_blue", 17), c_hex(9, 8, 7)
    some = [i for i, f in enumerate(flags) if f >= 0]
    sub = [f if (f >= 0 and rng.random() < 0.5) else -1 for f in flags]          # a subset of T's attributes
    flip = [(1 - f) if (f >= 0 and rng.random() < 0.5) else f for f in sub]       # ... some with the other value
    if color is None and bg is None:
        # colour-stripped: sources of every shape, built eagerly (keywords) and lazily (sum, from_color+)
        for nm, c, b in (("fg", X1, None), ("bg", None, X2), ("both", X1, X2), ("bg-default", None, C_DEFAULT)):
            out.append(("strip-kw-" + nm, [6, kw(c, b, flags, link)]))
            out.append(("strip-sum-" + nm, [6, [3, kw(flags=flags, link=link), kw(c, b)]]))
            out.append(("strip-fc-" + nm, [6, [3, [7, opt(c), opt(b)], kw(flags=flags, link=link)]]))
            out.append(("strip-copy-" + nm, [6, [4, kw(c, b, flags, link)]]))
            out.append(("strip-ulink-" + nm, [6, [5, kw(c, b, flags, "http://old"), opt(link, s2t)]]))
        out.append(("strip-bgstyle", [6, [3, kw(flags=flags, link=link), [13, kw(X1, X2, flip, "http://y")]]]))
    # overridden: X + T where X specifies a subset of what T specifies (every sub-shape of T's colours)
    for nm, c, b in (("none", None, None), ("fg", X1, None), ("bg", None, X2), ("both", X1, X2)):
        if (c is not None and color is None) or (b is not None and bg is None):
            continue
        x = kw(c, b, flip, "http://old" if link else None)
        out.append(("over-" + nm, [3, x, base]))
        out.append(("over-fc-" + nm, [3, [3, [7, opt(c), opt(b)], kw(flags=flip)], base]))
    if bg is not None and color is None and not some and not link:
        for nm, c in (("bg", None), ("both", X1)):
            out.append(("bgstyle-" + nm, [13, kw(c, bg, [1] + [-1] * (N - 1), "http://y")]))
            out.append(("bgstyle-sum-" + nm, [13, [3, kw(c, X2, link="http://y"), kw(bgcolor=bg)]]))
    if color is not None or bg is not None:
        out.append(("wc-then-add", [3, [6, kw(X1, X2, flip, link)], base]))
    return out


def touch(e, mode, rng):
    """interleave hash() calls (tag 14): mode 0 none, 1 after every step, 2 at random"""
    if mode == 0 or not isinstance(e, list) or not e:
        return e
    tag = e[0]
    if tag in (3, 12):
        r = [tag] + [touch(x, mode, rng) for x in e[1:]]
    elif tag in (4, 6, 8, 11, 13, 14):
        r = [tag, touch(e[1], mode, rng)]
    elif tag in (5, 10):
        r = [tag, touch(e[1], mode, rng), e[2]]
    else:
        r = e
    if mode == 1 or rng.random() < 0.4:
        return [14, r]
    return r


SHAPES = [(cs, at, lk) for cs in ("none", "fg", "bg", "both") for at in (0, 1) for lk in (0, 1)]


def shaped_spec(rng, shape):
    cs, at, lk = shape
    flags = [-1] * N
    if at:
        while all(f < 0 for f in flags):
            flags = rand_flags(rng)
    return (rand_color(rng) if cs in ("fg", "both") else None, rand_color(rng) if cs in ("bg", "both") else None,
            flags, rand_link(rng) if lk else None)


def rand_raw(rng):
    """an arbitrary record (not necessarily reachable): attribute words of any size and sign"""
    def word():
        m = rng.random()
        if m < 0.5:
            return rng.randrange(1 << N)
        if m < 0.7:
            return rng.choice([0, 1, 1 << 12, (1 << 13) - 1, 1 << 13, (1 << 14) + 5, -1, -2, -(1 << 13), 1 << 40, -(1 << 33) - 7])
        return rng.randint(-(1 << 16), 1 << 16)
    return [9, [opt(rand_color(rng, 0.2) if rng.random() < 0.5 else None),
                opt(rand_color(rng, 0.2) if rng.random() < 0.4 else None),
                word(), word(), opt(rng.choice(LINKS + [""]) if rng.random() < 0.4 else None, s2t),
                1 if rng.random() < 0.25 else 0]]


def rand_expr(rng, depth=2, odd=0.1):
    """a random construction route"""
    if depth <= 0 or rng.random() < 0.3:
        k = rng.randrange(7)
        if k == 0:
            return [0]
        if k == 1:
            sp = rand_spec(rng)
            if parsable(sp):
                return [1, s2t(definition(sp, rng, alias=True))]
            return kw(*sp)
        if k == 2:
            return [7, opt(rand_color(rng) if rng.random() < 0.6 else None), opt(rand_color(rng) if rng.random() < 0.4 else None)]
        if k == 3 and rng.random() < 0.5:
            return rand_raw(rng)
        return kw(*rand_spec(rng, odd), as_str=False)
    k = rng.randrange(9)
    sub = lambda: rand_expr(rng, depth - 1, odd)
    if k <= 2:
        return [3, sub(), sub()]
    if k == 3:
        return [4, sub()]
    if k == 4:
        return [5, sub(), opt(rand_link(rng, odd) if rng.random() < 0.7 else None, s2t)]
    if k == 5:
        return [6, sub()]
    if k == 6:
        return [8, sub()]
    if k == 7:
        return [12] + [sub() for _ in range(rng.randint(1, 3))]
    return [rng.choice([11, 13, 4, 14, 14]), sub()]


def clean(e):
    """no raw record and no empty link argument anywhere (then the invariant must hold)"""
    if not isinstance(e, list) or not e:
        return True
    tag = e[0]
    if tag == 9:
        return False
    if tag == 2 and e[4] == [[]]:
        return False
    if tag == 5 and e[2] == [[]]:
        return False
    if tag in (3, 12):
        return all(clean(x) for x in e[1:])
    if tag in (4, 5, 6, 8, 10, 11, 13, 14):
        return clean(e[1])
    return True


# ---------------------------------------------------------------- parser inputs
WORDS = ["bold", "b", "not", "on", "link", "red", "RED", "#ff0000", "color(5)", "rgb(1,2,3)", "default", "none",
         "dim", "d", "uu", "blink2", "o", "x", "http://a", "Bold", "NOT", "ON", "LINK", "linK", "K",
         "rgb(1,", "2,3)", "color(256)", "#FF00ff", "strike", "s", "italic", "i", "u", "r", "c", "frame",
         "encircle", "overline", "conceal", "reverse", "underline", "underline2", "blink", "bright_blue",
         "grey93", "None", "nota", "rgb(,,)", "٣", "on_", "-", "B"]
SEPS = [" ", " ", " ", "  ", "\t", "\n", "\x1c", "　", "\xa0", " \r\n"]
CORE = ["bold", "not", "on", "link", "red", "x", "B", "none", "#ff0000"]


def _parse_strings(rng, tier):
    out = ["", " ", "none", " none ", "None", "none none", "\tnone\n", "　none", "not", "on", "link", "not bold",
           "on red", "link x", "bold not bold", "not bold bold", "red blue", "on red on blue", "link a link b",
           "bold\x1fred", "bold\x85red", "bold red", "bold​red", "b\xa0u", "not  bold", "not\nbold",
           "not Bold", "on RED", "link HTTP://X", "LINK x", "rgb(1, 2, 3)", "on rgb(1, 2, 3)", "rgb(1,2,\x1c3)"]
    for n in (1, 2):
        for tup in itertools.product(WORDS, repeat=n):
            out.append(" ".join(tup))
    for tup in itertools.product(CORE, repeat=3):
        out.append(" ".join(tup))
    k = 1 if tier == "quick" else 20
    for _ in range(1500 * k):
        ws = [rng.choice(WORDS) for _ in range(rng.randint(1, 7))]
        s = "".join(w + rng.choice(SEPS) for w in ws)
        if rng.random() < 0.5:
            s = rng.choice(["", " ", "\n"]) + s.rstrip() if rng.random() < 0.7 else s
        out.append(s)
    for _ in range(800 * k):
        sp = rand_spec(rng)
        if parsable(sp):
            out.append(definition(sp, rng, alias=True))
    return out


# ---------------------------------------------------------------- generator
def doc_spelling_count():
    return len(_spellings(common.REPO))


def generate(rng, tier):
    cases = []
    k = 1 if tier == "quick" else 15
    # --- parser / normalize / splitting
    strs = _parse_strings(rng, tier)
    for s in strs:
        cases.append(("style.parse", s2t(s)))
    for s in strs[::2]:
        cases.append(("style.normalize", s2t(s)))
    for s in strs[::5]:
        cases.append(("style.split", s2t(s)))
    # --- associativity, bias, identity: arbitrary records and reachable styles
    single = [1 << i for i in range(N)]
    double = [(1 << i) | (1 << j) for i in range(N) for j in range(i + 1, N)]
    masks = [0, (1 << N) - 1] + single + double

    def raw(att, st, color=None, bg=None, link=None, null=0):
        return [9, [opt(color), opt(bg), att, st, opt(link, s2t), null]]
    for m in masks:               # every single-bit and double-bit pattern, as set mask and as value mask
        a = raw(rng.randrange(1 << N) & m, m, rand_color(rng) if rng.random() < 0.3 else None)
        b = raw(rng.randrange(1 << N), rng.choice(masks), None, rand_color(rng) if rng.random() < 0.3 else None)
        c = raw(m & rng.randrange(1 << N), m | rng.choice(single), link=rng.choice(LINKS) if rng.random() < 0.3 else None)
        for tri in ((a, b, c), (b, a, c), (c, b, a), (b, c, a)):
            cases.append(("style.add3", list(tri)))
    for _ in range(1200 * k):
        cases.append(("style.add3", [rand_expr(rng, 1), rand_expr(rng, 1), rand_expr(rng, 1)]))
    for _ in range(800 * k):
        cases.append(("style.add3", [rand_raw(rng), rand_raw(rng), rand_raw(rng)]))
    for _ in range(800 * k):
        cases.append(("style.add3", [kw(*rand_spec(rng)), kw(*rand_spec(rng)), kw(*rand_spec(rng))]))
    for _ in range(600 * k):
        cases.append(("style.add_null", rand_expr(rng, 2)))
    cases.append(("style.add_null", kw(link="")))
    # --- any route: fields, str, bool, descriptors
    for _ in range(2500 * k):
        e = rand_expr(rng, rng.choice([1, 2, 3]))
        cases.append(("style.eval", e))
        if rng.random() < 0.3:
            cases.append(("style.attrs", e))
    for fl in itertools.product([-1, 0, 1], repeat=3):      # every tri-state pattern on bit triples
        for base in range(0, N - 2, 2):
            f = [-1] * N
            f[base:base + 3] = fl
            cases.append(("style.eval", kw(flags=f)))
            cases.append(("style.attrs", kw(flags=f)))
    cases.append(("style.eval", [12]))                                      # combine([]) -> StopIteration
    cases.append(("style.eval", kw(color=[s2t("nosuchcolour"), 0, [], []], as_str=True)))
    # --- round trip
    for _ in range(2500 * k):
        sp = rand_spec(rng, 0.0)
        r = rng.choice(routes(sp, rng))[1]
        cases.append(("style.roundtrip", r))
    for _ in range(700 * k):
        cases.append(("style.roundtrip", rand_expr(rng, 2, odd=0.0)))
    for i in range(N):
        for v in (0, 1):
            f = [-1] * N
            f[i] = v
            cases.append(("style.roundtrip", kw(flags=f)))
        for j in range(i + 1, N):
            f = [-1] * N
            f[i], f[j] = rng.choice([0, 1]), rng.choice([0, 1])
            cases.append(("style.roundtrip", kw(flags=f, color=rand_color(rng) if rng.random() < 0.3 else None)))
    # the memo of str() and update_link (finding of C06)
    for _ in range(200 * k):
        sp = rand_spec(rng)
        cases.append(("style.roundtrip", [5, [8, kw(*sp)], opt(rng.choice([None, "http://n", "q"]), s2t)]))
    # --- hashing: every pair of routes to the same style.  Targets of every colour shape (none / fg / bg /
    # both) x attributes x link; routes start from every other shape (stripped, overridden, background_style,
    # update_link, ...); hash() is optionally called on every intermediate style (the lazy memo is part of
    # the route); == vs hash() equality is compared for ALL pairs of routes.
    for rep in range(3 * k):
        for shape in SHAPES:
            sp = shaped_spec(rng, shape)
            rs = routes(sp, rng)
            for (n1, r1), (n2, r2) in itertools.combinations(rs, 2):
                m1, m2 = rng.choice([0, 1, 2]), rng.choice([0, 1, 2])
                cases.append(("style.hash_eq", [touch(r1, m1, rng), touch(r2, m2, rng)]))
            for n1, r1 in rs:       # a route against its own fully hashed version
                cases.append(("style.hash_eq", [r1, touch(r1, 1, rng)]))
    for _ in range(500 * k):
        cases.append(("style.hash_eq", [rand_expr(rng, 2), rand_expr(rng, 2)]))
    for _ in range(300 * k):    # pairs across targets that differ in one component only
        sp = shaped_spec(rng, rng.choice(SHAPES))
        sp2 = (sp[0], None if sp[1] is not None else c_named("blue", 4), sp[2], sp[3])
        cases.append(("style.hash_eq", [touch(rng.choice(routes(sp, rng))[1], rng.randrange(3), rng),
                                        touch(rng.choice(routes(sp2, rng))[1], rng.randrange(3), rng)]))
    # --- SGR codes and render (the encoder proper is C03's)
    for _ in range(700 * k):
        sp = rand_spec(rng)
        e = kw(*sp) if rng.random() < 0.7 else rand_expr(rng, 2, odd=0.0)
        sysv = rng.choice([STD, E8, TRUE, WIN])
        cases.append(("style.codes", [e, sysv]))
        cases.append(("style.render", [e, s2t(rng.choice(["", "x", "héllo", "a\nb"])), rng.choice([[], [sysv], [sysv]]),
                                       rng.randrange(2), s2t("ID")]))
    for m in masks:
        cases.append(("style.codes", [raw(m, m), TRUE]))
        cases.append(("style.codes", [raw(m, rng.randrange(1 << N)), STD]))
    # (the _ansi memo across colour systems is D16, C03's: tag 10 is only used with the same system)
    cases.append(("style.codes", [[10, kw(color=c_hex(255, 0, 0)), TRUE], TRUE]))
    # --- documented spellings
    for i in range(doc_spelling_count()):
        cases.append(("style.spelling", i))
    cases.append(("style.n_spellings", []))
    return cases


# ---------------------------------------------------------------- which variant does the tree implement?
_FIX = {}


def fixes():
    """(fix_def, fix_d4): does the implementation under test clear the str() memo in update_link /
    hash styles by the fields __eq__ compares?"""
    repo = common.REPO
    if repo not in _FIX:
        code = (
            "from rich.style import Style\n"
            "from rich.color import Color\n"
            "s = Style(bold=True); str(s); t = s.update_link('x')\n"
            "print('def=' + ('1' if str(t) == 'bold link x' else '0'))\n"
            "red = Color.parse('red')\n"
            "pairs = [(Style(bold=True, color='red'), Style(bold=True) + Style(color='red')),\n"
            "         (Style(color='red'), Style.from_color(red)),\n"
            "         (Style(bold=True, link='x'), Style(bold=True).update_link('x')),\n"
            "         (Style(bold=True), Style(bold=True, color='red').without_color)]\n"
            "print('d4=' + ('1' if all(a == b and hash(a) == hash(b) for a, b in pairs) else '0'))\n")
        env = dict(os.environ, PYTHONPATH=repo)
        try:
            out = subprocess.run([common.PY, "-c", code], env=env, stdout=subprocess.PIPE, stderr=subprocess.DEVNULL,
                                 cwd="/", timeout=60).stdout.decode()
        except Exception:
            out = ""
        _FIX[repo] = (1 if "def=1" in out else 0, 1 if "d4=1" in out else 0)
    return _FIX[repo]


def model_case(op, arg):
    fd, fh = fixes()
    if op in ("style.eval", "style.add_null", "style.roundtrip", "style.attrs"):
        return op, [fd, arg]
    if op == "style.add3":
        return op, [fd] + arg
    if op == "style.hash_eq":
        return op, [fd, fh] + arg
    if op in ("style.codes", "style.render"):
        return op, [fd] + arg
    return op, arg


# ---------------------------------------------------------------- implementation side
def _color(t):
    from rich.color import Color, ColorType
    from rich.color_triplet import ColorTriplet
    return Color(t2s(t[0]), ColorType(t[1]), t[2][0] if t[2] else None, ColorTriplet(*t[3][0]) if t[3] else None)


def _ucolor(c):
    return [s2t(c.name), int(c.type), [] if c.number is None else [c.number],
            [] if c.triplet is None else [[c.triplet.red, c.triplet.green, c.triplet.blue]]]


def _fields(s):
    return [[] if s._color is None else [_ucolor(s._color)], [] if s._bgcolor is None else [_ucolor(s._bgcolor)],
            int(s._attributes), int(s._set_attributes), [] if s._link is None else [s2t(s._link)], 1 if s._null else 0]


def _obs(s):
    return [_fields(s), s2t(str(s)), 1 if s else 0]


def _res(fn):
    try:
        return [0, fn()]
    except Exception as e:   # noqa
        name = type(e).__name__
        if name in DOC_ERRORS:
            return [1, DOC_ERRORS[name]]
        return [2, CRASH_ERRORS.get(name, 99)]


def _parse(text):
    from rich.style import Style
    return Style.parse.__func__.__wrapped__(Style, text)      # the un-memoised function


def _reset_shared():
    """the module-level NULL_STYLE is shared by every case: empty its memos"""
    from rich import style as st
    st.NULL_STYLE._ansi = None
    st.NULL_STYLE._style_definition = None
    st.Style.parse.cache_clear()
    st.Style.normalize.cache_clear()


def _arg(a):
    if not a:
        return None
    return _color(a[1]) if a[0] == 0 else t2s(a[1])


def ev(e):
    from rich.style import Style, NULL_STYLE
    from rich.color import ColorSystem
    tag = e[0]
    if tag == 0:
        return Style.null()
    if tag == 1:
        return _parse(t2s(e[1]))
    if tag == 2:
        flags = {ATTRS[i]: bool(f) for i, f in enumerate(e[3][:N]) if f >= 0}
        return Style(color=_arg(e[1]), bgcolor=_arg(e[2]), link=t2s(e[4][0]) if e[4] else None, **flags)
    if tag == 3:
        a = ev(e[1])
        b = ev(e[2])
        return a + b
    if tag == 4:
        return ev(e[1]).copy()
    if tag == 5:
        return ev(e[1]).update_link(t2s(e[2][0]) if e[2] else None)
    if tag == 6:
        return ev(e[1]).without_color
    if tag == 7:
        return Style.from_color(_color(e[1][0]) if e[1] else None, _color(e[2][0]) if e[2] else None)
    if tag == 8:
        s = ev(e[1])
        str(s)
        if s is NULL_STYLE:
            s._style_definition = None      # shared object: see the module docstring / notes
        return s
    if tag == 9:
        f = e[1]
        s = Style.__new__(Style)
        s._ansi = None
        s._style_definition = None
        s._color = _color(f[0][0]) if f[0] else None
        s._bgcolor = _color(f[1][0]) if f[1] else None
        s._attributes = f[2]
        s._set_attributes = f[3]
        s._link = t2s(f[4][0]) if f[4] else None
        s._link_id = "raw" if s._link else ""
        s._hash = hash((s._color, s._bgcolor, s._attributes, s._set_attributes, s._link))
        s._null = bool(f[5])
        return s
    if tag == 10:
        s = ev(e[1])
        s._make_ansi_codes(ColorSystem(e[2]))
        if s is NULL_STYLE:
            s._ansi = None
        return s
    if tag == 14:
        s = ev(e[1])
        hash(s)
        return s
    if tag == 11:
        return ev(e[1]) + None
    if tag == 12:
        return Style.combine([ev(x) for x in e[1:]])
    if tag == 13:
        return ev(e[1]).background_style
    raise RuntimeError("bad expression tag")


def _attr(v):
    return -1 if v is None else (1 if v else 0)


def impl(op, arg):
    from rich.style import Style
    from rich.color import ColorSystem
    _reset_shared()
    if op == "style.eval":
        return _obs(ev(arg))
    if op == "style.add3":
        a, b, c = ev(arg[0]), ev(arg[1]), ev(arg[2])
        ab = a + b
        bc = b + c
        return [_fields(a), _fields(b), _fields(c), _fields(ab), _fields(ab + c), _fields(a + bc), _fields(bc)]
    if op == "style.add_null":
        a = ev(arg)
        return [_fields(a), _fields(Style.null() + a), _fields(a + Style.null())]
    if op == "style.hash_eq":
        a, b = ev(arg[0]), ev(arg[1])
        return [1 if a == b else 0, 1 if hash(a) == hash(b) else 0]
    if op == "style.roundtrip":
        a = ev(arg)
        d = str(a)
        n = _res(lambda: s2t(Style.normalize.__func__.__wrapped__(Style, d)))
        return [_fields(a), s2t(d), _res(lambda: _fields(_parse(d))), n,
                _res(lambda: _fields(_parse(t2s(n[1])))) if n[0] == 0 else []]
    if op == "style.parse":
        return _obs(_parse(t2s(arg)))
    if op == "style.normalize":
        return s2t(Style.normalize.__func__.__wrapped__(Style, t2s(arg)))
    if op == "style.split":
        s = t2s(arg)
        return [[s2t(w) for w in s.split()], s2t(s.lower()), s2t(s.strip())]
    if op == "style.attrs":
        s = ev(arg)
        return [_attr(getattr(s, name)) for name in ATTRS]
    if op == "style.codes":
        return s2t(ev(arg[0])._make_ansi_codes(ColorSystem(arg[1])))
    if op == "style.render":
        s = ev(arg[0])
        if s._link_id:
            s._link_id = t2s(arg[4])
        return s2t(s.render(t2s(arg[1]), color_system=ColorSystem(arg[2][0]) if arg[2] else None,
                            legacy_windows=bool(arg[3])))
    if op == "style.spelling":
        w = SPELLINGS()[arg]
        return [s2t(w), _res(lambda: _fields(_parse(w)))]
    if op == "style.n_spellings":
        return len(SPELLINGS())
    raise RuntimeError("unknown op " + op)


_SP = {}


def _spellings(repo):
    """the documented spellings, re-extracted from the docs of the tree under test with the
    translator's own functions (same order as SpecStyle.documented_spellings)"""
    if repo not in _SP:
        sys.path.insert(0, os.path.join(common.VERIF, "tools", "translate"))
        import importlib
        importlib.import_module("run")
        ts = importlib.import_module("t_style")
        out = []
        for g in ts._doc_attribute_spellings(repo):
            for w in g:
                out += [w, "not " + w]
        for name, _n in ts._doc_colour_names(repo):
            out += [name, "on " + name]
        out += ["default", "default on default", "link https://google.com", "blink bold red underline on white"]
        _SP[repo] = out
    return _SP[repo]


def SPELLINGS():
    return _spellings(os.environ.get("PYTHONPATH", common.REPO).split(os.pathsep)[0])


# ---------------------------------------------------------------- spec checkers on the implementation's output
def spec_cases(op, arg, out):
    if op == "style.spelling" and isinstance(out, list) and len(out) == 2:
        return [("spec.style.spelling_ok", [arg, out[1]])]
    if not (isinstance(out, list) and len(out) == 2 and out[0] == 0):
        return []
    v = out[1]
    res = []
    if op == "style.add3":
        a, b, c, ab, ab_c, a_bc, bc = v
        res.append(("spec.style.assoc_ok", [ab_c, a_bc]))
        res.append(("spec.style.add_ok", [a, b, ab]))
        res.append(("spec.style.add_ok", [b, c, bc]))
        res.append(("spec.style.add_ok", [ab, c, ab_c]))
    elif op == "style.add_null":
        a, na, an = v
        res.append(("spec.style.identity_ok", [a, na]))
        res.append(("spec.style.identity_ok", [a, an]))
    elif op == "style.eval":
        if clean(arg):
            res.append(("spec.style.inv", v[0]))
        res.append(("spec.style.str_ok", [v[0], v[1]]))
    elif op == "style.hash_eq":
        res.append(("spec.style.eq_hash_ok", v))
    elif op == "style.roundtrip":
        a, d, p, n, pn = v
        res.append(("spec.style.str_ok", [a, d]))
        res.append(("spec.style.roundtrip_ok", [a, p]))
        if pn:
            res.append(("spec.style.roundtrip_ok", [a, pn]))
    return res


def describe(op, arg):
    def show(e):
        if not isinstance(e, list) or not e:
            return repr(e)
        t = e[0]
        if t == 0:
            return "Style.null()"
        if t == 1:
            return "Style.parse(%r)" % t2s(e[1])
        if t == 2:
            parts = []
            for nm, a in (("color", e[1]), ("bgcolor", e[2])):
                if a:
                    parts.append("%s=%r" % (nm, t2s(a[1]) if a[0] == 1 else "Color(%s)" % t2s(a[1][0])))
            parts += ["%s=%s" % (ATTRS[i], bool(f)) for i, f in enumerate(e[3][:N]) if f >= 0]
            if e[4]:
                parts.append("link=%r" % t2s(e[4][0]))
            return "Style(%s)" % ", ".join(parts)
        if t == 3:
            return "(%s + %s)" % (show(e[1]), show(e[2]))
        if t == 4:
            return show(e[1]) + ".copy()"
        if t == 5:
            return "%s.update_link(%r)" % (show(e[1]), t2s(e[2][0]) if e[2] else None)
        if t == 6:
            return show(e[1]) + ".without_color"
        if t == 7:
            return "Style.from_color(%s, %s)" % (t2s(e[1][0][0]) if e[1] else None, t2s(e[2][0][0]) if e[2] else None)
        if t == 8:
            return "str'd(%s)" % show(e[1])
        if t == 9:
            f = e[1]
            return "raw(attrs=%s, set=%s, color=%s, bg=%s, link=%r, null=%s)" % (
                f[2], f[3], t2s(f[0][0][0]) if f[0] else None, t2s(f[1][0][0]) if f[1] else None,
                t2s(f[4][0]) if f[4] else None, f[5])
        if t == 10:
            return "ansi'd(%s, %s)" % (show(e[1]), e[2])
        if t == 11:
            return "(%s + None)" % show(e[1])
        if t == 12:
            return "Style.combine([%s])" % ", ".join(show(x) for x in e[1:])
        if t == 13:
            return show(e[1]) + ".background_style"
        if t == 14:
            return "hash'd(%s)" % show(e[1])
        return repr(e)
    try:
        if op in ("style.parse", "style.normalize", "style.split"):
            return "%s(%r)" % (op, t2s(arg))
        if op in ("style.eval", "style.add_null", "style.roundtrip", "style.attrs"):
            return "%s: %s" % (op, show(arg))
        if op == "style.add3":
            return "a=%s  b=%s  c=%s" % tuple(show(x) for x in arg)
        if op == "style.hash_eq":
            return "%s  vs  %s" % (show(arg[0]), show(arg[1]))
        if op == "style.spelling":
            return "documented spelling #%d: Style.parse(%r)" % (arg, _spellings(common.REPO)[arg])
        if op in ("style.codes", "style.render"):
            return "%s: %s %r" % (op, show(arg[0]), arg[1:])
    except Exception:
        pass
    return None
