"""Layer `decode` (C19): rich.ansi (tokenizer, AnsiDecoder) and rich.file_proxy (FileProxy).

wire formats (see coq/model/DrvDecode.v)
  colour  [name, type, [number]?, [[r,g,b]]?]
  style   [colour?, bgcolour?, attributes, set_attributes, [link]?]
  Text    [plain, [[start, end, style], ...]]
  run     [text, [style]?]            styled text = list of lines = list of runs
  history [[0, text] | [1], ...]      write(text) | flush()
  out     [0, 0, [Text per line], kw] | [0, 1, str, kw] | [1, doc?, class]     kw = markup, emoji, highlight (-1 = absent)
"""
import itertools, os, re, subprocess
import common
from common import s2t, t2s

OPS = {
    "decode.tokbatch": {}, "decode.csibatch": {}, "decode.splitlines": {},
    "decode.batch": {}, "decode.lines": {"res": True}, "decode.seq": {},
    "decode.roundtrip": {"res": True}, "proxy.run": {}, "proxy.live": {}, "proxy.facts": {},
    # nested spans through the real Text.render / Style.__add__ (no model of Text.render: the expected
    # per-character styles are computed in this file, independently of rich; checked by roundtrip_b)
    "decode.nested": {"spec_only": True},
}

N_ATTR = 13
ASCII = "abcXYZ 09-_[]m;:\\/"
WIDE = "あ中\U0001f600Ａ"
ZERO = "́​\x00\x7f"
CLEAN = "abcXYZ 09-_[]m;:" + WIDE + "é"


# ---------------------------------------------------------------- generators
def c_std(n):
    return [s2t(f"color({n})"), 1, [n], []]


def c_8bit(n):
    return [s2t(f"color({n})"), 2, [n], []]


def c_rgb(r, g, b):
    return [s2t("#%02x%02x%02x" % (r, g, b)), 3, [], [[r, g, b]]]


C_DEFAULT = [s2t("default"), 0, [], []]


def rand_color(rng):
    k = rng.randrange(8)
    if k <= 1:
        return []
    if k == 2:
        return [C_DEFAULT]
    if k == 3:
        return [c_std(rng.choice([0, 1, 7, 8, 9, 15, rng.randrange(16)]))]
    if k == 4:
        return [c_8bit(rng.choice([16, 17, 231, 232, 255, rng.randrange(16, 256)]))]
    ch = lambda: rng.choice([0, 1, 9, 10, 99, 100, 127, 254, 255, rng.randrange(256)])
    return [c_rgb(ch(), ch(), ch())]


LINKS = ["http://a", "https://example.org/x?y=1&z=2", "x", "8;", "a;b;c", "id=7", "Ünï/あ", "[b]", "m"]


def rand_style(rng):
    att = setw = 0
    dens = rng.choice([0.0, 0.15, 0.5, 1.0])
    for i in range(N_ATTR):
        if rng.random() < dens:
            setw |= 1 << i
            if rng.random() < 0.6:
                att |= 1 << i
    link = [s2t(rng.choice(LINKS))] if rng.random() < 0.3 else []
    if rng.random() < 0.03:
        link = [[]]           # link="" (falsy)
    return [rand_color(rng), rand_color(rng), att, setw, link]


def rand_text(rng, pool=None, maxlen=8):
    pool = pool or rng.choice([ASCII, ASCII, WIDE, ZERO, ASCII + WIDE + ZERO])
    return "".join(rng.choice(pool) for _ in range(rng.randint(0, maxlen)))


ATTR_WORDS = ["bold", "dim", "italic", "underline", "blink", "blink2", "reverse", "conceal", "strike",
              "underline2", "frame", "encircle", "overline"]


def style_def(sty):
    """style tree -> definition string for Style.parse (links without spaces)"""
    col, bg, att, setw, link = sty
    words = []
    for i in range(N_ATTR):
        if setw & (1 << i):
            words.append(ATTR_WORDS[i] if att & (1 << i) else "not " + ATTR_WORDS[i])
    if col:
        words.append(t2s(col[0][0]))
    if bg:
        words.append("on " + t2s(bg[0][0]))
    if link and link[0]:
        words.append("link " + t2s(link[0]))
    return " ".join(words) or "none"


def combine_trees(styles):
    """right-biased combination of style trees (what Style.combine must compute), done here"""
    col, bg, att, setw, link = [], [], 0, 0, []
    for s in styles:
        if s[0]:
            col = s[0]
        if s[1]:
            bg = s[1]
        att = (att & ~s[3]) | (s[2] & s[3])
        setw |= s[3]
        if s[4] and s[4][0]:
            link = s[4]
    return [col, bg, att, setw, link]


def rand_on_style(rng):
    """a style that switches some attributes ON (plus maybe colours / link)"""
    bits = rng.sample(range(N_ATTR), rng.randint(1, 4))
    w = sum(1 << b for b in bits)
    link = [s2t(rng.choice(["http://a", "https://example.org/x?y=1", "x"]))] if rng.random() < 0.2 else []
    return [rand_color(rng) if rng.random() < 0.4 else [], rand_color(rng) if rng.random() < 0.3 else [], w, w, link]


def rand_neg_style(rng, of):
    """only negations, of attributes the outer style sets"""
    on = [i for i in range(N_ATTR) if of[3] & (1 << i)] or [0]
    bits = rng.sample(on, rng.randint(1, len(on)))
    if rng.random() < 0.3:
        bits.append(rng.randrange(N_ATTR))
    return [[], [], 0, sum(1 << b for b in set(bits)), []]


def rand_nested(rng):
    """[warm, base?, plain, [[start, end, style], ...]]"""
    plain = "\n".join(rand_text(rng, CLEAN, 8) or "xy" for _ in range(rng.choice([1, 1, 2])))
    n = len(plain)
    k = rng.random()
    spans = []
    if k < 0.45:       # base sets attributes, inner span(s) only negate them
        base = [rand_on_style(rng)]
        for _ in range(rng.choice([1, 1, 2])):
            a = rng.randint(0, n)
            spans.append([a, rng.randint(a, n), rand_neg_style(rng, base[0])])
    elif k < 0.75:     # no base: the outer span is the left operand, the inner span negates
        base = []
        outer = rand_on_style(rng)
        a = rng.randint(0, n // 2)
        b = rng.randint(a, n)
        spans.append([a, b, outer])
        c = rng.randint(a, b)
        spans.append([c, rng.randint(c, n), rand_neg_style(rng, outer)])
        if rng.random() < 0.3:
            spans.append([0, n, rand_style(rng)[:4] + [[]]])
    else:              # anything on anything
        base = [rand_style(rng)[:4] + [[]]] if rng.random() < 0.6 else []
        for _ in range(rng.randint(1, 3)):
            a = rng.randint(0, n)
            sty = rand_style(rng)
            if sty[4] and (not sty[4][0] or " " in t2s(sty[4][0])):
                sty[4] = []
            spans.append([a, rng.randint(a, n), sty])
    return [rng.choice([0, 1, 1, 2]), base, s2t(plain), spans]


def rand_runs(rng, clean=False):
    lines = []
    for _ in range(rng.choice([1, 1, 2, 3])):
        line = []
        for _ in range(rng.choice([0, 1, 1, 2, 3, 4])):
            sty = [] if rng.random() < 0.25 else [rand_style(rng)]
            txt = rand_text(rng, CLEAN if clean else None)
            if clean and not txt:
                txt = "x"
            line.append([s2t(txt), sty])
        lines.append(line)
    return lines


def h_encode(sty):
    """harness-side SGR encoder (independent of rich) -- only to produce styled streams"""
    col, bg, att, setw, link = sty
    codes = []
    names = [1, 2, 3, 4, 5, 6, 7, 8, 9, 21, 51, 52, 53]
    for i in range(N_ATTR):
        if att & setw & (1 << i):
            codes.append(str(names[i]))
    for c, fg in ((col, True), (bg, False)):
        if not c:
            continue
        _, ty, num, trip = c[0]
        if ty == 0:
            codes.append("39" if fg else "49")
        elif ty == 1:
            n = num[0]
            codes.append(str((30 if n < 8 else 82) + n + (0 if fg else 10)))
        elif ty == 2:
            codes += ["38" if fg else "48", "5", str(num[0])]
        else:
            codes += ["38" if fg else "48", "2"] + [str(x) for x in trip[0]]
    return ";".join(codes)


def styled_line(rng):
    out = ""
    for _ in range(rng.choice([1, 2, 3])):
        sty = rand_style(rng)
        codes = h_encode(sty)
        txt = rand_text(rng, maxlen=5)
        link = t2s(sty[4][0]) if sty[4] and sty[4][0] else None
        if link:
            out += f"\x1b]8;id={rng.randint(0, 99)};{link}\x1b\\"
        if codes:
            out += f"\x1b[{codes}m{txt}"
            if rng.random() < 0.8:       # sometimes the style stays on across the newline
                out += "\x1b[0m"
        else:
            out += txt
        if link and rng.random() < 0.9:
            out += "\x1b]8;;\x1b\\"
    return out


JUNK = ["\x1b", "[", "]8;", ";", "1", "38", "5", "2", "0", "48", "255", "256", "²", "٣", "1" * 12, "m", "\x07",
        "\x1b\\", "x", "\r", "[b]", "[/]", "[bold red]", ":smile:", "123", "\t", "\x0b", "\x85", " ", "\x1b[1m", "\x1b[0m",
        "\x1b[K", "\x1b[2J", "\x1bM", "\x1b[?25l", "\\", "\x1b]8;;http://x\x1b\\", "\x1b]0;title\x1b\\"]
CORE = ["\x1b", "[", "]8;", ";", "1", "38", "²", "m", "\x1b\\", "x", "\n"]
CORE8 = ["\x1b", "[", "]", ";", "5", "m", "\\", "x"]
CSI_ALPHA = ["\x1b", "[", "0", "?", " ", "/", "@", "~", "Z", "\\", "_", "a", "\x7f", "\x1f", "]", "^"]


def rand_junk(rng, n=None, extra=()):
    pool = JUNK + list(extra)
    return "".join(rng.choice(pool) for _ in range(n if n is not None else rng.randint(0, 8)))


def rand_sgr(rng):
    parts = [rng.choice(["0", "1", "2", "3", "4", "9", "21", "22", "29", "30", "37", "38", "39", "40", "48", "49", "5", "51",
                         "54", "55", "90", "97", "100", "107", "255", "256", "999", "", "x", "²", "٣٨", " 1", "1 ", "+1", "-1",
                         "1_0", "007", str(rng.randrange(300))])
             for _ in range(rng.randint(0, 9))]
    return "\x1b[" + ";".join(parts) + "m"


def rand_stream_line(rng):
    k = rng.random()
    if k < 0.55:
        return styled_line(rng)
    if k < 0.75:
        return rand_junk(rng)
    if k < 0.9:
        return rand_sgr(rng) + rand_text(rng, maxlen=4) + rng.choice(["", "\x1b[0m"])
    return rand_text(rng, maxlen=6)


def batches(items, n):
    for i in range(0, len(items), n):
        yield items[i:i + n]


def all_strings(alpha, maxlen):
    for n in range(maxlen + 1):
        for tup in itertools.product(alpha, repeat=n):
            yield "".join(tup)


def rand_history(rng, stream, flush_p=0.2, empty_p=0.1):
    n = len(stream)
    k = rng.choice([0, 1, 2, 3, 5, 8, min(n, 20)])
    cuts = sorted(rng.randint(0, n) for _ in range(k))
    hist = []
    prev = 0
    for c in cuts + [n]:
        hist.append([0, s2t(stream[prev:c])])
        prev = c
        if rng.random() < flush_p:
            hist.append([1])
        if rng.random() < empty_p:
            hist.append([0, []])
    if rng.random() < 0.5:
        hist.append([1])
    if rng.random() < 0.15:
        hist.append([1])
    return hist


def generate(rng, tier):
    thorough = tier == "thorough"
    k = 10 if thorough else 1
    cases = [("proxy.facts", [])]
    # ---- tokenizer / decoder on the token alphabet, exhaustively
    strs = list(all_strings(CORE, 6 if thorough else 5))
    if thorough:
        strs += list(all_strings(CORE8, 7))
    for b in batches(strs, 2000):
        arg = [s2t(s) for s in b]
        cases.append(("decode.tokbatch", arg))
        cases.append(("decode.batch", arg))
    csi = list(all_strings(CSI_ALPHA, 5 if thorough else 4))
    for b in batches(csi, 4000):
        cases.append(("decode.csibatch", [s2t(s) for s in b]))
    # ---- random longer ones
    rnd = []
    for _ in range(3000 * k):
        r = rng.random()
        if r < 0.4:
            rnd.append(rand_junk(rng, rng.randint(0, 14), extra=["\n"]))
        elif r < 0.7:
            rnd.append(rand_sgr(rng) + rand_text(rng, maxlen=3) + rand_sgr(rng) + rand_text(rng, maxlen=3))
        else:
            rnd.append(rand_stream_line(rng) + rng.choice(["", "\r", "\n"]) + rand_stream_line(rng))
    rnd.append("\x1b[" + "1" * 4300 + "m")
    rnd.append("\x1b[" + "1" * 4301 + "m")
    rnd.append("\x1b[1;" + "0" * 5000 + "1m")
    for b in batches(rnd, 300):
        arg = [s2t(s) for s in b]
        cases.append(("decode.tokbatch", arg))
        cases.append(("decode.batch", arg))
        cases.append(("decode.csibatch", arg))
    # all codes 0..255 (+ a few beyond) one by one and as 38/48 sub-parameters
    allc = [f"\x1b[{n}mx" for n in range(0, 300)] + [f"\x1b[38;5;{n}mx" for n in range(0, 300)] \
        + [f"\x1b[48;5;{n}mx" for n in range(0, 300)] + [f"\x1b[38;2;{n};0;{255 - n % 256}mx" for n in range(0, 300)]
    cases.append(("decode.batch", [s2t(s) for s in allc]))
    # ---- decode(): splitlines + state across lines
    bounds = ["\n", "\r", "\r\n", "\x0b", "\x0c", "\x1c", "\x1d", "\x1e", "\x85", " ", " ", "\n\r", "\x1f", " "]
    for _ in range(400 * k):
        parts = []
        for _ in range(rng.randint(0, 4)):
            parts.append(rand_stream_line(rng))
            parts.append(rng.choice(bounds))
        s = "".join(parts)
        cases.append(("decode.lines", s2t(s)))
        cases.append(("decode.splitlines", s2t(s)))
    for _ in range(300 * k):
        cases.append(("decode.seq", [s2t(rand_stream_line(rng) + rng.choice(["", "", "\n", "\r"]))
                                     for _ in range(rng.randint(1, 5))]))
    # ---- round trip through the real Console (truecolor)
    # all 13 attributes one by one / all on, every colour kind
    for i in range(N_ATTR):
        cases.append(("decode.roundtrip", [0, [[[s2t("ab"), [[[], [], 1 << i, 1 << i, []]]], [s2t("c"), []]]]]))
        cases.append(("decode.roundtrip", [0, [[[s2t("ab"), [[[], [], 0, 1 << i, []]]], [s2t("c"), []]]]]))
    cases.append(("decode.roundtrip", [0, [[[s2t("ab"), [[[], [], 8191, 8191, []]]]]]]))
    for n in range(0, 256, 1 if thorough else 5):
        col = c_std(n) if n < 16 else c_8bit(n)
        cases.append(("decode.roundtrip", [0, [[[s2t("x"), [[[col], [], 0, 0, []]]], [s2t("y"), [[[], [col], 0, 0, []]]]]]]))
    for _ in range(1500 * k):
        cases.append(("decode.roundtrip", [0, rand_runs(rng)]))
    for _ in range(500 * k):
        cases.append(("decode.roundtrip", [1, rand_runs(rng, clean=True)]))
    # nested spans through Text.render with cache-warm Style objects (warm 1: every style rendered alone
    # once before the measured print; warm 2: the measured Text itself printed twice; 0: cold)
    b = [[], [], 1, 1, []]
    nb = [[], [], 0, 1, []]
    for warm in (0, 1, 2):
        cases.append(("decode.nested", [warm, [b], s2t("abcd"), [[1, 3, nb]]]))
        cases.append(("decode.nested", [warm, [], s2t("abcd"), [[0, 4, b], [1, 3, nb]]]))
    for _ in range(500 * k):
        cases.append(("decode.nested", rand_nested(rng)))
    # a segment with an embedded newline printed with crop=False: the style stays open across the line
    # break and the decoder's state carries it (mode 2: one list of runs, texts may contain "\n")
    for _ in range(300 * k):
        runs = []
        for _ in range(rng.randint(1, 4)):
            txt = rand_text(rng, CLEAN, 4)
            if rng.random() < 0.6:
                txt += "\n" + rand_text(rng, CLEAN, 3)
            if rng.random() < 0.2:
                txt += "\n"
            runs.append([s2t(txt), [] if rng.random() < 0.2 else [rand_style(rng)]])
        cases.append(("decode.roundtrip", [2, [runs]]))
    # ---- FileProxy histories
    short = ["ab\ncd", "\x1b[1mx\x1b[0m\n", "a\x1b[31mb\nc\x1b[0m\n", "\n\n\n", "x\n\ny", "[b]x[/b]", "[/]\n[/]", ":smile:",
             "\x1b]8;id=1;http://a\x1b\\L\x1b]8;;\x1b\\\n", "\x1b[38;2;1;2;3mq\nr", "\x1b[²m\nz\n", "a\rb\nc"]
    for _ in range(6 * k):
        short.append("\n".join(rand_stream_line(rng) for _ in range(rng.randint(1, 3))) + rng.choice(["", "\n"]))
    for s in short:
        if len(s) > 60:
            continue
        for i in range(len(s) + 1):
            cases.append(("proxy.run", [0, [[0, s2t(s[:i])], [0, s2t(s[i:])]]]))
            cases.append(("proxy.run", [0, [[0, s2t(s[:i])], [1], [0, s2t(s[i:])], [1]]]))
        for _ in range(10):
            i, j = sorted((rng.randint(0, len(s)), rng.randint(0, len(s))))
            cases.append(("proxy.run", [0, [[0, s2t(s[:i])], [0, s2t(s[i:j])], [0, s2t(s[j:])]]]))
    # a partial line pending, then ONE write carrying several newlines (each later line must not get the
    # stale prefix again), with and without flushes around it
    for _ in range(150 * k):
        pre = rand_text(rng, CLEAN, 4) or "p"
        if rng.random() < 0.3:
            pre = "\x1b[1m" + pre
        n = rng.randint(2, 5)
        multi = "".join(rand_text(rng, CLEAN, 3) + "\n" for _ in range(n)) + rng.choice(["", "tail"])
        hist = [[0, s2t(pre)]]
        if rng.random() < 0.2:
            hist.append([0, s2t(rand_text(rng, CLEAN, 2))])
        hist.append([0, s2t(multi)])
        if rng.random() < 0.5:
            hist.append([0, s2t(rand_text(rng, CLEAN, 3) + "\n\n")])
        if rng.random() < 0.4:
            hist.append([1])
        cases.append(("proxy.run", [1, hist]))
    # ---- the two proxies a real Live / Status / Progress installs on sys.stdout / sys.stderr, over
    # start / stop / start ... on ONE display object: arg = [kind, [history per run]]
    def live_hist():
        hist = []
        for _ in range(rng.randint(1, 6)):
            which = rng.randint(0, 1)
            if rng.random() < 0.2:
                hist.append([1, which])
            else:
                r = rng.random()
                txt = rand_stream_line(rng) if r < 0.4 else (rand_text(rng, CLEAN, 5) or "x")
                txt += rng.choice(["\n", "\n", "\n", "", "\nx\ny\n", "\n\n"])
                hist.append([0, which, s2t(txt)])
        return hist
    for kind in (0, 1, 2):
        # every run writes a complete line on both streams
        cases.append(("proxy.live", [kind, [[[0, 0, s2t("out%d\n" % i)], [0, 1, s2t("err%d\n" % i)]] for i in range(3)]]))
    for _ in range(260 * k):
        kind = rng.choice([0, 0, 1, 2])
        nruns = rng.choice([1, 2, 2, 3, 3, 4])
        cases.append(("proxy.live", [kind, [live_hist() for _ in range(nruns)]]))
    for _ in range(900 * k):
        stream = "".join(rand_stream_line(rng) + rng.choice(["\n", "\n", "\n", "", "\n\n", "\r\n"])
                         for _ in range(rng.randint(0, 6)))
        cases.append(("proxy.run", [0, rand_history(rng, stream)]))
    for _ in range(300 * k):       # clean text: the console's file output is checked too
        stream = "".join(rand_text(rng, CLEAN, 6) + rng.choice(["\n", "\n", "", "\n\n"]) for _ in range(rng.randint(0, 6)))
        cases.append(("proxy.run", [1, rand_history(rng, stream, flush_p=0.1)]))
    return cases


# ---------------------------------------------------------------- which variant does the tree implement?
_D8 = {}


def d8_fixed():
    repo = common.REPO
    if repo not in _D8:
        code = ("from rich.ansi import AnsiDecoder\n"
                "try:\n    AnsiDecoder().decode_line('\\x1b[\\u00b2m'); AnsiDecoder().decode_line('\\x1b[' + '1' * 5000 + 'm')\n"
                "    print('fixed')\nexcept ValueError:\n    print('asis')\n")
        env = dict(os.environ, PYTHONPATH=repo)
        try:
            out = subprocess.run([common.PY, "-c", code], env=env, stdout=subprocess.PIPE, stderr=subprocess.DEVNULL,
                                 cwd="/", timeout=60).stdout.decode()
        except Exception:
            out = ""
        _D8[repo] = 1 if "fixed" in out else 0
    return _D8[repo]


def model_case(op, arg):
    if op in ("decode.batch", "decode.lines", "decode.seq"):
        return op, [d8_fixed(), arg]
    if op == "decode.roundtrip":
        return op, arg[1]
    if op == "proxy.run":
        return op, [d8_fixed(), arg[1]]
    if op == "proxy.live":
        return op, [d8_fixed(), arg[0], arg[1]]
    if op == "decode.nested":
        return "proxy.facts", []
    return op, arg


# ---------------------------------------------------------------- implementation side
def _color(t):
    from rich.color import Color, ColorType
    from rich.color_triplet import ColorTriplet
    return Color(t2s(t[0]), ColorType(t[1]), t[2][0] if t[2] else None, ColorTriplet(*t[3][0]) if t[3] else None)


def _ucolor(c):
    return [s2t(c.name), int(c.type), [] if c.number is None else [c.number],
            [] if c.triplet is None else [[c.triplet.red, c.triplet.green, c.triplet.blue]]]


ATTRS = ["bold", "dim", "italic", "underline", "blink", "blink2", "reverse", "conceal", "strike",
         "underline2", "frame", "encircle", "overline"]


def _style(t):
    from rich.style import Style
    col, bg, att, setw, link = t
    kw = {}
    for i, name in enumerate(ATTRS):
        if setw & (1 << i):
            kw[name] = bool(att & (1 << i))
    return Style(color=_color(col[0]) if col else None, bgcolor=_color(bg[0]) if bg else None,
                 link=t2s(link[0]) if link else None, **kw)


def _ustyle(s):
    return [[_ucolor(s._color)] if s._color is not None else [], [_ucolor(s._bgcolor)] if s._bgcolor is not None else [],
            s._attributes, s._set_attributes, [s2t(s._link)] if s._link is not None else []]


def _utext(text):
    from rich.style import Style
    spans = []
    for sp in text._spans:
        if isinstance(sp.style, str):
            if sp.style == "":
                continue              # Text.join records the (empty) base style of every part
            raise ValueError("named style in a decoded Text")
        spans.append([sp.start, sp.end, _ustyle(sp.style)])
    return [s2t(text.plain), spans]


def _split_text(t):
    """[plain, spans] of a joined Text -> one [plain, spans] per line (spans never cross a newline)"""
    plain, spans = t
    lines = []
    start = 0
    bounds = []
    for i, c in enumerate(plain + [10]):
        if c == 10:
            bounds.append((start, i))
            start = i + 1
    for a, b in bounds:
        ls = []
        for s, e, st in spans:
            if a <= s <= b:
                if e > b:
                    raise ValueError("span crosses a newline")
                ls.append([s - a, e - a, st])
        lines.append([plain[a:b], ls])
    return lines


def _outcome(fn):
    try:
        return [0, fn()]
    except Exception as e:
        name = type(e).__name__
        if name in common.DOC_ERRORS:
            return [1, common.DOC_ERRORS[name]]
        return [2, common.CRASH_ERRORS.get(name, 99)]


def _tok(tok):
    if tok.osc is None and tok.sgr is not None:
        return [1, s2t(tok.sgr)]
    if tok.sgr is None and tok.osc is not None:
        return [2, s2t(tok.osc)]
    return [0, s2t(tok.plain)]


_LINK_ID = re.compile("\x1b\\]8;id=[^;]*;")
_ESCAPES = re.compile("\x1b\\[[0-9;]*m|\x1b\\]8;[^\x1b]*\x1b\\\\")


def _console(width=100000):
    import io
    from rich.console import Console
    return Console(color_system="truecolor", force_terminal=True, file=io.StringIO(), legacy_windows=False,
                   _environ={}, width=width)


def _nested(warm, base, plain, spans):
    """Text(plain, style=base) with the given spans, every style obtained from Style.parse (lru cache: the
    same Style objects every time), printed through a truecolor Console and decoded again.
    warm 1: each style object is rendered alone once first (fills its _ansi memo);
    warm 2: the whole Text is printed once before the measured print."""
    from rich.ansi import AnsiDecoder
    from rich.style import Style
    from rich.text import Text
    Style.parse.cache_clear()      # warm-ness is decided by `warm` alone, not by earlier cases of this process
    objs = {}

    def get(tree):
        d = style_def(tree)
        if d not in objs:
            objs[d] = Style.parse(d)
        assert Style.parse(d) is objs[d]       # the lru cache hands back the same object
        return objs[d]

    def build():
        t = Text(t2s(plain), style=get(base[0]) if base else "")
        for a, b, sty in spans:
            t.stylize(get(sty), a, b)
        return t
    if warm == 1:
        w = _console()
        for tree in ([base[0]] if base else []) + [sp[2] for sp in spans]:
            w.print(Text("w", style=get(tree)))
    elif warm == 2:
        _console().print(build())
    console = _console()
    console.print(build())
    enc = _LINK_ID.sub("\x1b]8;id=0;", console.file.getvalue())
    return [s2t(enc), _outcome(lambda: [_utext(t) for t in AnsiDecoder().decode(enc)])]


class _Segs:
    """a renderable that yields the given segments unchanged"""

    def __init__(self, segs):
        self.segs = segs

    def __rich_console__(self, console, options):
        yield from self.segs


def impl(op, arg):
    from rich import ansi
    from rich.ansi import AnsiDecoder
    if op == "decode.tokbatch":
        return [[_tok(t) for t in ansi._ansi_tokenize(t2s(s))] for s in arg]
    if op == "decode.csibatch":
        return [s2t(ansi.re_csi.sub("", t2s(s))) for s in arg]
    if op == "decode.splitlines":
        return [s2t(l) for l in t2s(arg).splitlines()]
    if op == "decode.batch":
        return [_outcome(lambda: _utext(AnsiDecoder().decode_line(t2s(s)))) for s in arg]
    if op == "decode.lines":
        return [_utext(t) for t in AnsiDecoder().decode(t2s(arg))]
    if op == "decode.seq":
        d = AnsiDecoder()
        return [_outcome(lambda: _utext(d.decode_line(t2s(s)))) for s in arg]
    if op == "decode.roundtrip":
        mode, lines = arg
        from rich.segment import Segment
        from rich.text import Text
        console = _console()
        if mode in (0, 2):
            segs = []
            for line in lines:
                for txt, sty in line:
                    segs.append(Segment(t2s(txt), _style(sty[0]) if sty else None))
                segs.append(Segment("\n"))
            console.print(_Segs(segs), end="", crop=False)
        else:
            parts = []
            for i, line in enumerate(lines):
                for txt, sty in line:
                    parts.append((t2s(txt), _style(sty[0]) if sty else None))
                if i + 1 < len(lines):
                    parts.append("\n")
            console.print(Text.assemble(*parts))
        enc = _LINK_ID.sub("\x1b]8;id=0;", console.file.getvalue())
        return [s2t(enc), _outcome(lambda: [_utext(t) for t in AnsiDecoder().decode(enc)])]
    if op == "decode.nested":
        return _nested(*arg)
    if op == "proxy.run":
        return _proxy_run(arg[0], arg[1])
    if op == "proxy.live":
        return _proxy_live(arg[0], arg[1])
    if op == "proxy.facts":
        return _facts()
    raise KeyError(op)


def _proxy_run(clean, hist):
    import io
    from rich.console import Console
    from rich.file_proxy import FileProxy
    from rich.text import Text
    log = []

    class Rec(Console):
        def print(self, *objects, **kw):
            log.append((objects, kw))
            super().print(*objects, **kw)

    console = Rec(color_system="truecolor", force_terminal=True, file=io.StringIO(), legacy_windows=False,
                  _environ={}, width=100000)
    target = io.StringIO()
    proxy = FileProxy(console, target)
    outs = []
    for o in hist:
        n0 = len(log)
        exc = None
        try:
            if o[0] == 0:
                proxy.write(t2s(o[1]))
            else:
                proxy.flush()
        except Exception as e:
            exc = type(e).__name__
        for objects, kw in log[n0:]:
            kws = [(-1 if k not in kw else (1 if kw[k] else 0)) for k in ("markup", "emoji", "highlight")]
            if len(objects) == 1 and isinstance(objects[0], Text):
                outs.append([0, 0, _split_text(_utext(objects[0])), kws])
            elif len(objects) == 1 and isinstance(objects[0], str):
                outs.append([0, 1, s2t(objects[0]), kws])
            else:
                outs.append([0, 2, [], kws])
        if exc is not None:
            # an exception raised by console.print itself (after the call was logged) belongs to the call
            if exc in common.DOC_ERRORS:
                outs.append([1, 1, common.DOC_ERRORS[exc]])
            else:
                outs.append([1, 0, common.CRASH_ERRORS.get(exc, 99)])
    pending = "".join(proxy._FileProxy__buffer)
    res = [outs, s2t(pending)]
    if target.getvalue():
        res.append([s2t("PROXIED-FILE-WRITTEN")])
    if clean:
        want = "".join("".join(t2s(l[0]) + "\n" for l in o[2]) for o in outs if o[0] == 0 and o[1] == 0)
        got = _ESCAPES.sub("", console.file.getvalue())
        if want != got:
            res.append([s2t("FILE"), s2t(got)])
    return res


def _log_outs(entries):
    from rich.text import Text
    from rich.control import Control
    outs = []
    for objects, kw in entries:
        if len(objects) == 1 and isinstance(objects[0], Control):
            continue                      # Live's own refresh
        kws = [(-1 if k not in kw else (1 if kw[k] else 0)) for k in ("markup", "emoji", "highlight")]
        if len(objects) == 1 and isinstance(objects[0], Text):
            outs.append([0, 0, _split_text(_utext(objects[0])), kws])
        elif len(objects) == 1 and isinstance(objects[0], str):
            outs.append([0, 1, s2t(objects[0]), kws])
        else:
            outs.append([0, 2, [], kws])
    return outs


def _proxy_live(kind, runs):
    """start / history / stop repeated on ONE real Live (0), Status (1, wraps a Live) or Progress (2) on a
    terminal console.  Per run: [redirected0, redirected1, restored0, restored1], the console.print calls
    of each operation, what is pending in the two proxies just before stop()."""
    import io, sys
    from rich.console import Console
    from rich.file_proxy import FileProxy
    log = []

    class Rec(Console):
        def print(self, *objects, **kw):
            log.append((objects, kw))
            super().print(*objects, **kw)

    console = Rec(color_system="truecolor", force_terminal=True, file=io.StringIO(), legacy_windows=False,
                  _environ={}, width=100000)
    saved = sys.stdout, sys.stderr
    fake_out, fake_err = io.StringIO(), io.StringIO()
    sys.stdout, sys.stderr = fake_out, fake_err
    out = []
    seen = []
    try:
        if kind == 0:
            from rich.live import Live
            from rich.text import Text
            disp = Live(Text("LIVE"), console=console, auto_refresh=False, redirect_stdout=True, redirect_stderr=True)
        elif kind == 1:
            from rich.status import Status
            disp = Status("working", console=console)
        else:
            from rich.progress import Progress
            disp = Progress(console=console, auto_refresh=False)
            disp.add_task("t", total=10)
        for hist in runs:
            disp.start()
            per_op = []
            pend = [[], []]
            try:
                streams = [sys.stdout, sys.stderr]
                red = [1 if (isinstance(f, FileProxy) and not any(f is g for g in seen)) else 0 for f in streams]
                seen.extend(f for f in streams if isinstance(f, FileProxy))
                for o in hist:
                    n0 = len(log)
                    exc = None
                    try:
                        f = streams[o[1]]
                        if o[0] == 0:
                            f.write(t2s(o[2]))
                        else:
                            f.flush()
                    except Exception as e:
                        exc = type(e).__name__
                    outs = _log_outs(log[n0:])
                    if exc is not None:
                        outs.append([1, 1, common.DOC_ERRORS[exc]] if exc in common.DOC_ERRORS
                                    else [1, 0, common.CRASH_ERRORS.get(exc, 99)])
                    per_op.append(outs)
                for k, f in enumerate(streams):
                    if isinstance(f, FileProxy):
                        pend[k] = s2t("".join(f._FileProxy__buffer))
            finally:
                disp.stop()
            restored = [1 if sys.stdout is fake_out else 0, 1 if sys.stderr is fake_err else 0]
            out.append([red + restored, per_op, pend[0], pend[1]])
    finally:
        sys.stdout, sys.stderr = saved
    return out


def _facts():
    """the call-site facts, observed behaviourally (the model answers with the translator's)"""
    import io
    from rich.console import Console
    from rich.file_proxy import FileProxy
    from rich.text import Text
    log = []

    class Rec(Console):
        def print(self, *objects, **kw):
            log.append((objects, kw))

    p = FileProxy(Rec(file=io.StringIO(), _environ={}), io.StringIO())
    p.write("a\n")
    p.write("b")
    p.flush()
    out = []
    for objects, kw in log[:2]:
        out.append(1 if isinstance(objects[0], Text) else 0)
        out.append([(-1 if k not in kw else (1 if kw[k] else 0)) for k in ("markup", "emoji", "highlight")])
    return out


# ---------------------------------------------------------------- spec checkers on the implementation's output
def spec_cases(op, arg, out):
    if isinstance(out, dict):
        return [("spec.decode.no_crash", [2])] if op in ("decode.roundtrip", "proxy.run") else []
    if op == "decode.roundtrip":
        if out[0] != 0:
            return [("spec.decode.no_crash", [2])]
        enc, dec = out[1]
        if dec[0] != 0:
            return [("spec.decode.no_crash", [2])]
        want = arg[1]
        if arg[0] == 2:
            want = [[]]
            for txt, sty in arg[1][0]:
                parts = t2s(txt).split("\n")
                for i, part in enumerate(parts):
                    if i:
                        want.append([])
                    want[-1].append([s2t(part), sty])
            # the final "\n" segment ends the last line
        return [("spec.decode.roundtrip_ok", [want, dec[1]])]
    if op == "decode.nested":
        if not (len(out) == 2 and out[1][0] == 0):
            return [("spec.decode.no_crash", [2])]
        warm, base, plain, spans = arg
        want = [[]]
        for i, c in enumerate(plain):
            if c == 10:
                want.append([])
                continue
            cov = ([base[0]] if base else []) + [sp[2] for sp in spans if sp[0] <= i < sp[1]]
            want[-1].append([[c], [combine_trees(cov)] if cov else []])
        return [("spec.decode.roundtrip_ok", [want, out[1][1]])]
    if op == "proxy.live":
        if len(out) != len(arg[1]):
            return [("spec.decode.no_crash", [2])]
        res = []
        for hist, run in zip(arg[1], out):
            if len(run) != 4:
                return [("spec.decode.no_crash", [2])]
            res.append(("spec.proxy.flags", run[0]))
            for k in (0, 1):
                h, outs = [], []
                for o, oo in zip(hist, run[1]):
                    if o[1] == k:
                        h.append([0, o[2]] if o[0] == 0 else [1])
                        outs += [x if not (x[0] == 0 and x[1] == 2) else [0, 1, [], x[3]] for x in oo]
                res.append(("spec.proxy.ok", [h, outs, run[2 + k]]))
        return res
    if op == "proxy.run":
        if len(out) != 2:
            return [("spec.decode.no_crash", [2])]
        outs = [o if not (o[0] == 0 and o[1] == 2) else [0, 1, [], o[3]] for o in out[0]]
        return [("spec.proxy.ok", [arg[1], outs, out[1]])]
    return []


def describe(op, arg):
    try:
        if op == "proxy.run":
            return " ; ".join(("write(%r)" % t2s(o[1])) if o[0] == 0 else "flush()" for o in arg[1])
        if op in ("decode.lines", "decode.splitlines"):
            return repr(t2s(arg))
        if op == "decode.nested":
            warm, base, plain, spans = arg
            return "warm=%d Text(%r, style=%r) spans %s" % (warm, t2s(plain), style_def(base[0]) if base else "",
                                                          [(a, b, style_def(st)) for a, b, st in spans])
        if op == "decode.roundtrip":
            return "lines of (text, style) runs printed through a truecolor Console, then AnsiDecoder.decode"
    except Exception:
        pass
    return None
