#!/bin/sh
# usage: tools/t2_selftest.sh <label>  -- needs a worktree: git -C /repo worktree add --detach /tmp/wt_T2 ; edit it; run this.
# Regenerates T2_*.v from /tmp/wt_T2 into a private tree (/tmp/t2coq) and re-checks the bridge lemmas there.
L=$1
rm -rf /tmp/t2coq; mkdir -p /tmp/t2coq/gen /tmp/t2coq/proofs/bridge
flock /verif/coq/build/.lock cp -a /verif/coq/gen/*.v /verif/coq/gen/*.vo /tmp/t2coq/gen/   # under the build lock: other checks rewrite gen/
for f in /verif/coq/proofs/*.vo; do ln -s $f /tmp/t2coq/proofs/; done
cp /verif/coq/proofs/bridge/*.v /tmp/t2coq/proofs/bridge/
/venv/bin/python /verif/tools/translate/run.py --repo /tmp/wt_T2 --out /tmp/t2coq/gen 2>/dev/null | /venv/bin/python -c "
import sys, json
d = json.loads([l for l in sys.stdin if l.startswith('{')][-1])
print('$L: untranslatable', [u for u in d['untranslatable'] if u['file'].startswith('T2')], 'differs_from_baseline', [f for f in d['differs_from_baseline'] if f.startswith('T2')])"
cd /tmp/t2coq
Q="-q -Q /verif/coq/model RichModel -Q gen RichGen -Q proofs RichProofs -w -notation-overridden"
for f in gen/T2_Ratio gen/T2_Cells gen/T2_Measure gen/T2_Span gen/T2_Color gen/T2_Live gen/T2_Segment gen/T2_Progress gen/T2_Style gen/T2_Bar gen/T2_ProgressBar proofs/bridge/BridgeLib proofs/bridge/BridgeRatio proofs/bridge/BridgeCells proofs/bridge/BridgeMeasure proofs/bridge/BridgeSpan proofs/bridge/BridgeColor proofs/bridge/BridgeLive proofs/bridge/BridgeSegment proofs/bridge/BridgeProgress proofs/bridge/BridgeStyle proofs/bridge/BridgeBar proofs/bridge/BridgeProgressBar; do
  if timeout 120 coqc $Q $f.v > /tmp/t2self.log 2>&1; then echo "$L: $f ok"; else echo "$L: $f BROKEN: $(grep -A3 '^File' /tmp/t2self.log | head -4 | tr '\n' ' ' | cut -c1-260)"; fi
done
