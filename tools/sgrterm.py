"""Independent SGR / OSC-8 interpreter -- the Python twin of coq/model/TermSgr.v.

Written from ECMA-48 (8.3.117 SGR) and xterm's ctlseqs, not from rich; it imports nothing of rich.
State: 13 rendition flags, foreground, background, hyperlink.  Output of `run`: for every character
that is not part of a control sequence a cell (char, flagbits, fg, bg, link).  Colours: None =
default, (n,) = palette entry 0..255 (0..7 normal, 8..15 bright), (r, g, b) = direct colour.
See the header of TermSgr.v for the exact conventions (what aborts a sequence, what is skipped).
The two implementations are compared on random escape strings by the correspondence op
`sgr.interp` (tools/corr/l_ansi.py).
"""

ESC, BEL, CSI, OSC, ST = 27, 7, 155, 157, 156

(F_BOLD, F_FAINT, F_ITALIC, F_UNDERLINE, F_BLINK, F_RAPID, F_NEGATIVE, F_CONCEAL, F_CROSSED,
 F_DUNDERLINE, F_FRAMED, F_ENCIRCLED, F_OVERLINED) = range(13)

SGR_SET = {1: F_BOLD, 2: F_FAINT, 3: F_ITALIC, 4: F_UNDERLINE, 5: F_BLINK, 6: F_RAPID, 7: F_NEGATIVE,
           8: F_CONCEAL, 9: F_CROSSED, 21: F_DUNDERLINE, 51: F_FRAMED, 52: F_ENCIRCLED, 53: F_OVERLINED}
SGR_CLEAR = {22: (F_BOLD, F_FAINT), 23: (F_ITALIC,), 24: (F_UNDERLINE, F_DUNDERLINE), 25: (F_BLINK, F_RAPID),
             27: (F_NEGATIVE,), 28: (F_CONCEAL,), 29: (F_CROSSED,), 54: (F_FRAMED, F_ENCIRCLED), 55: (F_OVERLINED,)}


class Term:
    def __init__(self):
        self.flags = 0
        self.fg = None
        self.bg = None
        self.link = None
        self.mode = "ground"
        self.buf = []
        self.cells = []
        self.sgr_params = []
        self.others = 0

    # ---- SGR
    def _sgr1(self, p):
        if p == 0:
            self.flags, self.fg, self.bg = 0, None, None
        elif p in SGR_SET:
            self.flags |= 1 << SGR_SET[p]
        elif p in SGR_CLEAR:
            for i in SGR_CLEAR[p]:
                self.flags &= ~(1 << i)
        elif 30 <= p <= 37:
            self.fg = (p - 30,)
        elif p == 39:
            self.fg = None
        elif 40 <= p <= 47:
            self.bg = (p - 40,)
        elif p == 49:
            self.bg = None
        elif 90 <= p <= 97:
            self.fg = (p - 90 + 8,)
        elif 100 <= p <= 107:
            self.bg = (p - 100 + 8,)

    def _ground_colour(self, p, colour):
        if p == 38:
            self.fg = colour
        else:
            self.bg = colour

    def _apply_sgr(self, ps):
        i = 0
        n = len(ps)
        while i < n:
            p = ps[i]
            if p in (38, 48):
                if i + 1 >= n:
                    return
                sel = ps[i + 1]
                if sel == 5:
                    if i + 2 >= n:
                        return
                    v = ps[i + 2]
                    if 0 <= v <= 255:
                        self._ground_colour(p, (v,))
                    i += 3
                elif sel == 2:
                    if i + 4 >= n:
                        return
                    r, g, b = ps[i + 2:i + 5]
                    if 0 <= r <= 255 and 0 <= g <= 255 and 0 <= b <= 255:
                        self._ground_colour(p, (r, g, b))
                    i += 5
                else:
                    return
            else:
                self._sgr1(p)
                i += 1

    def _csi_dispatch(self, final):
        buf = self.buf
        if final == 109 and all(48 <= c <= 57 or c == 59 for c in buf):
            ps = []
            cur = 0
            for c in buf:
                if c == 59:
                    ps.append(cur)
                    cur = 0
                else:
                    cur = cur * 10 + (c - 48)
            ps.append(cur)
            self._apply_sgr(ps)
            self.sgr_params.extend(ps)
        else:
            self.others += 1

    def _osc_end(self):
        p = self.buf
        self.mode = "ground"
        if p[:2] == [56, 59]:
            rest = p[2:]
            if 59 in rest:
                uri = rest[rest.index(59) + 1:]
                self.link = tuple(uri) if uri else None
        else:
            self.others += 1

    # ---- parser
    def _ground(self, c):
        if c == ESC:
            self.mode = "esc"
        elif c == CSI:
            self.mode, self.buf = "csi", []
        elif c == OSC:
            self.mode, self.buf = "osc", []
        elif c == BEL:
            self.mode = "ground"
            self.others += 1
        else:
            self.mode = "ground"
            self.cells.append((c, self.flags, self.fg, self.bg, self.link))

    def _after_esc(self, c):
        if c == 91:
            self.mode, self.buf = "csi", []
        elif c == 93:
            self.mode, self.buf = "osc", []
        elif c in (80, 88, 94, 95):
            self.mode = "str"
        elif c == ESC:
            self.mode = "esc"
        elif 32 <= c <= 47:
            self.mode = "esci"
        else:
            self.mode = "ground"
            self.others += 1

    def feed(self, c):
        m = self.mode
        if m == "ground":
            self._ground(c)
        elif m == "esc":
            self._after_esc(c)
        elif m == "esci":
            if 32 <= c <= 47:
                pass
            elif 48 <= c <= 126:
                self.mode = "ground"
                self.others += 1
            else:
                self._ground(c)
        elif m == "csi":
            if 32 <= c <= 63:
                self.buf.append(c)
            elif 64 <= c <= 126:
                self.mode = "ground"
                self._csi_dispatch(c)
            else:
                self._ground(c)
        elif m == "osc":
            if c == BEL or c == ST:
                self._osc_end()
            elif c == ESC:
                self.mode = "oscesc"
            else:
                self.buf.append(c)
        elif m == "oscesc":
            if c == 92:
                self._osc_end()
            else:
                self._after_esc(c)
        elif m == "str":
            if c == ST:
                self.mode = "ground"
                self.others += 1
            elif c == ESC:
                self.mode = "stresc"
        elif m == "stresc":
            if c == 92:
                self.mode = "ground"
                self.others += 1
            else:
                self._after_esc(c)

    def run(self, codepoints):
        for c in codepoints:
            self.feed(c)
        return self


def interp(s):
    """str -> list of (char code, flagbits, fg, bg, link-as-str-or-None)"""
    t = Term().run([ord(c) for c in s])
    return [(c, f, fg, bg, None if l is None else "".join(map(chr, l))) for c, f, fg, bg, l in t.cells]
