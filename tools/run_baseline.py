#!/venv/bin/python
"""Run /repo's pinned test suite and compare with /root/.vp/BASELINE.json (stable_pass must all pass)."""
import json, os, subprocess, sys, tempfile, xml.etree.ElementTree as ET
repo = sys.argv[1] if len(sys.argv) > 1 else "/repo"
base = json.load(open("/root/.vp/BASELINE.json"))
fd, xml = tempfile.mkstemp(suffix=".xml"); os.close(fd)
env = dict(os.environ); env.pop("RICH_VERIF", None)
subprocess.run(["/venv/bin/python", "-m", "pytest", "-ra", "-q", "-p", "no:cacheprovider", "--timeout=900",
                "--continue-on-collection-errors", f"--junitxml={xml}"], cwd=repo, stdout=subprocess.DEVNULL,
               stderr=subprocess.DEVNULL, env=env)
passed = set()
for tc in ET.parse(xml).getroot().iter("testcase"):
    if not any(c.tag in ("failure", "error", "skipped") for c in tc):
        passed.add(f"{tc.get('classname')}::{tc.get('name')}")
os.remove(xml)
missing = [t for t in base["stable_pass"] if t not in passed]
print(f"passed={len(passed)} stable_pass={len(base['stable_pass'])} missing={len(missing)}")
for m in missing[:20]:
    print("  MISSING", m)
sys.exit(1 if missing else 0)
