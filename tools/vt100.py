"""Independent terminal interpreter (ECMA-48 subset) used on the implementation side of C10.

Same machine as coq/model/TermGrid.v, written separately with an array representation (the Coq
one is a zipper); the two are compared on random escape strings by the `term` correspondence op.
Conventions (see TermGrid.v): LF also returns to column 0 (tty ONLCR); page of H rows with
unbounded scroll-back; CUU stops at the top of the page; no right margin; width-2 characters fill
a cell plus a continuation cell (-1); width-0 code points occupy no cell.

`width(cp)` is injected by the caller (the harness passes rich-independent widths computed by the
Coq model's table, see l_live.py) -- this file never imports rich.
"""

SP = 32
CONT = -1


class Term:
    def __init__(self, height, width_of):
        self.H = height
        self.rows = [[]]      # every row ever used, scroll-back first
        self.top = 0          # index of the first row of the page
        self.r = 0            # absolute cursor row
        self.c = 0
        self.vis = True
        self.state = "ground"
        self.priv = 0
        self.args = []
        self.cur = None
        self.bad = False
        self.width_of = width_of
        self.min_rel = 0      # diagnostics only

    # ---- helpers
    def _row(self, i):
        while len(self.rows) <= i:
            self.rows.append([])
        return self.rows[i]

    def _put(self, cp):
        w = self.width_of(cp)
        if w == 1:
            cells = [cp]
        elif w == 2:
            cells = [cp, CONT]
        else:
            return
        row = self._row(self.r)
        if len(row) < self.c:
            row.extend([SP] * (self.c - len(row)))
        row[self.c:self.c + len(cells)] = cells
        self.c += len(cells)

    def _lf(self):
        if self.r - self.top + 1 < self.H:
            self.r += 1
        else:
            self.top += 1
            self.r += 1
        self._row(self.r)
        self.c = 0

    def _cuu(self, n):
        self.r = max(self.top, self.r - n)

    def _el(self, mode):
        row = self._row(self.r)
        if mode == 2:
            del row[:]
        elif mode == 0:
            del row[self.c:]
        elif mode == 1:
            n = self.c + 1
            if len(row) < n:
                row.extend([SP] * (n - len(row)))
            row[:n] = [SP] * n

    def _ed2(self):
        # rows of the page that exist; rows not yet created are blank anyway
        for i in range(self.top, min(self.top + self.H, len(self.rows))):
            del self.rows[i][:]

    def _cup(self, r, c):
        r = min(r, self.H - 1)
        self.r = self.top + r
        self._row(self.r)
        self.c = c

    def _dispatch(self, fin):
        params = [p for p in self.args] + [self.cur]
        p1 = params[0]
        if self.priv == 0:
            if fin == 65:
                self._cuu(max(1, 1 if p1 is None else p1))
            elif fin == 75:
                self._el(0 if p1 is None else p1)
            elif fin == 74:
                if (0 if p1 is None else p1) == 2:
                    self._ed2()
            elif fin == 72:
                p2 = params[1] if len(params) > 1 else None
                self._cup(max(1, 1 if p1 is None else p1) - 1, max(1, 1 if p2 is None else p2) - 1)
        elif self.priv == 63:
            if (0 if p1 is None else p1) == 25:
                if fin == 104:
                    self.vis = True
                elif fin == 108:
                    self.vis = False

    def _ground(self, cp):
        if cp >= 32 and not (127 <= cp < 160):
            self._put(cp)
        elif cp == 13:
            self.c = 0
        elif cp == 10:
            self._lf()
        elif cp == 27:
            self.state = "esc"

    def feed_cp(self, cp):
        st = self.state
        if st == "ground":
            self._ground(cp)
        elif st == "esc":
            if cp == 91:
                self.state = "csi"
                self.priv, self.args, self.cur, self.bad = 0, [], None, False
            elif cp == 93:
                self.state = "osc"
            elif 32 <= cp <= 47:
                self.state = "esci"
            elif cp == 27:
                pass
            else:
                self.state = "ground"
        elif st == "esci":
            if 32 <= cp <= 47:
                pass
            elif cp == 27:
                self.state = "esc"
            else:
                self.state = "ground"
        elif st == "csi":
            if 48 <= cp <= 57:
                self.cur = (self.cur or 0) * 10 + (cp - 48)
            elif cp == 59:
                self.args.append(self.cur or 0)
                self.cur = None
            elif 60 <= cp <= 63:
                if not self.args and self.cur is None:
                    if self.priv == 0:
                        self.priv = cp
                    else:
                        self.bad = True
                else:
                    self.bad = True
            elif cp == 58 or 32 <= cp <= 47:
                self.bad = True
            elif 64 <= cp <= 126:
                self.state = "ground"
                if not self.bad:
                    self._dispatch(cp)
            else:
                self.state = "ground"
                self._ground(cp)
        elif st == "osc":
            if cp == 7:
                self.state = "ground"
            elif cp == 27:
                self.state = "oscesc"
        elif st == "oscesc":
            if cp == 92:
                self.state = "ground"
            elif cp == 27:
                pass
            else:
                self.state = "osc"
        self.min_rel = min(self.min_rel, self.r)

    def feed(self, text):
        for ch in text:
            self.feed_cp(ch if isinstance(ch, int) else ord(ch))
        return self

    # ---- observation, in the encoding of DrvLive.ofTerm
    def dump(self):
        """[grid, cursor_row, col, page_row, visible, ground?]"""
        return [[list(r) for r in self.rows], self.r, self.c, self.r - self.top,
                1 if self.vis else 0, 1 if self.state == "ground" else 0]
