CONFIG = {
        "props_file": "props/C13.v",
        "layers": ["cells"],
        "drv_modules": ["DrvCells"],
        "gen_files": ["CellWidthTable.v"],
        "exhaustive": ["all 1,114,112 code points: model bsearch vs implementation vs linear-scan spec"],
        "theorems": {
            "C13_bsearch_is_linear": "full: every sorted non-empty table, every integer code point",
            "C13_cw_spec": "full: today's table (regenerated), widths in {0,1,2}, ASCII shortcut consistent",
            "C13_cell_len_sum": "full", "C13_cache_transparent": "full: any call history and capacity",
            "C13_cache_bounded": "full", "C13_set_cell_size_spec": "full (n >= 0)",
            "C13_chop_cells_spec": "full (width >= 2)", "C13_adjust_line_length_spec": "full (n >= 0)",
            "C13_split_and_crop_asis_refuted": "refutation witness of the pre-fix behaviour (D2)",
            "C13_split_and_crop_lines_spec": "full (repaired code; n >= 0)", "C13_set_shape_spec": "full (width >= 0)",
        },
        "level_text": "Machine-checked Coq theorems, unbounded in strings/tables/histories, about an executable model of rich.cells, LRUCache use and Segment line shaping; the width table is regenerated from /repo each run and the model is compared with the implementation on every code point and on generated strings/segment lists.",
        "level_note": "Trusted: Coq kernel+vm_compute, table translator, ExtrOcamlBasic extraction, OCaml, the harness; functools.lru_cache assumed a pure memo; OrderedDict semantics as modelled (get() does not reorder).",
        "assumptions": ["functools.lru_cache is a pure memo table", "style tokens abstracted to integers (parametric)"],
    }
