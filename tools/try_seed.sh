#!/bin/sh
# usage: tools/try_seed.sh <pid> <dir-with-patch.diff+demo.py>   -> applies to a scratch worktree, runs demo + check
PID=$1; D=$2; WT=/tmp/trywt_$$
git -C /repo worktree add --detach $WT >/dev/null 2>&1 || exit 2
echo "== demo on pristine:"; PYTHONPATH=$WT /venv/bin/python $D/demo.py >/dev/null 2>&1; echo "exit $?"
git -C $WT apply $D/patch.diff || { echo "patch does not apply"; git -C /repo worktree remove --force $WT; exit 2; }
echo "== demo on patched:"; PYTHONPATH=$WT /venv/bin/python $D/demo.py 2>&1 | tail -3; PYTHONPATH=$WT /venv/bin/python $D/demo.py >/dev/null 2>&1; echo "exit $?"
echo "== baseline tests on patched:"; /venv/bin/python /verif/tools/run_baseline.py $WT | head -5
echo "== check on patched:"; cd /verif && VERIF_REPO=$WT ./check $PID 2>&1 | tail -8
git -C /repo worktree remove --force $WT
