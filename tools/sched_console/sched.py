"""Deterministic scheduler for real threads driving one rich Console (C11).

Real threads are serialised by a baton (one semaphore per thread, one for the controller).
Yield points:
  * visible: every acquire/release of Console._lock, Console._record_buffer_lock, Live._lock
    (re-entrant lock proxies swapped in), every file.write, every iteration over / mutation of
    Console._render_hooks (a list subclass swapped in);
  * line: every executed line of rich/console.py, rich/live.py, rich/live_render.py (sys.settrace),
    only in mode "line".
All choices come from one seeded PRNG that only the baton holder touches.  Deadlock = no runnable
thread while some are unfinished.  Nothing in /repo is modified.

mode "vis":  a thread runs from one visible event to just before its next one; `vsched` (list of
             thread ids) directs the choices, a blocked/finished choice is skipped, afterwards the
             lowest runnable thread runs (same semantics as SpecConc.run_vis).
mode "line": at every yield point (line or visible) switch to a random runnable thread with
             probability `pswitch`, drawn from random.Random(seed)."""
import random, sys, threading

LOCK_CODE = {"Live._lock": 0, "Console._lock": 1, "Console._record_buffer_lock": 2}
TRACED = ("rich/console.py", "rich/live.py", "rich/live_render.py")


class Deadlock(Exception):
    pass


class Scheduler:
    def __init__(self, mode="vis", vsched=(), seed=0, pswitch=0.1):
        self.mode = mode
        self.vsched = list(vsched)
        self.rng = random.Random(seed)
        self.pswitch = pswitch
        self.local = threading.local()
        self.sems = []
        self.ctrl = threading.Semaphore(0)
        self.pending = []       # per thread: the event it is parked before
        self.finished = []
        self.errors = []
        self.trace = []         # visible events performed: [tid, code, arg]
        self.locks = []
        self.deadlock = False
        self.yields = 0

    # ---- called from worker threads
    def me(self):
        return getattr(self.local, "tid", None)

    def park(self, ev):
        """stop before event ev until the controller hands over the baton"""
        t = self.me()
        if t is None:
            return
        self.yields += 1
        if self.mode == "line" and self.runnable_ev(t, ev):
            # decide inline: continue without a hand-off unless the PRNG says preempt
            if self.rng.random() >= self.pswitch:
                return
        self.pending[t] = ev
        self.ctrl.release()
        self.sems[t].acquire()
        self.pending[t] = None

    def log(self, code, arg=None):
        t = self.me()
        if t is not None:
            self.trace.append([t, code] + ([] if arg is None else [arg]))

    # ---- controller
    def runnable_ev(self, t, ev):
        if ev and ev[0] == "acq":
            lk = ev[1]
            return lk.owner is None or lk.owner == t
        if ev and ev[0] == "join":          # Thread.join(): blocked until that thread has finished
            return self.finished[ev[1]]
        if ev and ev[0] == "waitdone":      # Event.wait() that can only return once the flag is set
            return ev[1].flag
        return True

    def runnable(self):
        return [t for t in range(len(self.sems)) if not self.finished[t] and self.runnable_ev(t, self.pending[t])]

    def run(self, bodies):
        n = len(bodies)
        self.sems = [threading.Semaphore(0) for _ in range(n)]
        self.pending = [None] * n
        self.finished = [False] * n

        def wrap(t, body):
            self.local.tid = t
            self.sems[t].acquire()      # wait for the first hand-over
            if self.mode == "line":
                sys.settrace(self.global_trace)
            try:
                body()
            except BaseException as e:  # noqa
                self.errors.append([t, type(e).__name__, str(e)[:200]])
            finally:
                sys.settrace(None)
                self.finished[t] = True
                self.ctrl.release()

        threads = [threading.Thread(target=wrap, args=(t, b), daemon=True) for t, b in enumerate(bodies)]
        for th in threads:
            th.start()
        if self.mode == "vis":
            # park every thread before its first visible event (SpecConc.run_vis: initial advance)
            for t in range(n):
                self.sems[t].release()
                self.ctrl.acquire()
        last = None
        steps = 0
        while True:
            steps += 1
            if all(self.finished):
                break
            run = self.runnable()
            if not run or steps > 200000:
                self.deadlock = True
                break
            if self.mode == "vis":
                t = None
                while self.vsched:
                    c = self.vsched.pop(0)
                    if c in run:
                        t = c
                        break
                if t is None:
                    t = run[0]
            else:
                t = self.rng.choice(run)
            last = t
            self.sems[t].release()
            self.ctrl.acquire()
        return not self.deadlock

    # ---- line-level yield points
    def global_trace(self, frame, event, arg):
        fn = frame.f_code.co_filename
        if fn.endswith(TRACED):
            return self.local_trace
        return None

    def local_trace(self, frame, event, arg):
        if event == "line":
            self.park(("line",))
        return self.local_trace


class RLockProxy:
    """re-entrant lock whose operations are yield points; never blocks an OS thread: the
    controller only resumes a thread parked before acquire() when the lock is free or its own"""

    def __init__(self, sched, name):
        self.sched = sched
        self.name = name
        self.owner = None
        self.count = 0

    def acquire(self, blocking=True, timeout=-1):
        t = self.sched.me()
        if t is None:           # set-up code on the main thread, not scheduled
            t = "main"
        else:
            self.sched.park(("acq", self))
        assert self.owner in (None, t), "scheduler resumed a blocked thread"
        self.owner = t
        self.count += 1
        self.sched.log(0, LOCK_CODE[self.name])
        return True

    def release(self):
        t = self.sched.me()
        if t is None:
            t = "main"
        else:
            self.sched.park(("rel", self))
        if self.owner != t:
            raise RuntimeError("cannot release un-acquired lock")
        self.sched.log(1, LOCK_CODE[self.name])
        self.count -= 1
        if self.count == 0:
            self.owner = None

    __enter__ = acquire

    def __exit__(self, *a):
        self.release()


class HookList(list):
    def __init__(self, sched, items=()):
        super().__init__(items)
        self.sched = sched

    def __iter__(self):
        self.sched.park(("hooks_rd",))
        self.sched.log(3)
        return super().__iter__()

    def append(self, x):
        self.sched.park(("hooks_wr",))
        self.sched.log(4)
        super().append(x)

    def pop(self, *a):
        self.sched.park(("hooks_wr",))
        self.sched.log(4)
        return super().pop(*a)


class SchedFile:
    """the console's file: every write() is a yield point and is logged with the calling thread"""
    encoding = "utf-8"

    def __init__(self, sched):
        self.sched = sched
        self.writes = []        # (tid, text) of scheduled threads
        self.all = []           # every text, set-up included

    def write(self, text):
        self.sched.park(("write",))
        t = self.sched.me()
        self.all.append(text)
        if t is not None:
            self.writes.append((t, text))
            self.sched.trace.append([t, 2, text])
        return len(text)

    def flush(self):
        pass

    def isatty(self):
        return True


class SchedEvent:
    """stands in for _RefreshThread.done (threading.Event): set() and wait() are yield points.
    wait() returns the flag at the moment it is scheduled (the timeout has "elapsed"); after
    `max_false` unsuccessful waits it only returns once the flag is set, so runs are finite."""

    def __init__(self, sched, max_false=2):
        self.sched = sched
        self.flag = False
        self.falses = 0
        self.max_false = max_false

    def set(self):
        self.sched.park(("setdone",))
        self.sched.log(5)
        self.flag = True

    def is_set(self):
        return self.flag

    def wait(self, timeout=None):
        if self.falses >= self.max_false:
            self.sched.park(("waitdone", self))
        else:
            self.sched.park(("wait",))
        v = self.flag
        if not v:
            self.falses += 1
        self.sched.log(6, 1 if v else 0)
        return v


def sched_join(sched, target):
    """Thread.join() of the managed thread `target`"""
    def join(timeout=None):
        sched.park(("join", target))
        sched.log(7)
    return join
