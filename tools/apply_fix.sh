#!/bin/sh
# usage: tools/apply_fix.sh <diff> "<fix: commit message>"   -- applies to /repo, runs pinned tests, commits
set -e
D=$1; MSG=$2
cd /repo
test -z "$(git status --porcelain)" || { echo "/repo not clean"; exit 2; }
git apply --whitespace=nowarn "$D" || git apply -3 --whitespace=nowarn "$D"
if /venv/bin/python /verif/tools/run_baseline.py /repo; then
  git add -A && git commit -q -m "$MSG" && git log --oneline | head -1
else
  echo "BASELINE BROKEN -- reverting"; git checkout -- . ; exit 1
fi
