"""Per-property configuration of the check driver: one fragment file tools/props_Cnn.py per
property, each defining CONFIG = {...}."""
import glob, importlib.util, os
HERE = os.path.dirname(os.path.abspath(__file__))
PROPS = {}
for path in sorted(glob.glob(os.path.join(HERE, "props_C*.py"))):
    pid = os.path.basename(path)[6:-3]
    spec = importlib.util.spec_from_file_location("props_" + pid, path)
    mod = importlib.util.module_from_spec(spec)
    spec.loader.exec_module(mod)
    PROPS[pid] = mod.CONFIG
