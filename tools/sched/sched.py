"""Deterministic scheduler for real threads (DESIGN section 9 C11/C12, section 10 "Scheduler
feasibility").  Nothing in /repo is touched: the code under test is driven from outside.

* every worker is a real `threading.Thread`; exactly one of them holds the *baton* at any moment
  (one semaphore per worker plus one for the scheduler), so the execution is a serialisation that
  the scheduler chooses and can reproduce;
* a worker hands the baton back at *yield points*: before every visible event (scripted clock read,
  acquire / release of a `SchedLock`, instrumented attribute access, instrumented container call)
  and, optionally, at every `line` event of `sys.settrace` inside chosen source files;
* `SchedLock` is a re-entrant lock proxy (owner, count); a worker that would block is not runnable;
  no runnable worker while some are unfinished = deadlock (raised);
* all choices come from a policy object: `RandomPolicy(seed)` or `ScriptPolicy([tid, ...])`
  (one entry per visible event); the visible events are logged as (tid, kind) in execution order.
"""
import random, sys, threading

CLOCK, ACQ, REL, RD, WR, APPEND = 0, 1, 2, 3, 4, 5
WAIT = 20.0   # seconds; a baton that does not come back is a harness bug, never a silent hang


class Deadlock(Exception):
    pass


class SchedulerError(Exception):
    pass


class RandomPolicy:
    """uniform choice among the runnable workers at every yield point; `stick` is the probability of
    simply continuing the current worker at a line-level yield (keeps schedules from being pure noise)"""

    def __init__(self, seed, stick=0.5):
        self.rng = random.Random(seed)
        self.stick = stick

    def choose(self, runnable, current, kind):
        if kind == "line" and current in runnable and self.rng.random() < self.stick:
            return current
        return self.rng.choice(runnable)


class ScriptPolicy:
    """one entry per visible event: which worker performs the next visible event.  Line-level yields
    continue the current worker.  Exhausted script or entry not runnable: lowest runnable id."""

    def __init__(self, script):
        self.script = list(script)
        self.i = 0

    def choose(self, runnable, current, kind):
        if kind == "line" and current in runnable:
            return current
        while self.i < len(self.script):
            t = self.script[self.i]
            if t in runnable:
                return t
            self.i += 1          # entry names a finished / blocked worker: skip it
        return runnable[0]

    def consumed(self, tid):
        if self.i < len(self.script) and self.script[self.i] == tid:
            self.i += 1


class Scheduler:
    def __init__(self, policy, trace_files=()):
        self.policy = policy
        self.trace_files = tuple(trace_files)
        self.log = []                 # (tid, kind)
        self.yields = 0
        self._sem = []
        self._main = threading.Semaphore(0)
        self._ident = {}
        self._done = []
        self._blocked = {}            # tid -> SchedLock it waits for
        self._errors = []
        self._current = None

    # ------------------------------------------------------------------ worker side
    def tid(self):
        return self._ident.get(threading.get_ident())

    def event(self, kind):
        """called by instrumentation right after a visible event has been performed"""
        t = self.tid()
        if t is not None:
            self.log.append((t, kind))
            if hasattr(self.policy, "consumed"):
                self.policy.consumed(t)

    def yield_point(self, kind="vis"):
        t = self.tid()
        if t is None:
            return
        self.yields += 1
        self._pending_kind = kind
        self._main.release()
        if not self._sem[t].acquire(timeout=WAIT):
            raise SchedulerError("baton lost")

    def _tracer(self, frame, event, arg):
        if frame.f_code.co_filename.endswith(self.trace_files):
            return self._line
        return None

    def _line(self, frame, event, arg):
        if event == "line":
            self.yield_point("line")
        return self._line

    def _worker(self, t, fn):
        self._ident[threading.get_ident()] = t
        if not self._sem[t].acquire(timeout=WAIT):
            return
        try:
            if self.trace_files:
                sys.settrace(self._tracer)
            fn()
        except BaseException as e:    # noqa
            self._errors.append((t, e))
        finally:
            sys.settrace(None)
            self._done[t] = True
            self._main.release()

    # ------------------------------------------------------------------ scheduler side
    def runnable(self):
        out = []
        for t in range(len(self._sem)):
            if self._done[t]:
                continue
            lk = self._blocked.get(t)
            if lk is not None and lk.owner not in (None, t):
                continue
            out.append(t)
        return out

    def run(self, fns):
        n = len(fns)
        self._sem = [threading.Semaphore(0) for _ in range(n)]
        self._done = [False] * n
        threads = [threading.Thread(target=self._worker, args=(t, fn), daemon=True) for t, fn in enumerate(fns)]
        for th in threads:
            th.start()
        kind = "vis"
        while True:
            r = self.runnable()
            if not r:
                if all(self._done):
                    break
                raise Deadlock(f"no runnable worker; blocked: {sorted(self._blocked)}")
            t = self.policy.choose(r, self._current, kind)
            self._current = t
            self._sem[t].release()
            if not self._main.acquire(timeout=WAIT):
                raise SchedulerError("worker did not come back")
            kind = getattr(self, "_pending_kind", "vis")
        for th in threads:
            th.join(timeout=WAIT)
        if self._errors:
            raise self._errors[0][1]
        return self.log


class SchedLock:
    """re-entrant lock proxy to be swapped in for an `RLock` attribute"""

    def __init__(self, sched, log=True):
        self.sched = sched
        self.owner = None
        self.count = 0
        self.log = log

    def acquire(self, blocking=True, timeout=-1):
        s = self.sched
        t = s.tid()
        if t is None:                       # not a worker (set-up code on the main thread)
            self.count += 1
            return True
        if self.owner == t:
            self.count += 1
            return True
        s.yield_point()
        while self.owner is not None:
            s._blocked[t] = self
            s.yield_point()
        s._blocked.pop(t, None)
        self.owner = t
        self.count = 1
        if self.log:
            s.event(ACQ)
        return True

    def release(self):
        s = self.sched
        t = s.tid()
        if t is None:
            self.count -= 1
            return
        if self.owner != t:
            raise RuntimeError("release of a lock that is not held")
        if self.count > 1:
            self.count -= 1
            return
        s.yield_point()
        self.count = 0
        self.owner = None
        if self.log:
            s.event(REL)

    __enter__ = acquire

    def __exit__(self, *a):
        self.release()


class TickClock:
    """scripted clock: successive reads return 0, 1, 2, ...; a read is a visible event"""

    def __init__(self, sched):
        self.sched = sched
        self.next = 0

    def __call__(self):
        self.sched.yield_point()
        v = self.next
        self.next += 1
        self.sched.event(CLOCK)
        return v
