#!/venv/bin/python
"""Regenerate MANIFEST.json from tools/props.py (claimed properties) + the fixed property list."""
import json, os, sys
HERE = os.path.dirname(os.path.abspath(__file__))
sys.path.insert(0, HERE)
from props import PROPS
VERIF = os.path.dirname(HERE)
ids = [json.loads(l)["id"] for l in open(os.path.join(VERIF, "properties.jsonl"))]
REG = set(open(os.path.join(HERE, "registered.txt")).read().split())
checks = []
na = []
for pid in ids:
    cfg = PROPS.get(pid)
    if not cfg or cfg.get("disabled") or pid not in REG:
        na.append({"property_id": pid, "reason": (cfg or {}).get("na_reason", "not claimed yet: its model, theorems and correspondence are not built at this commit (technique applies; see DESIGN.md section 9)")})
        continue
    checks.append({
        "property_id": pid,
        "quick_cmd": f"./check {pid} --tier quick",
        "thorough_cmd": f"./check {pid} --tier thorough",
        "evidence_file": f"/verif/evidence/{pid}.json",
        "replay_cmd_template": f"./check {pid} --replay {{path}}",
        "engine": "coq-proof+correspondence",
        "level_claimed": {"category": "proof", "text": cfg["level_text"], "design_ref": cfg.get("design_ref", "DESIGN.md section 9, " + pid)},
        "level_note": cfg["level_note"],
        "technique": cfg.get("technique", "Coq 8.16 theorems over an executable Gallina model; model tied to /repo by AST-regenerated tables/facts and by differential correspondence of the extracted model against the implementation"),
    })
m = {
    "version": 1,
    "setup_cmd": "./check --setup",
    "hooks": {"guard": "RICH_VERIF", "enable": "no hooks are installed in /repo: the harness drives rich from outside (PYTHONPATH=/repo)", 
              "baseline_off_cmd": "cd /repo && /venv/bin/python -m pytest -ra -q -p no:cacheprovider --timeout=900 --continue-on-collection-errors",
              "source_commits": [], "add_only": True},
    "engines": [
        {"name": "coq-proof+correspondence", "path": "/verif/check", "serves_properties": [c["property_id"] for c in checks],
         "kind_free_text": "Coq 8.16.1 project under /verif/coq (model/, proofs/, props/, gen/ regenerated from /repo by tools/translate), extracted with ExtrOcamlBasic to an OCaml driver that the correspondence harness (tools/corr) runs against /repo's rich on generated inputs; spec-level boolean checkers from the theorem statements are also evaluated on the implementation's outputs"},
    ],
    "checks": checks,
    "not_applicable": na,
    "notes": "See DESIGN.md. fix: commits in /repo are recorded in known_findings.json.",
}
json.dump(m, open(os.path.join(VERIF, "MANIFEST.json"), "w"), indent=1)
print("claimed", [c["property_id"] for c in checks])
