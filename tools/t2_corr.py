"""T2 translator validation outside any property check: builds a driver from model/DrvT2.v (coq/build/T2x) and runs
layer t2 (generated functions vs rich).  usage: [VERIF_REPO=dir] tools/t2_corr.py [quick|thorough]"""
import sys, os, random, json, time
sys.path.insert(0, "/verif/tools")
import checklib, common
from props import PROPS
PROPS["T2x"] = {"drv_modules": ["DrvT2"]}
tier = sys.argv[1] if len(sys.argv) > 1 else "quick"
repo = os.environ.get("VERIF_REPO", "/repo")
with checklib.Lock():
    checklib.ensure_makefile()
    ok, log = checklib.build_driver("T2x")
print("driver", ok)
if not ok:
    print(log[-3000:]); sys.exit(1)
common.DRV = checklib.drv_path("T2x")
common.REPO = repo
layer = common.load_layer("t2")
t0 = time.time()
cases = layer.generate(random.Random("0:T2:t2"), tier)
r = common.compare("t2", cases, repo=repo)
print("cases", r.cases, "distinct", r.distinct, "disagreements", len(r.disagreements), "impl_exc", r.impl_errors, round(time.time() - t0, 1), "s")
print(json.dumps(r.by_op))
seen = set()
for d in r.disagreements:
    if d["op"] in seen: continue
    seen.add(d["op"])
    print(json.dumps(d)[:600])
