"""C10 translator: control strings of live_render.py / console.show_cursor (T1/T2) and the
statement order of Live.start/stop, Progress.start/stop (T3) -> coq/gen/LiveCodes.v.
Fail closed: any statement or expression shape not listed here raises Untranslatable."""
import ast, sys

# run.py is normally executed as __main__: register with *that* module's GENERATORS, not a second copy
_m = sys.modules.get("__main__")
_run = _m if hasattr(_m, "GENERATORS") and hasattr(_m, "generator") else __import__("run")
generator, parse, find_class, find_func = _run.generator, _run.parse, _run.find_class, _run.find_func
Untranslatable, HEADER, strlit, zlit = _run.Untranslatable, _run.HEADER, _run.strlit, _run.zlit


def _const_str(node, what):
    if isinstance(node, ast.Constant) and isinstance(node.value, str):
        return node.value
    raise Untranslatable(f"{what}: expected a string constant, got {ast.dump(node)[:60]}")


# ------------------------------------------------------------------ normalisation before matching
# Behaviour-preserving rewrites must not break the tie: every pinned method is first brought to a
# canonical form -- (a) local aliases of attributes the method never assigns (`console = self.console`,
# `_Segment = Segment`) are inlined; (b) `if not c: A else: B`, `if x is not None: A else: B`,
# `if a != b: A else: B` become the positive test with the branches swapped; (c) in position_cursor /
# restore_cursor the guard-clause form `if self._shape is None: return Control(NONE)` + rest is accepted.
# (d) calls of private single-definition helpers of the same class are inlined (_inline_helpers).
# NOT normalised (fail closed): wrapping the body of start()/stop() in `if started:` instead of the early
# return (statements after the block would change meaning), try/finally rewritten as a context manager.
class _SwapIfs(ast.NodeTransformer):
    def visit_If(self, node):
        self.generic_visit(node)
        if node.orelse:
            t = node.test
            if isinstance(t, ast.UnaryOp) and isinstance(t.op, ast.Not):
                node.test, node.body, node.orelse = t.operand, node.orelse, node.body
            elif isinstance(t, ast.Compare) and len(t.ops) == 1 and isinstance(t.ops[0], (ast.IsNot, ast.NotEq)):
                t.ops = [ast.Is() if isinstance(t.ops[0], ast.IsNot) else ast.Eq()]
                node.body, node.orelse = node.orelse, node.body
        return node


def _self_attr_root(node):
    """`self.a.b` -> 'a' ; anything else -> None"""
    chain = []
    while isinstance(node, ast.Attribute):
        chain.append(node.attr)
        node = node.value
    if isinstance(node, ast.Name) and node.id == "self" and chain:
        return chain[-1]
    return None


# private helpers that ARE part of the matched vocabulary (their call is an event of its own)
_VOCAB_HELPERS = {"_enable_redirect_io", "_disable_redirect_io"}


def _inline_helpers(fn, cls, depth=0):
    """(d) a statement `self._helper()` -- private method of the same class, defined once, only `self` as
    parameter, no decorator, no `return value`, no yield, not recursive -- is replaced by the helper's
    body, so that extracting a block into a helper (or inlining one) is invisible to the facts"""
    import copy
    if cls is None or depth > 3:
        return fn
    defs = {}
    for n in cls.body:
        if isinstance(n, ast.FunctionDef):
            defs.setdefault(n.name, []).append(n)

    def helper_body(call_stmt):
        if not (isinstance(call_stmt, ast.Expr) and isinstance(call_stmt.value, ast.Call)):
            return None
        c = call_stmt.value
        f = c.func
        if not (isinstance(f, ast.Attribute) and isinstance(f.value, ast.Name) and f.value.id == "self"
                and not c.args and not c.keywords):
            return None
        name = f.attr
        if not name.startswith("_") or name.startswith("__") or name in _VOCAB_HELPERS or name == fn.name:
            return None
        if len(defs.get(name, [])) != 1:
            return None
        h = defs[name][0]
        if h.decorator_list or len(h.args.args) != 1 or h.args.vararg or h.args.kwarg or h.args.kwonlyargs:
            return None
        for x in ast.walk(h):
            if isinstance(x, (ast.Yield, ast.YieldFrom)) or (isinstance(x, ast.Return) and x.value is not None):
                return None
            if isinstance(x, ast.Attribute) and x.attr == name and isinstance(x.value, ast.Name) and x.value.id == "self":
                return None      # recursive
            if isinstance(x, ast.Return):
                return None      # an early return would not mean the same once inlined
        h = _inline_helpers(copy.deepcopy(h), cls, depth + 1)
        return [st for st in h.body if not (isinstance(st, ast.Expr) and isinstance(st.value, ast.Constant))]

    class Inl(ast.NodeTransformer):
        def _block(self, stmts):
            out = []
            for st in stmts:
                hb = helper_body(st)
                if hb is not None:
                    out += hb
                else:
                    out.append(self.visit(st))
            return out

        def generic_visit(self, node):
            for field in ("body", "orelse", "finalbody"):
                v = getattr(node, field, None)
                if isinstance(v, list) and v and isinstance(v[0], ast.stmt):
                    setattr(node, field, self._block(v))
            if isinstance(node, ast.Try):
                for h in node.handlers:
                    h.body = self._block(h.body)
            return node

    return Inl().visit(fn)


def _prep(fn, cls=None):
    """canonical copy of a FunctionDef (see above)"""
    import copy
    fn = copy.deepcopy(fn)
    fn = _inline_helpers(fn, cls)
    assigned_attrs, name_count = set(), {}
    for n in ast.walk(fn):
        targets = []
        if isinstance(n, ast.Assign):
            targets = n.targets
        elif isinstance(n, (ast.AugAssign, ast.AnnAssign)):
            targets = [n.target]
        elif isinstance(n, (ast.For, ast.With)):
            targets = [n.target] if isinstance(n, ast.For) else [i.optional_vars for i in n.items if i.optional_vars]
        for t in targets:
            for x in ast.walk(t):
                if isinstance(x, ast.Attribute) and _self_attr_root(x):
                    assigned_attrs.add(_self_attr_root(x))
                if isinstance(x, ast.Name):
                    name_count[x.id] = name_count.get(x.id, 0) + 1
    params = {a.arg for a in fn.args.args + fn.args.kwonlyargs}
    aliases = {}
    for n in ast.walk(fn):
        if isinstance(n, ast.Assign) and len(n.targets) == 1 and isinstance(n.targets[0], ast.Name):
            nm, v = n.targets[0].id, n.value
            if name_count.get(nm) != 1 or nm in params:
                continue
            root = _self_attr_root(v)
            if (root and root not in assigned_attrs) or (isinstance(v, ast.Name) and v.id[:1].isupper()):
                aliases[nm] = v

    class Inline(ast.NodeTransformer):
        def visit_Assign(self, node):
            if len(node.targets) == 1 and isinstance(node.targets[0], ast.Name) and node.targets[0].id in aliases:
                return None
            return self.generic_visit(node)

        def visit_Name(self, node):
            if isinstance(node.ctx, ast.Load) and node.id in aliases:
                return copy.deepcopy(aliases[node.id])
            return node

    fn = Inline().visit(fn)
    fn = _SwapIfs().visit(fn)
    ast.fix_missing_locations(fn)
    return fn


def _cursor_fn(cls, name):
    """`if self._shape is not None: _, height = self._shape; return Control(HEAD + UNIT * (height+off))`
    `return Control("")`  ->  (head, unit, off, none)"""
    fn = _prep(find_func(cls.body, name), cls)
    body = [s for s in fn.body if not (isinstance(s, ast.Expr) and isinstance(s.value, ast.Constant))]
    # guard-clause form: `if self._shape is None: return Control(NONE)` + rest  ==  `if ... is not None: rest` + return
    if (len(body) >= 2 and isinstance(body[0], ast.If) and not body[0].orelse and len(body[0].body) == 1
            and isinstance(body[0].body[0], ast.Return) and isinstance(body[0].test, ast.Compare)
            and isinstance(body[0].test.ops[0], ast.Is) and isinstance(body[-1], ast.Return) and len(body) > 2):
        t = body[0].test
        t.ops = [ast.IsNot()]
        body = [ast.If(test=t, body=body[1:], orelse=[]), body[0].body[0]]
    if len(body) != 2 or not isinstance(body[0], ast.If) or not isinstance(body[1], ast.Return):
        raise Untranslatable(f"{name}: unexpected statement shape")
    test = body[0].test
    ok = (isinstance(test, ast.Compare) and len(test.ops) == 1 and isinstance(test.ops[0], ast.IsNot)
          and ast.dump(test.left) == ast.dump(ast.parse("self._shape", mode="eval").body)
          and isinstance(test.comparators[0], ast.Constant) and test.comparators[0].value is None)
    if not ok or body[0].orelse:
        raise Untranslatable(f"{name}: guard is not `self._shape is not None`")
    inner = body[0].body
    if len(inner) != 2 or not isinstance(inner[0], ast.Assign) or not isinstance(inner[1], ast.Return):
        raise Untranslatable(f"{name}: unexpected guarded body")
    tgt = inner[0].targets[0]
    if not (isinstance(tgt, ast.Tuple) and len(tgt.elts) == 2 and isinstance(tgt.elts[1], ast.Name)
            and ast.dump(inner[0].value) == ast.dump(ast.parse("self._shape", mode="eval").body)):
        raise Untranslatable(f"{name}: height is not the second component of self._shape")
    hname = tgt.elts[1].id

    def ctl_arg(ret):
        v = ret.value
        if not (isinstance(v, ast.Call) and isinstance(v.func, ast.Name) and v.func.id == "Control"
                and len(v.args) == 1 and not v.keywords):
            raise Untranslatable(f"{name}: return value is not Control(<expr>)")
        return v.args[0]

    def count(node):
        if isinstance(node, ast.Name) and node.id == hname:
            return 0
        if (isinstance(node, ast.BinOp) and isinstance(node.op, (ast.Sub, ast.Add)) and isinstance(node.left, ast.Name)
                and node.left.id == hname and isinstance(node.right, ast.Constant) and isinstance(node.right.value, int)):
            return -node.right.value if isinstance(node.op, ast.Sub) else node.right.value
        raise Untranslatable(f"{name}: repeat count is not height +/- constant")

    e = ctl_arg(inner[1])
    if isinstance(e, ast.BinOp) and isinstance(e.op, ast.Add) and isinstance(e.right, ast.BinOp) and isinstance(e.right.op, ast.Mult):
        head = _const_str(e.left, name + " head")
        unit = _const_str(e.right.left, name + " unit")
        off = count(e.right.right)
    elif isinstance(e, ast.BinOp) and isinstance(e.op, ast.Mult):
        head, unit, off = "", _const_str(e.left, name + " unit"), count(e.right)
    else:
        raise Untranslatable(f"{name}: control string is not HEAD + UNIT * count")
    none = _const_str(ctl_arg(body[1]), name + " fallback")
    return head, unit, off, none


# ---- T3: statement order of start()/stop()
EV = {"show_cursor(False)": 1, "enable": 2, "push": 3, "started=True": 4, "refresh": 5, "line": 6,
      "visible": 7, "visible_unless_transient": 8, "restore_if_transient": 9,
      "show_cursor(True)": 11, "disable": 12, "pop": 13, "started=False": 14, "shape=None": 15,
      "save_overflow": 16, "restore_overflow": 17,
      "try": 20, "finally": 21, "except_all": 22, "end_try": 23, "reraise": 24, "except_exception": 25,
      "guard_started": 30, "guard_not_started": 31}


def _src(node):
    return ast.unparse(node)


def _events(stmts, fn):
    out = []
    for s in stmts:
        if isinstance(s, ast.Expr) and isinstance(s.value, ast.Constant):
            continue  # docstring / comment string
        text = _src(s)
        if isinstance(s, ast.With):
            if all(_src(i.context_expr) in ("self._lock", "self.console") for i in s.items):
                out += _events(s.body, fn)
                continue
            raise Untranslatable(f"{fn}: with {text[:40]}")
        if isinstance(s, ast.If):
            t = _src(s.test)
            if "_refresh_thread" in t or "auto_refresh" in t or "ipy_widget" in t:
                continue  # refresh thread and Jupyter widget: outside C10 (C11 / not modelled)
            if t == "self._started" and text.endswith("return") and len(s.body) == 1:
                out.append(EV["guard_started"]); continue
            if t == "not self._started" and len(s.body) == 1 and isinstance(s.body[0], ast.Return):
                out.append(EV["guard_not_started"]); continue
            if t in ("not self.console.is_jupyter", "self.console.is_terminal") and not s.orelse:
                out += _events(s.body, fn); continue
            if t == "self.transient" and not s.orelse and len(s.body) == 1 and \
                    _src(s.body[0]) == "self.console.control(self._live_render.restore_cursor())":
                out.append(EV["restore_if_transient"]); continue
            if t == "not self.transient" and not s.orelse and len(s.body) == 1 and \
                    _src(s.body[0]) == "self.vertical_overflow = 'visible'":
                out.append(EV["visible_unless_transient"]); continue
            raise Untranslatable(f"{fn}: if {t[:50]}")
        if isinstance(s, ast.Try):
            out.append(EV["try"])
            out += _events(s.body, fn)
            if s.orelse:
                raise Untranslatable(f"{fn}: try/else")
            for h in s.handlers:
                if h.type is not None and _src(h.type) not in ("BaseException", "Exception"):
                    raise Untranslatable(f"{fn}: except {_src(h.type)}")
                # `except:` / `except BaseException:` catch everything; `except Exception:` lets
                # KeyboardInterrupt, SystemExit, GeneratorExit through
                out.append(EV["except_all"] if h.type is None or _src(h.type) == "BaseException" else EV["except_exception"])
                out += _events(h.body, fn)
            if s.finalbody:
                out.append(EV["finally"])
                out += _events(s.finalbody, fn)
            out.append(EV["end_try"])
            continue
        if isinstance(s, ast.Raise) and s.exc is None:
            out.append(EV["reraise"]); continue
        table = {
            "self.console.show_cursor(False)": "show_cursor(False)", "self.console.show_cursor(True)": "show_cursor(True)",
            "self._enable_redirect_io()": "enable", "self._disable_redirect_io()": "disable",
            "self.console.push_render_hook(self)": "push", "self.console.pop_render_hook()": "pop",
            "self._started = True": "started=True", "self._started = False": "started=False",
            "self.refresh()": "refresh", "self.console.line()": "line",
            "self.vertical_overflow = 'visible'": "visible",
            "self._live_render._shape = None": "shape=None",
            "vertical_overflow = self.vertical_overflow": "save_overflow",
            "self.vertical_overflow = vertical_overflow": "restore_overflow",
        }
        if text in table:
            out.append(EV[table[text]]); continue
        raise Untranslatable(f"{fn}: statement `{text[:60]}`")
    return out


def _guarded(events):
    """is the refresh of start() inside a try whose handler/finally pops the hook, restores io and cursor?"""
    if EV["refresh"] not in events:
        return True
    i = events.index(EV["refresh"])
    depth_try = [k for k in range(i) if events[k] == EV["try"]]
    if not depth_try or EV["end_try"] in events[depth_try[-1]:i]:
        return False
    tail = events[i:]
    if EV["end_try"] not in tail:
        return False
    handler = tail[:tail.index(EV["end_try"])]
    cut = [k for k, e in enumerate(handler) if e in (EV["finally"], EV["except_all"], EV["except_exception"])]
    if not cut:
        return False
    h = handler[cut[0]:]
    need = {EV["pop"], EV["disable"], EV["show_cursor(True)"]}
    if not need.issubset(h):
        return False
    return EV["finally"] in h or EV["reraise"] in h


def _catches_base(events):
    """does the cleanup around the refresh of start() also run for exceptions that are not Exception
    subclasses?  (a `finally`, a bare `except:` or `except BaseException:` -- not `except Exception:`)"""
    if EV["refresh"] not in events:
        return True
    tail = events[events.index(EV["refresh"]):]
    if EV["end_try"] not in tail:
        return False
    handler = tail[:tail.index(EV["end_try"])]
    need = {EV["pop"], EV["disable"], EV["show_cursor(True)"]}
    for code in (EV["finally"], EV["except_all"]):
        if code in handler:
            h = handler[handler.index(code):]
            nxt = [k for k, e in enumerate(h[1:], 1) if e in (EV["finally"], EV["except_all"], EV["except_exception"])]
            h = h[:nxt[0]] if nxt else h
            if need.issubset(h):
                return True
    return False


def _restores_overflow(events):
    """-> (restored, in_finally): is the overflow mode saved before the last refresh of stop() and put
    back after it -- and does that also happen when the refresh raises (the restore sits in the
    `finally` of a try that contains the refresh)?"""
    if EV["save_overflow"] not in events or EV["restore_overflow"] not in events or EV["refresh"] not in events:
        return False, False
    i, j, k = events.index(EV["save_overflow"]), events.index(EV["refresh"]), events.index(EV["restore_overflow"])
    if not (i < j < k):
        return False, False
    # innermost try enclosing the refresh
    depth, opens = 0, []
    for pos in range(j):
        if events[pos] == EV["try"]:
            opens.append(pos)
        elif events[pos] == EV["end_try"] and opens:
            opens.pop()
    in_finally = False
    if opens:
        # walk forward from the refresh to the end of that try: restore must come after its `finally` marker
        level = 0
        seen_finally = False
        for pos in range(j + 1, len(events)):
            e = events[pos]
            if e == EV["try"]:
                level += 1
            elif e == EV["end_try"]:
                if level == 0:
                    break
                level -= 1
            elif level == 0 and e == EV["finally"]:
                seen_finally = True
            elif level == 0 and e == EV["restore_overflow"]:
                in_finally = seen_finally
                break
    return True, in_finally


def _final_room(lr_cls):
    """_LiveRender.__rich_console__: which height is a frame cropped to?  False: console.size.height;
    True: one row less for the last frame of a transient display (not started any more)."""
    fn = _prep(find_func(lr_cls.body, "__rich_console__"), lr_cls)
    withs = [s for s in fn.body if isinstance(s, ast.With)]
    if len(withs) != 1 or _src(withs[0].items[0].context_expr) != "self._live._lock":
        raise Untranslatable("_LiveRender.__rich_console__: no `with self._live._lock`")
    body = withs[0].body
    idx = [i for i, s in enumerate(body) if isinstance(s, ast.If) and _src(s.test).startswith("height > ")]
    if len(idx) != 1:
        raise Untranslatable("_LiveRender.__rich_console__: no single `if height > ...`")
    node = body[idx[0]]
    bound = _src(node.test)[len("height > "):]
    if not (len(node.body) == 1 and isinstance(node.body[0], ast.If) and not node.orelse):
        raise Untranslatable("_LiveRender.__rich_console__: overflow branches")
    crop = node.body[0]
    if _src(crop.test) != "self._live.vertical_overflow == 'crop'" or len(crop.orelse) != 1 or \
            not isinstance(crop.orelse[0], ast.If) or _src(crop.orelse[0].test) != "self._live.vertical_overflow == 'ellipsis'" \
            or crop.orelse[0].orelse:
        raise Untranslatable("_LiveRender.__rich_console__: crop / ellipsis tests")
    crop_src, ell_src = _src(crop.body[0]), _src(crop.orelse[0].body[0])
    before = [_src(s) for s in body[:idx[0]]]
    if bound == "console.size.height":
        if crop_src != "lines = lines[:console.size.height]" or ell_src != "lines = lines[:console.size.height - 1]":
            raise Untranslatable("_LiveRender.__rich_console__: slices (as-is shape)")
        if any("max_height" in b for b in before):
            raise Untranslatable("_LiveRender.__rich_console__: stray max_height")
        return False
    if bound == "max_height":
        want = ["max_height = console.size.height",
                "if self._live.transient and (not self._live._started):\n    max_height = max(max_height - 1, 0)"]
        if before[-2:] != want:
            raise Untranslatable("_LiveRender.__rich_console__: max_height is not computed as expected")
        if crop_src != "lines = lines[:max_height]" or ell_src != "lines = lines[:max(max_height - 1, 0)]":
            raise Untranslatable("_LiveRender.__rich_console__: slices (max_height shape)")
        return True
    raise Untranslatable(f"_LiveRender.__rich_console__: bound `{bound}`")


_LR_BODY_ASIS = [     # canonical form (see _prep): `_Segment` inlined, positive `is None` test first
    "style = console.get_style(self.style)",
    "lines = console.render_lines(self.renderable, options, style=style, pad=False)",
    "shape = Segment.get_shape(lines)",
    "if self._shape is None:\n    self._shape = shape\nelse:\n    width1, height1 = shape\n    width2, height2 = self._shape\n"
    "    self._shape = (max(width1, min(options.max_width, width2)), max(height1, height2))",
    "width, height = self._shape",
    "lines = Segment.set_shape(lines, width, height)",
    "for last, line in loop_last(lines):\n    yield from Segment.make_control(line)\n    if not last:\n"
    "        yield Segment.line(is_control=True)",
]


def _lr_crops(cls):
    """LiveRender.__rich_console__ is pinned statement by statement (the model of the growing shape was
    written for exactly this body); the only known variant crops the lines to the page height first"""
    fn = _prep(find_func(cls.body, "__rich_console__"), cls)
    body = [_src(st) for st in fn.body if not (isinstance(st, ast.Expr) and isinstance(st.value, ast.Constant))]
    if body == _LR_BODY_ASIS:
        return False
    fixed = _LR_BODY_ASIS[:2] + ["lines = lines[:console.size.height]"] + _LR_BODY_ASIS[2:]
    if body == fixed:
        return True
    for i, (a, b) in enumerate(zip(body, fixed)):
        if a != b:
            raise Untranslatable(f"LiveRender.__rich_console__: statement {i} is `{a[:60]}`")
    raise Untranslatable("LiveRender.__rich_console__: unexpected number of statements")


def _status_facts(repo, live_cls):
    """rich/status.py: Status is a thin wrapper; pin exactly what the model assumes about it"""
    tree, _ = parse(repo, "rich/status.py")
    st = find_class(tree, "Status")

    def body(name):
        fn = _prep(find_func(st.body, name), st)
        return [_src(x) for x in fn.body if not (isinstance(x, ast.Expr) and isinstance(x.value, ast.Constant))]

    init = find_func(st.body, "__init__")
    live_calls = [n for n in ast.walk(init) if isinstance(n, ast.Call) and _src(n.func) == "Live"]
    if len(live_calls) != 1:
        raise Untranslatable("Status.__init__: expected exactly one Live(...) call")
    kw = {k.arg: k.value for k in live_calls[0].keywords}
    if None in kw:
        raise Untranslatable("Status.__init__: Live(**kwargs)")
    if len(live_calls[0].args) != 1 or _src(live_calls[0].args[0]) != "self.renderable":
        raise Untranslatable("Status.__init__: Live's renderable is not self.renderable")
    transient = "transient" in kw and isinstance(kw["transient"], ast.Constant) and kw["transient"].value is True
    if "transient" in kw and not isinstance(kw["transient"], ast.Constant):
        raise Untranslatable("Status.__init__: transient is not a constant")
    # overflow mode: the keyword if given, else the default of Live.__init__
    linit = find_func(live_cls.body, "__init__")
    names = [a.arg for a in linit.args.kwonlyargs]
    if "vertical_overflow" not in names:
        raise Untranslatable("Live.__init__: no keyword-only vertical_overflow")
    default = linit.args.kw_defaults[names.index("vertical_overflow")]
    node = kw.get("vertical_overflow", default)
    mode = _const_str(node, "vertical_overflow")
    if mode not in ("crop", "ellipsis", "visible"):
        raise Untranslatable(f"vertical_overflow {mode!r}")
    upd = body("update")
    refreshes = bool(upd) and upd[-1] == "self._live.update(self.renderable, refresh=True)"
    delegates = body("start") == ["self._live.start()"] and body("stop") == ["self._live.stop()"] \
        and body("__enter__") == ["self.start()", "return self"] and body("__exit__") == ["self.stop()"]
    grid = body("renderable") == ["table = Table.grid(padding=1)", "table.add_row(self._spinner, self.status)", "return table"]
    return transient, ["crop", "ellipsis", "visible"].index(mode), refreshes, delegates, grid


def _hooks_applied(repo):
    """Console.print and Console.log both pass their renderables through every render hook, in the
    same way, before rendering (this is what makes `log` a `print` of other lines for C10)"""
    tree, _ = parse(repo, "rich/console.py")
    cls = find_class(tree, "Console")
    want = "for hook in self._render_hooks:\n    renderables = hook.process_renderables(renderables)"
    res = []
    for name in ("print", "log"):
        fn = find_func(cls.body, name)
        loops = [n for n in ast.walk(fn) if isinstance(n, ast.For) and "_render_hooks" in _src(n.iter)]
        res.append(len(loops) == 1 and _src(loops[0]) == want)
    return res


def _show_cursor(repo):
    tree, _ = parse(repo, "rich/console.py")
    fn = _prep(find_func(find_class(tree, "Console").body, "show_cursor"))
    body = [s for s in fn.body if not (isinstance(s, ast.Expr) and isinstance(s.value, ast.Constant))]
    if len(body) != 1 or not isinstance(body[0], ast.If) or _src(body[0].test) != "self.is_terminal and (not self.legacy_windows)":
        raise Untranslatable("show_cursor: guard is not `is_terminal and not legacy_windows`")
    inner = body[0].body
    if len(inner) != 1 or not isinstance(inner[0], ast.Expr):
        raise Untranslatable("show_cursor: body")
    call = inner[0].value
    if not (isinstance(call, ast.Call) and _src(call.func) == "self.control" and len(call.args) == 1
            and isinstance(call.args[0], ast.IfExp) and _src(call.args[0].test) == "show"):
        raise Untranslatable("show_cursor: not self.control(A if show else B)")
    return _const_str(call.args[0].body, "show on"), _const_str(call.args[0].orelse, "show off")


@generator("LiveCodes.v")
def gen_live_codes(repo):
    tree, _ = parse(repo, "rich/live_render.py")
    cls = find_class(tree, "LiveRender")
    pc = _cursor_fn(cls, "position_cursor")
    rc = _cursor_fn(cls, "restore_cursor")
    on, off = _show_cursor(repo)
    ltree, _ = parse(repo, "rich/live.py")
    live = find_class(ltree, "Live")
    # _LiveRender must not override the cursor strings
    lr = find_class(ltree, "_LiveRender")
    for n in lr.body:
        if isinstance(n, ast.FunctionDef) and n.name in ("position_cursor", "restore_cursor"):
            raise Untranslatable("_LiveRender overrides " + n.name)
    ptree, _ = parse(repo, "rich/progress.py")
    prog = find_class(ptree, "Progress")
    ev = {
        "live_start": _events(_prep(find_func(live.body, "start"), live).body, "Live.start"),
        "live_stop": _events(_prep(find_func(live.body, "stop"), live).body, "Live.stop"),
        "progress_start": _events(_prep(find_func(prog.body, "start"), prog).body, "Progress.start"),
        "progress_stop": _events(_prep(find_func(prog.body, "stop"), prog).body, "Progress.stop"),
    }
    out = [HEADER]
    out.append("(* LiveRender.position_cursor / restore_cursor: Control(HEAD ++ UNIT * (height + OFF)) when a\n"
               "   shape is known, Control(NONE) otherwise *)\n")
    for nm, (head, unit, offv, none) in (("pc", pc), ("rc", rc)):
        out.append(f"Definition {nm}_head : list Z := {strlit(head)}.\n")
        out.append(f"Definition {nm}_unit : list Z := {strlit(unit)}.\n")
        out.append(f"Definition {nm}_off : Z := {zlit(offv)}.\n")
        out.append(f"Definition {nm}_none : list Z := {strlit(none)}.\n")
    out.append(f"\n(* Console.show_cursor, emitted when is_terminal and not legacy_windows *)\n")
    out.append(f"Definition cursor_on : list Z := {strlit(on)}.\nDefinition cursor_off : list Z := {strlit(off)}.\n")
    out.append("\n(* T3: statement order of start()/stop(); codes: " +
               ", ".join(f"{v}={k}" for k, v in sorted(EV.items(), key=lambda kv: kv[1])) + " *)\n")
    for k, v in ev.items():
        out.append(f"Definition {k}_events : list Z := [{'; '.join(str(x) for x in v)}].\n")
    out.append("\n(* is the first refresh of start() inside a try whose handler undoes hook, io and cursor? *)\n")
    out.append(f"Definition progress_start_guarded : bool := {'true' if _guarded(ev['progress_start']) else 'false'}.\n")
    out.append(f"Definition live_start_guarded : bool := {'true' if _guarded(ev['live_start']) else 'false'}.\n")
    out.append("(* ... and that handler also runs for KeyboardInterrupt / SystemExit (finally, bare except, except BaseException) *)\n")
    out.append(f"Definition start_cleanup_catches_base : bool := {'true' if _catches_base(ev['progress_start']) else 'false'}.\n")
    out.append(f"Definition live_stop_visible_unless_transient : bool := "
               f"{'true' if EV['visible_unless_transient'] in ev['live_stop'] else 'false'}.\n")
    b = lambda x: "true" if x else "false"
    out.append("(* stop() puts the user's overflow mode back after its last refresh / forgets the shape it drew *)\n")
    ro, rof = _restores_overflow(ev['live_stop'])
    out.append(f"Definition live_stop_restores_overflow : bool := {b(ro)}.\n")
    out.append(f"Definition live_stop_restores_in_finally : bool := {b(rof)}.\n")
    out.append(f"Definition live_stop_resets_shape : bool := {b(ev['live_stop'] and ev['live_stop'][-1] == EV['shape=None'])}.\n")
    out.append(f"Definition progress_stop_resets_shape : bool := {b(ev['progress_stop'] and ev['progress_stop'][-1] == EV['shape=None'])}.\n")
    out.append("(* _LiveRender crops the last frame of a transient display to one row less than the page *)\n")
    out.append(f"Definition live_transient_final_room : bool := {b(_final_room(lr))}.\n")
    tr, mode, refreshes, delegates, grid = _status_facts(repo, live)
    out.append("(* rich/status.py: Status = Live(self.renderable, transient=..., default overflow); update() ends with\n"
               "   _live.update(self.renderable, refresh=True); start/stop/__enter__/__exit__ delegate; the frame is a\n"
               "   Table.grid row (spinner, status) *)\n")
    out.append(f"Definition status_live_transient : bool := {b(tr)}.\n")
    out.append(f"Definition status_overflow_mode : Z := {mode}.\n")
    out.append(f"Definition status_update_refreshes : bool := {b(refreshes)}.\n")
    out.append(f"Definition status_delegates : bool := {b(delegates)}.\n")
    out.append(f"Definition status_frame_is_grid_row : bool := {b(grid)}.\n")
    hp, hl = _hooks_applied(repo)
    out.append("(* Console.print / Console.log run `for hook in self._render_hooks: renderables = hook.process_renderables(...)` *)\n")
    out.append(f"Definition console_print_applies_hooks : bool := {b(hp)}.\n")
    out.append(f"Definition console_log_applies_hooks : bool := {b(hl)}.\n")
    out.append("(* live_render.LiveRender (Progress) crops what it renders to the page height *)\n")
    out.append(f"Definition live_render_crops_to_page : bool := {b(_lr_crops(cls))}.\n")
    return "".join(out)
