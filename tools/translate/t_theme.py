"""T1/T3 for C20 (theme stack): coq/gen/ThemeFacts.v

T3 call-site facts read from the AST of rich/console.py and rich/theme.py (the model of
model/Theme.v branches on them):

  ctx_forwards_inherit     ThemeContext.__enter__ passes  inherit=self.inherit  to console.push_theme
                           (DESIGN D6: in rich 9.10.0 it does not)
  config_escapes_percent   Theme.config writes the style definition with '%' doubled ('%%'), which is
                           what configparser's BasicInterpolation needs to read it back

Everything else the model relies on at these call sites is *required* to have the expected shape
(fail closed: Untranslatable):
  ThemeContext.__init__ stores console/theme/inherit; __exit__ is exactly  self.console.pop_theme()
  Console.use_theme returns ThemeContext(self, theme, inherit); Console.push_theme forwards
  inherit=inherit to the stack, Console.pop_theme calls the stack's pop_theme;
  Theme.from_file uses configparser.ConfigParser() with no arguments and items("styles").

T1 data: the keys of DEFAULT_STYLES in source order (names only; the values are constructor calls,
style values are abstract tokens in the C20 model).
"""
import ast, sys

# run.py is normally executed as __main__: register with *that* module's GENERATORS, not a second copy
_m = sys.modules.get("__main__")
_run = _m if hasattr(_m, "GENERATORS") and hasattr(_m, "generator") else __import__("run")
generator, parse, find_class, find_func = _run.generator, _run.parse, _run.find_class, _run.find_func
find_assign, Untranslatable, HEADER, strlit = _run.find_assign, _run.Untranslatable, _run.HEADER, _run.strlit


def _is_self_attr(node, *path):
    """node is  self.<path[0]>.<path[1]>...  """
    for name in reversed(path):
        if not (isinstance(node, ast.Attribute) and node.attr == name):
            return False
        node = node.value
    return isinstance(node, ast.Name) and node.id == "self"


def _body(fn):
    """function body without the docstring"""
    body = list(fn.body)
    if body and isinstance(body[0], ast.Expr) and isinstance(body[0].value, ast.Constant) and isinstance(body[0].value.value, str):
        body = body[1:]
    return body


def _only_call(fn, what):
    body = _body(fn)
    calls = [s for s in body if isinstance(s, ast.Expr) and isinstance(s.value, ast.Call)]
    rest = [s for s in body if s not in calls]
    rest = [s for s in rest if not (isinstance(s, ast.Return) and (s.value is None or (isinstance(s.value, ast.Name) and s.value.id == "self")))]
    if len(calls) != 1 or rest:
        raise Untranslatable(f"{what}: expected exactly one call statement, found {len(calls)} calls and {len(rest)} other statements")
    return calls[0].value


def _kw(call, name):
    for k in call.keywords:
        if k.arg is None:
            raise Untranslatable("**kwargs at a modelled call site")
        if k.arg == name:
            return k.value
    return None


def _bool(b):
    return "true" if b else "false"


def theme_context_facts(repo):
    tree, _ = parse(repo, "rich/console.py")
    ctx = find_class(tree, "ThemeContext")
    # __init__: self.console = console; self.theme = theme; self.inherit = inherit  (default True)
    init = find_func(ctx.body, "__init__")
    argnames = [a.arg for a in init.args.args]
    if argnames != ["self", "console", "theme", "inherit"]:
        raise Untranslatable(f"ThemeContext.__init__ signature {argnames}")
    if len(init.args.defaults) != 1 or not (isinstance(init.args.defaults[0], ast.Constant) and init.args.defaults[0].value is True):
        raise Untranslatable("ThemeContext.__init__: default of inherit is not True")
    stored = {}
    for s in _body(init):
        if not (isinstance(s, ast.Assign) and len(s.targets) == 1 and isinstance(s.value, ast.Name)
                and _is_self_attr(s.targets[0], s.targets[0].attr if isinstance(s.targets[0], ast.Attribute) else "")):
            raise Untranslatable("ThemeContext.__init__: statement is not  self.x = name")
        stored[s.targets[0].attr] = s.value.id
    if stored != {"console": "console", "theme": "theme", "inherit": "inherit"}:
        raise Untranslatable(f"ThemeContext.__init__ stores {stored}")
    # __enter__: self.console.push_theme(self.theme [, inherit=self.inherit])
    enter = find_func(ctx.body, "__enter__")
    call = _only_call(enter, "ThemeContext.__enter__")
    if not _is_self_attr(call.func, "console", "push_theme"):
        raise Untranslatable("ThemeContext.__enter__ does not call self.console.push_theme")
    if len(call.args) != 1 or not _is_self_attr(call.args[0], "theme"):
        raise Untranslatable("ThemeContext.__enter__: first argument is not self.theme")
    extra = [k.arg for k in call.keywords if k.arg != "inherit"]
    if extra:
        raise Untranslatable(f"ThemeContext.__enter__: unexpected keywords {extra}")
    inh = _kw(call, "inherit")
    if inh is None:
        forwards = False
    elif _is_self_attr(inh, "inherit"):
        forwards = True
    else:
        raise Untranslatable("ThemeContext.__enter__: inherit= is not self.inherit")
    # __exit__: exactly self.console.pop_theme()  (unconditional, result None => exception propagates)
    exit_ = find_func(ctx.body, "__exit__")
    call = _only_call(exit_, "ThemeContext.__exit__")
    if not _is_self_attr(call.func, "console", "pop_theme") or call.args or call.keywords:
        raise Untranslatable("ThemeContext.__exit__ is not exactly self.console.pop_theme()")
    for s in _body(exit_):
        if isinstance(s, ast.Return) and s.value is not None:
            raise Untranslatable("ThemeContext.__exit__ returns a value (could swallow exceptions)")

    con = find_class(tree, "Console")
    # use_theme: return ThemeContext(self, theme, inherit)
    use = find_func(con.body, "use_theme")
    body = _body(use)
    if not (len(body) == 1 and isinstance(body[0], ast.Return) and isinstance(body[0].value, ast.Call)
            and isinstance(body[0].value.func, ast.Name) and body[0].value.func.id == "ThemeContext"):
        raise Untranslatable("Console.use_theme is not  return ThemeContext(...)")
    call = body[0].value
    pos = [a.id if isinstance(a, ast.Name) else None for a in call.args]
    inh = pos[2] if len(pos) > 2 else (_kw(call, "inherit").id if isinstance(_kw(call, "inherit"), ast.Name) else None)
    if pos[:2] != ["self", "theme"] or inh != "inherit":
        raise Untranslatable("Console.use_theme does not pass (self, theme, inherit)")
    kwonly = {a.arg: d for a, d in zip(use.args.kwonlyargs, use.args.kw_defaults)}
    if not ("inherit" in kwonly and isinstance(kwonly["inherit"], ast.Constant) and kwonly["inherit"].value is True):
        raise Untranslatable("Console.use_theme: inherit is not keyword-only with default True")
    # push_theme: self._theme_stack.push_theme(theme, inherit=inherit)
    push = find_func(con.body, "push_theme")
    call = _only_call(push, "Console.push_theme")
    inh = _kw(call, "inherit")
    if not (_is_self_attr(call.func, "_theme_stack", "push_theme") and len(call.args) == 1
            and isinstance(call.args[0], ast.Name) and call.args[0].id == "theme"
            and isinstance(inh, ast.Name) and inh.id == "inherit"):
        raise Untranslatable("Console.push_theme does not forward (theme, inherit=inherit)")
    pop = find_func(con.body, "pop_theme")
    call = _only_call(pop, "Console.pop_theme")
    if not _is_self_attr(call.func, "_theme_stack", "pop_theme") or call.args or call.keywords:
        raise Untranslatable("Console.pop_theme is not self._theme_stack.pop_theme()")
    return forwards


def theme_config_facts(repo):
    tree, _ = parse(repo, "rich/theme.py")
    th = find_class(tree, "Theme")
    cfg = find_func(th.body, "config")
    # the f-string  f"{name} = {style}"  (as is)  or  f"{name} = {<expr>.replace('%', '%%')}"  (repaired)
    fstrings = [n for n in ast.walk(cfg) if isinstance(n, ast.JoinedStr)]
    if len(fstrings) != 1:
        raise Untranslatable(f"Theme.config: expected one f-string, found {len(fstrings)}")
    parts = fstrings[0].values
    if not (len(parts) == 3 and isinstance(parts[0], ast.FormattedValue) and isinstance(parts[0].value, ast.Name)
            and parts[0].value.id == "name" and isinstance(parts[1], ast.Constant) and parts[1].value == " = "
            and isinstance(parts[2], ast.FormattedValue)):
        raise Untranslatable("Theme.config: line format is not  f\"{name} = {...}\"")
    for p in (parts[0], parts[2]):
        if p.conversion != -1 or p.format_spec is not None:
            raise Untranslatable("Theme.config: conversion/format spec in the f-string")
    v = parts[2].value

    def is_style_str(n):
        if isinstance(n, ast.Name) and n.id == "style":
            return True
        return (isinstance(n, ast.Call) and isinstance(n.func, ast.Name) and n.func.id == "str" and len(n.args) == 1
                and not n.keywords and isinstance(n.args[0], ast.Name) and n.args[0].id == "style")
    if is_style_str(v):
        escapes = False
    elif (isinstance(v, ast.Call) and isinstance(v.func, ast.Attribute) and v.func.attr == "replace"
          and is_style_str(v.func.value) and not v.keywords and len(v.args) == 2
          and all(isinstance(a, ast.Constant) for a in v.args) and [a.value for a in v.args] == ["%", "%%"]):
        escapes = True
    else:
        raise Untranslatable("Theme.config: value expression is neither {style} nor str(style).replace('%', '%%')")
    src = ast.unparse(cfg)
    if "sorted(self.styles.items())" not in src or "'[styles]\\n'" not in src or "'\\n'.join" not in src:
        raise Untranslatable("Theme.config: header / join / sorted(self.styles.items()) not found")
    # from_file: ConfigParser() without arguments, items("styles")
    ff = find_func(th.body, "from_file")
    ctor = [n for n in ast.walk(ff) if isinstance(n, ast.Call) and isinstance(n.func, ast.Attribute) and n.func.attr == "ConfigParser"]
    if len(ctor) != 1 or ctor[0].args or ctor[0].keywords:
        raise Untranslatable("Theme.from_file: not a plain configparser.ConfigParser()")
    items = [n for n in ast.walk(ff) if isinstance(n, ast.Call) and isinstance(n.func, ast.Attribute) and n.func.attr == "items"]
    if not (len(items) == 1 and len(items[0].args) == 1 and isinstance(items[0].args[0], ast.Constant) and items[0].args[0].value == "styles"
            and not items[0].keywords):
        raise Untranslatable("Theme.from_file: not config.items('styles')")
    return escapes


def _dict_keys(node, what):
    if not isinstance(node, ast.Dict):
        raise Untranslatable(f"{what} is not a dict literal")
    keys = []
    for k in node.keys:
        if not (isinstance(k, ast.Constant) and isinstance(k.value, str)):
            raise Untranslatable(f"{what}: key is not a string literal")
        keys.append(k.value)
    return keys


def default_style_names(repo):
    """keys of DEFAULT_STYLES in dict order: the literal, then every top-level
    DEFAULT_STYLES.update(<NAME>) with NAME a top-level dict literal.  Any other top-level
    statement that mentions DEFAULT_STYLES is refused."""
    tree, _ = parse(repo, "rich/default_styles.py")
    names = []
    seen_literal = False
    for node in tree.body:
        mentions = any(isinstance(n, ast.Name) and n.id == "DEFAULT_STYLES" for n in ast.walk(node))
        if not mentions:
            continue
        target = None
        if isinstance(node, ast.AnnAssign) and isinstance(node.target, ast.Name):
            target, value = node.target.id, node.value
        elif isinstance(node, ast.Assign) and len(node.targets) == 1 and isinstance(node.targets[0], ast.Name):
            target, value = node.targets[0].id, node.value
        if target == "DEFAULT_STYLES" and not seen_literal:
            seen_literal = True
            new = _dict_keys(value, "DEFAULT_STYLES")
        elif (seen_literal and isinstance(node, ast.Expr) and isinstance(node.value, ast.Call)
              and isinstance(node.value.func, ast.Attribute) and node.value.func.attr == "update"
              and isinstance(node.value.func.value, ast.Name) and node.value.func.value.id == "DEFAULT_STYLES"
              and len(node.value.args) == 1 and not node.value.keywords and isinstance(node.value.args[0], ast.Name)):
            new = _dict_keys(find_assign(tree, node.value.args[0].id), node.value.args[0].id)
        elif isinstance(node, ast.If):      # the  if __name__ == "__main__"  demo block
            t = node.test
            if not (isinstance(t, ast.Compare) and isinstance(t.left, ast.Name) and t.left.id == "__name__"):
                raise Untranslatable(f"default_styles.py:{node.lineno}: unsupported statement touching DEFAULT_STYLES")
            continue
        else:
            raise Untranslatable(f"default_styles.py:{node.lineno}: unsupported statement touching DEFAULT_STYLES")
        for k in new:
            if k not in names:      # a repeated key keeps its first position in a dict
                names.append(k)
    if not seen_literal:
        raise Untranslatable("no DEFAULT_STYLES literal")
    return names


@generator("ThemeFacts.v")
def gen_theme_facts(repo):
    forwards = theme_context_facts(repo)
    escapes = theme_config_facts(repo)
    names = default_style_names(repo)
    out = HEADER
    out += "(* T3: ThemeContext.__enter__ passes inherit=self.inherit to console.push_theme *)\n"
    out += f"Definition ctx_forwards_inherit : bool := {_bool(forwards)}.\n\n"
    out += "(* T3: Theme.config doubles '%' in the style definitions it writes *)\n"
    out += f"Definition config_escapes_percent : bool := {_bool(escapes)}.\n\n"
    out += "(* T1: keys of DEFAULT_STYLES, source order *)\n"
    out += "Definition default_style_names : list (list Z) :=\n  [" + ";\n   ".join(strlit(n) for n in names) + "].\n"
    return out
