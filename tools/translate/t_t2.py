"""T2 registration: which functions of rich are regenerated statement by statement (t2.py) into
coq/gen/T2_*.v on every run.  Fail closed: one untranslatable function makes the whole file fall
back to its baseline copy and the file is reported (run.py)."""
import sys
import t2
from t2 import Fn

_main = sys.modules["__main__"]
generator = getattr(_main, "generator", None)
MainUntranslatable = getattr(_main, "Untranslatable", t2.Untranslatable)

IMPORTS = ["From RichModel Require Import Prelude Ratio T2Lib."]
MEAS = {"Measurement": "Tuple[int, int]"}

SPAN = dict(self_type="Span", aliases={"Span": "Tuple[int, int, tok]"}, ctors={"Span": 3},
            fields={"start": (0, 3), "end": (1, 3), "style": (2, 3)})

FILES = {
    "T2_Ratio.v": dict(imports=IMPORTS, deps=[], fns=[
        Fn("rich/_ratio.py", "ratio_reduce"),
        Fn("rich/_ratio.py", "ratio_distribute"),
        Fn("rich/table.py", "Table._collapse_widths"),
    ]),
    "T2_Cells.v": dict(imports=IMPORTS + ["From RichGen Require Import CellWidthTable."], deps=[], fns=[
        Fn("rich/cells.py", "_get_codepoint_cell_size",
           consts={"CELL_WIDTHS": ("CELL_WIDTHS", "List[Tuple[int, int, int]]")}),
        Fn("rich/cells.py", "get_character_cell_size", params={"character": "char"}),
        Fn("rich/cells.py", "set_cell_size", externs={"cell_len": (["str"], "int", False)}),
        Fn("rich/cells.py", "chop_cells", params={"lines": "List[List[char]]"}),
    ]),
    "T2_Measure.v": dict(imports=IMPORTS, deps=[], fns=[
        Fn("rich/measure.py", "Measurement.normalize", self_type="Measurement", aliases=MEAS, ctors={"Measurement": 2}),
        Fn("rich/measure.py", "Measurement.with_maximum", self_type="Measurement", aliases=MEAS, ctors={"Measurement": 2}),
        Fn("rich/measure.py", "Measurement.with_minimum", self_type="Measurement", aliases=MEAS, ctors={"Measurement": 2}),
        Fn("rich/measure.py", "Measurement.clamp", self_type="Measurement", aliases=MEAS, ctors={"Measurement": 2}),
        Fn("rich/padding.py", "Padding.unpack", params={"pad": "List[int]"}),
        Fn("rich/table.py", "Table._get_padding_width",
           self_fields={"padding": "Tuple[int, int, int, int]", "collapse_padding": "bool"}),
        Fn("rich/table.py", "Table._extra_width",
           self_fields={"box": "Optional[obj]", "show_edge": "bool", "columns": "List[obj]"}),
    ]),
    "T2_Span.v": dict(imports=IMPORTS, deps=[], fns=[
        Fn("rich/text.py", "Span.split", gname="span_split_gen", **SPAN),
        Fn("rich/text.py", "Span.move", gname="span_move_gen", **SPAN),
        Fn("rich/text.py", "Span.right_crop", gname="span_right_crop_gen", **SPAN),
    ]),
}


def build(fname, repo):
    cfg = FILES[fname]
    reg = {}
    for d in cfg["deps"]:
        _, reg = build(d, repo)
    fresh = [Fn(f.file, f.path, f.gname, f.params, f.self_type, f.self_fields, f.externs, f.consts, f.ctors,
                f.aliases, f.ret, f.fields) for f in cfg["fns"]]
    return t2.translate_file(repo, fresh, cfg["imports"], reg)


def _register(fname):
    def gen(repo):
        try:
            return build(fname, repo)[0]
        except t2.Untranslatable as e:
            raise MainUntranslatable(str(e))
    gen.__name__ = "gen_" + fname[:-2]
    if generator is not None:
        generator(fname)(gen)
    return gen


for _f in FILES:
    _register(_f)

if __name__ == "__main__":   # print one file:  t_t2.py T2_Ratio.v [repo]
    try:
        print(build(sys.argv[1], sys.argv[2] if len(sys.argv) > 2 else "/repo")[0])
    except t2.Untranslatable as e:
        print(e)
