"""T2 registration: which functions of rich are regenerated statement by statement (t2.py) into
coq/gen/T2_*.v on every run.  Fail closed: one untranslatable function makes the whole file fall
back to its baseline copy and the file is reported (run.py)."""
import sys
import t2
from t2 import Fn

_main = sys.modules["__main__"]
generator = getattr(_main, "generator", None)
MainUntranslatable = getattr(_main, "Untranslatable", t2.Untranslatable)

IMPORTS = ["From RichModel Require Import Prelude Ratio T2Lib."]
MEAS = {"Measurement": "Tuple[int, int]"}

SPAN = dict(self_type="Span", aliases={"Span": "Tuple[int, int, tok]"}, ctors={"Span": 3},
            fields={"start": (0, 3), "end": (1, 3), "style": (2, 3)})

SEG = dict(self_type="Segment", aliases={"Segment": "Tuple[str, Optional[tok], bool]"},
           ctors={"Segment": (3, [("None", "Optional[tok]"), ("false", "bool")])},
           fields={"text": (0, 3), "style": (1, 3), "is_control": (2, 3)})

# Style as the tuple of the attributes __add__ reads and writes; colours are an opaque always-truthy type C
STYLE_FIELDS = [("_color", "Optional[C]"), ("_bgcolor", "Optional[C]"), ("_attributes", "int"), ("_set_attributes", "int"),
                ("_link", "Optional[str]"), ("_link_id", "str"), ("_null", "bool")]
STYLE_T = "Tuple[" + ", ".join(t for _, t in STYLE_FIELDS) + "]"

FILES = {
    "T2_Ratio.v": dict(imports=IMPORTS, deps=[], fns=[
        Fn("rich/_ratio.py", "ratio_reduce"),
        Fn("rich/_ratio.py", "ratio_distribute"),
        Fn("rich/table.py", "Table._collapse_widths"),
    ]),
    "T2_Cells.v": dict(imports=IMPORTS + ["From RichGen Require Import CellWidthTable."], deps=[], fns=[
        Fn("rich/cells.py", "_get_codepoint_cell_size",
           consts={"CELL_WIDTHS": ("CELL_WIDTHS", "List[Tuple[int, int, int]]")}),
        Fn("rich/cells.py", "get_character_cell_size", params={"character": "char"}),
        Fn("rich/cells.py", "set_cell_size", externs={"cell_len": (["str"], "int", False)}),
        Fn("rich/cells.py", "chop_cells", params={"lines": "List[List[char]]"}),
    ]),
    "T2_Measure.v": dict(imports=IMPORTS, deps=[], fns=[
        Fn("rich/measure.py", "Measurement.normalize", self_type="Measurement", aliases=MEAS, ctors={"Measurement": 2}),
        Fn("rich/measure.py", "Measurement.with_maximum", self_type="Measurement", aliases=MEAS, ctors={"Measurement": 2}),
        Fn("rich/measure.py", "Measurement.with_minimum", self_type="Measurement", aliases=MEAS, ctors={"Measurement": 2}),
        Fn("rich/measure.py", "Measurement.clamp", self_type="Measurement", aliases=MEAS, ctors={"Measurement": 2}),
        Fn("rich/padding.py", "Padding.unpack", params={"pad": "List[int]"}),
        Fn("rich/table.py", "Table._get_padding_width",
           self_fields={"padding": "Tuple[int, int, int, int]", "collapse_padding": "bool"}),
        Fn("rich/table.py", "Table._extra_width",
           self_fields={"box": "Optional[obj]", "show_edge": "bool", "columns": "List[obj]"}),
    ]),
    "T2_Color.v": dict(imports=IMPORTS, deps=[], fns=[
        Fn("rich/color.py", "Color.get_ansi_codes", enums={"ColorType": "rich/color.py"},
           self_fields={"type": "int", "number": "Optional[int]", "triplet": "Optional[Tuple[int, int, int]]"}),
    ]),
    "T2_Live.v": dict(imports=IMPORTS, deps=[], fns=[
        Fn("rich/live_render.py", "LiveRender.position_cursor", ret="str", ctors={"Control": 1},
           self_fields={"_shape": "Optional[Tuple[int, int]]"}),
        Fn("rich/live_render.py", "LiveRender.restore_cursor", ret="str", ctors={"Control": 1},
           self_fields={"_shape": "Optional[Tuple[int, int]]"}),
    ]),
    "T2_Segment.v": dict(imports=IMPORTS + ["From RichGen Require Import CellWidthTable T2_Cells."], deps=["T2_Cells.v"], fns=[
        Fn("rich/segment.py", "Segment.cell_length", prop=True, externs={"cell_len": (["str"], "int", False)}, **SEG),
        Fn("rich/segment.py", "Segment.adjust_line_length", params={"style": "Optional[tok]"},
           externs={"cell_len": (["str"], "int", False)}, **SEG),
    ]),
    "T2_Progress.v": dict(imports=IMPORTS + ["From Coq Require Import QArith Qround Qminmax.",
                                             "From RichModel Require Import T2LibQ."], deps=[], fns=[
        Fn("rich/progress.py", "Task.remaining", self_fields={"total": "float", "completed": "float"}),
        Fn("rich/progress.py", "Task.elapsed", externs={"self.get_time": ([], "float", False)},
           self_fields={"start_time": "Optional[float]", "stop_time": "Optional[float]"}),
        Fn("rich/progress.py", "Task.finished", self_fields={"finished_time": "Optional[float]"}),
        Fn("rich/progress.py", "Task.percentage", self_fields={"total": "float", "completed": "float"}),
        Fn("rich/progress.py", "Task.time_remaining",
           self_fields={"finished": "bool", "speed": "Optional[float]", "remaining": "float"}),
    ]),
    "T2_Style.v": dict(imports=IMPORTS, deps=[], fns=[
        Fn("rich/style.py", "Style.__add__", gname="style_add_gen", self_type="Style", abstract=["C"],
           params={"style": "Optional[Style]"}, ret="Style",
           aliases={"Style": STYLE_T, "__abstract__": ("C",)},
           fields={a: (i, len(STYLE_FIELDS)) for i, (a, _) in enumerate(STYLE_FIELDS)},
           objects={"Style": STYLE_FIELDS}, ignored_attrs=["_ansi", "_style_definition", "_hash"]),
    ]),
    "T2_Bar.v": dict(imports=IMPORTS + ["From RichGen Require Import FrameBoxes."], deps=[], fns=[
        Fn("rich/bar.py", "Bar.__rich_console__", gname="bar_console_gen",
           self_fields={"width": "Optional[int]", "begin": "int", "end": "int", "size": "int", "style": "Optional[tok]"},
           obj_fields={"options.max_width": "int"}, opaque_params=["console", "options"],
           consts={"BEGIN_BLOCK_ELEMENTS": ("BEGIN_BLOCK_ELEMENTS", "List[str]"),
                   "END_BLOCK_ELEMENTS": ("END_BLOCK_ELEMENTS", "List[str]"), "FULL_BLOCK": ("FULL_BLOCK", "str"),
                   "Segment.line()": ("([10], None, false)", "Segment")},
           **{k2: v2 for k2, v2 in SEG.items() if k2 != "self_type"}),
    ]),
    "T2_ProgressBar.v": dict(imports=IMPORTS, deps=[], fns=[
        Fn("rich/progress_bar.py", "ProgressBar.__rich_console__", gname="pbar_console_gen",
           self_fields={"width": "Optional[int]", "pulse": "bool", "total": "int", "completed": "int",
                        "style": "tok", "complete_style": "tok", "finished_style": "tok"},
           obj_fields={"options.max_width": "int", "options.legacy_windows": "bool", "options.ascii_only": "bool",
                       "console.no_color": "bool", "console.color_system": "Optional[obj]"},
           opaque_params=["console", "options"],
           externs={"self._render_pulse": (["int", "bool"], "List[Segment]", False),
                    "console.get_style": (["tok"], "Optional[tok]", False)},
           **{k2: v2 for k2, v2 in SEG.items() if k2 != "self_type"}),
    ]),
    "T2_Span.v": dict(imports=IMPORTS, deps=[], fns=[
        Fn("rich/text.py", "Span.split", gname="span_split_gen", **SPAN),
        Fn("rich/text.py", "Span.move", gname="span_move_gen", **SPAN),
        Fn("rich/text.py", "Span.right_crop", gname="span_right_crop_gen", **SPAN),
    ]),
}


def build(fname, repo):
    cfg = FILES[fname]
    reg = {}
    for d in cfg["deps"]:
        reg.update(build(d, repo)[1])
    fresh = [Fn(f.file, f.path, f.gname, f.params, f.self_type, f.self_fields, f.externs, f.consts, f.ctors,
                f.aliases, f.ret, f.fields, f.enums, f.prop, f.abstract, f.objects, f.ignored_attrs, f.obj_fields, f.opaque_params) for f in cfg["fns"]]
    return t2.translate_file(repo, fresh, cfg["imports"], reg)


def _register(fname):
    def gen(repo):
        try:
            return build(fname, repo)[0]
        except t2.Untranslatable as e:
            raise MainUntranslatable(str(e))
    gen.__name__ = "gen_" + fname[:-2]
    if generator is not None:
        generator(fname)(gen)
    return gen


for _f in FILES:
    _register(_f)

if __name__ == "__main__":   # print one file:  t_t2.py T2_Ratio.v [repo]
    try:
        print(build(sys.argv[1], sys.argv[2] if len(sys.argv) > 2 else "/repo")[0])
    except t2.Untranslatable as e:
        print(e)
