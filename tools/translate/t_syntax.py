"""Tie 1 for C17 (syntax / traceback line fidelity): gen/SyntaxFacts.v.

T3 call-site facts that behaviour sampling alone cannot pin and that the hand model
(coq/model/Syntax.v) branches on:

* the keyword arguments of `get_lexer_by_name(self.lexer_name, ...)` inside `Syntax.highlight`
  (Pygments' `stripnl` defaults to True and strips leading/trailing blank lines -- DESIGN D7;
  `ensurenl` defaults to True);
* whether the `next(tokens)` of the skip loop in `tokens_to_spans` is guarded against
  StopIteration (an unguarded one turns a line_range beyond the code into RuntimeError);
* defaults of `Syntax.__init__` (start_line, tab_size, line_numbers, word_wrap);
* the keyword arguments of the `Syntax(...)` call in `Traceback._render_stack`.

Fail closed: anything not of the expected literal shape raises Untranslatable.
"""
import ast, sys

_m = sys.modules.get("__main__")
_run = _m if hasattr(_m, "GENERATORS") and hasattr(_m, "generator") else __import__("run")
generator, parse, find_class, find_func = _run.generator, _run.parse, _run.find_class, _run.find_func
literal, Untranslatable, HEADER, zlit = _run.literal, _run.Untranslatable, _run.HEADER, _run.zlit


def _calls(fn, name):
    out = []
    for node in ast.walk(fn):
        if isinstance(node, ast.Call):
            f = node.func
            nm = f.attr if isinstance(f, ast.Attribute) else (f.id if isinstance(f, ast.Name) else None)
            if nm == name:
                out.append(node)
    return out


def _opt_bool(v):
    return "None" if v is None else ("Some true" if v else "Some false")


def _b(v):
    return "true" if v else "false"


def lexer_kwargs(repo):
    """-> dict of the constant keyword arguments at the get_lexer_by_name call in Syntax.highlight
    (also used by the correspondence harness to build the very same lexer)."""
    tree, _ = parse(repo, "rich/syntax.py")
    hl = find_func(find_class(tree, "Syntax").body, "highlight")
    calls = _calls(hl, "get_lexer_by_name")
    if len(calls) != 1:
        raise Untranslatable(f"Syntax.highlight: {len(calls)} get_lexer_by_name calls, expected 1")
    call = calls[0]
    if len(call.args) != 1 or ast.unparse(call.args[0]) != "self.lexer_name":
        raise Untranslatable("get_lexer_by_name: positional arguments are not (self.lexer_name)")
    kw = {}
    for k in call.keywords:
        if k.arg not in ("stripnl", "ensurenl"):
            raise Untranslatable(f"get_lexer_by_name: keyword {k.arg!r} is outside the modelled options")
        v = literal(k.value, f"get_lexer_by_name {k.arg}")
        if not isinstance(v, bool):
            raise Untranslatable(f"get_lexer_by_name: {k.arg} is not a bool literal")
        kw[k.arg] = v
    return kw


def _skip_guard(repo):
    tree, _ = parse(repo, "rich/syntax.py")
    hl = find_func(find_class(tree, "Syntax").body, "highlight")
    t2s = None
    for node in ast.walk(hl):
        if isinstance(node, ast.FunctionDef) and node.name == "tokens_to_spans":
            t2s = node
    if t2s is None:
        raise Untranslatable("Syntax.highlight: no tokens_to_spans")
    whiles = [n for n in ast.walk(t2s) if isinstance(n, ast.While)]
    if len(whiles) != 1 or ast.unparse(whiles[0].test) != "line_no < _line_start":
        raise Untranslatable("tokens_to_spans: skip loop not of the form `while line_no < _line_start`")
    loop = whiles[0]
    nexts = _calls(loop, "next")
    if len(nexts) != 1 or len(nexts[0].args) != 1 or nexts[0].keywords:
        raise Untranslatable("tokens_to_spans: skip loop does not contain exactly one next(tokens)")
    # guarded iff that call sits in the body of a `try` with an `except StopIteration: break`
    for node in ast.walk(loop):
        if isinstance(node, ast.Try):
            inside = any(c is nexts[0] for b in node.body for c in ast.walk(b))
            if inside:
                for h in node.handlers:
                    names = []
                    if h.type is not None:
                        names = [ast.unparse(e) for e in (h.type.elts if isinstance(h.type, ast.Tuple) else [h.type])]
                    if "StopIteration" in names:
                        if len(h.body) == 1 and isinstance(h.body[0], ast.Break):
                            return True
                        raise Untranslatable("tokens_to_spans: StopIteration handler is not a plain `break`")
                raise Untranslatable("tokens_to_spans: next(tokens) inside a try that does not catch StopIteration")
    return False


def _guides_guard(repo):
    """does __rich_console__ skip the indent-guide pass when no line is selected?"""
    tree, _ = parse(repo, "rich/syntax.py")
    rc = find_func(find_class(tree, "Syntax").body, "__rich_console__")
    tests = [ast.unparse(n.test) for n in ast.walk(rc) if isinstance(n, ast.If) and "indent_guides" in ast.unparse(n.test)]
    if len(tests) != 1:
        raise Untranslatable(f"Syntax.__rich_console__: {len(tests)} `if` tests on indent_guides, expected 1")
    if tests[0] == "self.indent_guides and (not options.ascii_only)":
        return False
    if tests[0] == "self.indent_guides and (not options.ascii_only) and lines":
        return True
    raise Untranslatable(f"Syntax.__rich_console__: unmodelled indent-guide condition {tests[0]!r}")


def _init_defaults(repo):
    tree, _ = parse(repo, "rich/syntax.py")
    init = find_func(find_class(tree, "Syntax").body, "__init__")
    d = {}
    for a, v in zip(init.args.kwonlyargs, init.args.kw_defaults):
        if v is not None:
            try:
                d[a.arg] = ast.literal_eval(v)
            except Exception:
                d[a.arg] = ast.unparse(v)
    for want in ("start_line", "tab_size", "line_numbers", "word_wrap", "dedent"):
        if want not in d:
            raise Untranslatable(f"Syntax.__init__: no keyword-only default for {want}")
    return d


def _traceback_call(repo):
    tree, _ = parse(repo, "rich/traceback.py")
    rs = find_func(find_class(tree, "Traceback").body, "_render_stack")
    calls = _calls(rs, "Syntax")
    if len(calls) != 1:
        raise Untranslatable(f"Traceback._render_stack: {len(calls)} Syntax(...) calls, expected 1")
    call = calls[0]
    if [ast.unparse(a) for a in call.args] != ["code", "lexer_name"]:
        raise Untranslatable("Traceback Syntax call: positional arguments are not (code, lexer_name)")
    kw = {k.arg: ast.unparse(k.value) for k in call.keywords}
    known = {"theme", "line_numbers", "line_range", "highlight_lines", "word_wrap", "code_width",
             "indent_guides", "dedent"}
    extra = set(kw) - known
    if extra:
        raise Untranslatable(f"Traceback Syntax call: unmodelled keywords {sorted(extra)}")
    try:
        cw = int(kw["code_width"])
    except Exception:
        raise Untranslatable("Traceback Syntax call: code_width is not an int literal")
    return {
        "line_numbers": kw.get("line_numbers") == "True",
        "range_pm_extra": kw.get("line_range") == "(frame.lineno - self.extra_lines, frame.lineno + self.extra_lines)",
        "highlight_lineno": kw.get("highlight_lines") == "{frame.lineno}",
        "code_width": cw,
        "dedent_off": kw.get("dedent", "False") == "False",
        "word_wrap_from_self": kw.get("word_wrap") == "self.word_wrap",
    }


@generator("SyntaxFacts.v")
def gen_syntax_facts(repo):
    kw = lexer_kwargs(repo)
    guard = _skip_guard(repo)
    gguard = _guides_guard(repo)
    d = _init_defaults(repo)
    tb = _traceback_call(repo)
    for k in ("start_line", "tab_size"):
        if not isinstance(d[k], int) or isinstance(d[k], bool):
            raise Untranslatable(f"Syntax.__init__: default of {k} is not an int")
    for k in ("line_numbers", "word_wrap", "dedent"):
        if not isinstance(d[k], bool):
            raise Untranslatable(f"Syntax.__init__: default of {k} is not a bool")
    return (HEADER +
            "(* keyword arguments at get_lexer_by_name(self.lexer_name, ...) in Syntax.highlight;\n"
            "   None = not passed, Pygments' default applies (stripnl=True, ensurenl=True) *)\n"
            f"Definition lexer_kw_stripnl : option bool := {_opt_bool(kw.get('stripnl'))}.\n"
            f"Definition lexer_kw_ensurenl : option bool := {_opt_bool(kw.get('ensurenl'))}.\n"
            "(* is the next(tokens) of the skip loop in tokens_to_spans guarded by `except StopIteration: break`? *)\n"
            f"Definition skip_loop_guarded : bool := {_b(guard)}.\n"
            "(* is the indent-guide pass of __rich_console__ skipped when the line selection is empty? *)\n"
            f"Definition guides_skip_empty : bool := {_b(gguard)}.\n"
            "(* Syntax.__init__ keyword defaults *)\n"
            f"Definition syntax_default_start_line : Z := {zlit(d['start_line'])}.\n"
            f"Definition syntax_default_tab_size : Z := {zlit(d['tab_size'])}.\n"
            f"Definition syntax_default_line_numbers : bool := {_b(d['line_numbers'])}.\n"
            f"Definition syntax_default_word_wrap : bool := {_b(d['word_wrap'])}.\n"
            f"Definition syntax_default_dedent : bool := {_b(d['dedent'])}.\n"
            "(* the Syntax(...) call of Traceback._render_stack *)\n"
            f"Definition tb_line_numbers : bool := {_b(tb['line_numbers'])}.\n"
            f"Definition tb_range_is_lineno_pm_extra : bool := {_b(tb['range_pm_extra'])}.\n"
            f"Definition tb_highlight_is_lineno : bool := {_b(tb['highlight_lineno'])}.\n"
            f"Definition tb_code_width : Z := {zlit(tb['code_width'])}.\n"
            f"Definition tb_dedent_off : bool := {_b(tb['dedent_off'])}.\n"
            f"Definition tb_word_wrap_from_self : bool := {_b(tb['word_wrap_from_self'])}.\n")
