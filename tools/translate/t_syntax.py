"""Tie 1 for C17 (syntax / traceback line fidelity): gen/SyntaxFacts.v.

T3 call-site facts that behaviour sampling alone cannot pin and that the hand model
(coq/model/Syntax.v) branches on:

* the keyword arguments of `get_lexer_by_name(self.lexer_name, ...)` inside `Syntax.highlight`
  (Pygments' `stripnl` defaults to True and strips leading/trailing blank lines -- DESIGN D7;
  `ensurenl` defaults to True);
* whether the `next(tokens)` of the skip loop in `tokens_to_spans` is guarded against
  StopIteration (an unguarded one turns a line_range beyond the code into RuntimeError);
* defaults of `Syntax.__init__` (start_line, tab_size, line_numbers, word_wrap);
* the keyword arguments of the `Syntax(...)` call in `Traceback._render_stack`.

Fail closed: anything not of the expected literal shape raises Untranslatable.
"""
import ast, sys

_m = sys.modules.get("__main__")
_run = _m if hasattr(_m, "GENERATORS") and hasattr(_m, "generator") else __import__("run")
generator, parse, find_class, find_func = _run.generator, _run.parse, _run.find_class, _run.find_func
literal, Untranslatable, HEADER, zlit = _run.literal, _run.Untranslatable, _run.HEADER, _run.zlit


def _calls(fn, name):
    out = []
    for node in ast.walk(fn):
        if isinstance(node, ast.Call):
            f = node.func
            nm = f.attr if isinstance(f, ast.Attribute) else (f.id if isinstance(f, ast.Name) else None)
            if nm == name:
                out.append(node)
    return out


def _opt_bool(v):
    return "None" if v is None else ("Some true" if v else "Some false")


def _b(v):
    return "true" if v else "false"


# ------------------------------------------------------------------ dataflow helpers
# Facts are keyed on public names only (classes, methods, parameters by POSITION, keyword arguments,
# attributes of self / of library objects).  Locals are identified by dataflow: a local bound exactly once
# to an expression is replaced by that expression (aliases, temporaries, renamed variables), tuple
# unpacking becomes indexing, comparisons/negations are normalised.

_VAR = object()      # bound more than once / by a loop, with, except, augmented assignment, parameter


class Env:
    """single-assignment bindings of ONE function scope (nested scopes are separate), chained to the
    enclosing scope for closures"""

    def __init__(self, fn, parent=None):
        self.fn, self.parent = fn, parent
        binds = {}

        def bind(name, val):
            binds.setdefault(name, []).append(val)

        def target(t, val):
            if isinstance(t, ast.Name):
                bind(t.id, val)
            elif isinstance(t, (ast.Tuple, ast.List)):
                for i, e in enumerate(t.elts):
                    if val is _VAR or isinstance(e, ast.Starred):
                        target(e.value if isinstance(e, ast.Starred) else e, _VAR)
                    else:
                        target(e, ast.Subscript(value=val, slice=ast.Constant(value=i), ctx=ast.Load()))

        for a in fn.args.posonlyargs + fn.args.args + fn.args.kwonlyargs:
            bind(a.arg, _VAR)
        for a in (fn.args.vararg, fn.args.kwarg):
            if a is not None:
                bind(a.arg, _VAR)

        def visit(node):
            for ch in ast.iter_child_nodes(node):
                if isinstance(ch, (ast.FunctionDef, ast.AsyncFunctionDef, ast.ClassDef)):
                    bind(ch.name, _VAR)
                    continue                       # separate scope
                if isinstance(ch, (ast.Lambda, ast.ListComp, ast.SetComp, ast.DictComp, ast.GeneratorExp)):
                    continue
                if isinstance(ch, ast.Assign):
                    for t in ch.targets:
                        target(t, ch.value)
                elif isinstance(ch, ast.AnnAssign) and ch.value is not None:
                    target(ch.target, ch.value)
                elif isinstance(ch, ast.AugAssign):
                    target(ch.target, _VAR)
                elif isinstance(ch, (ast.For, ast.AsyncFor)):
                    target(ch.target, _VAR)
                elif isinstance(ch, (ast.With, ast.AsyncWith)):
                    for it in ch.items:
                        if it.optional_vars is not None:
                            target(it.optional_vars, _VAR)
                elif isinstance(ch, ast.ExceptHandler) and ch.name:
                    bind(ch.name, _VAR)
                elif isinstance(ch, ast.NamedExpr):
                    target(ch.target, _VAR)
                elif isinstance(ch, (ast.Import, ast.ImportFrom)):
                    for al in ch.names:
                        bind((al.asname or al.name).split(".")[0], _VAR)
                visit(ch)
        visit(fn)
        self.binds = binds

    def lookup(self, name):
        """-> ('expr', node) | ('var', defining Env) | ('free', None)"""
        env = self
        while env is not None:
            if name in env.binds:
                b = env.binds[name]
                if len(b) == 1 and b[0] is not _VAR:
                    return "expr", b[0], env
                return "var", None, env
            env = env.parent
        return "free", None, None

    def resolve(self, node, depth=10):
        env = self

        class R(ast.NodeTransformer):
            def visit_Name(self, n):
                if isinstance(n.ctx, ast.Load) and depth > 0:
                    kind, val, where = env.lookup(n.id)
                    if kind == "expr":
                        return where.resolve(val, depth - 1)
                return n
        import copy
        return R().visit(copy.deepcopy(node))

    def for_targets(self):
        out = set()
        for node in ast.walk(self.fn):
            if isinstance(node, (ast.For, ast.AsyncFor)):
                for n in ast.walk(node.target):
                    if isinstance(n, ast.Name):
                        out.add(n.id)
        return out


_NEG = {ast.Lt: ast.GtE, ast.GtE: ast.Lt, ast.Gt: ast.LtE, ast.LtE: ast.Gt, ast.Eq: ast.NotEq, ast.NotEq: ast.Eq}
_SWAP = {ast.Gt: ast.Lt, ast.GtE: ast.LtE}


def norm_test(node):
    """`not (a >= b)` -> `a < b`;  `b > a` -> `a < b`;  `not not x` -> x"""
    if isinstance(node, ast.UnaryOp) and isinstance(node.op, ast.Not):
        inner = norm_test(node.operand)
        if isinstance(inner, ast.UnaryOp) and isinstance(inner.op, ast.Not):
            return norm_test(inner.operand)
        if isinstance(inner, ast.Compare) and len(inner.ops) == 1 and type(inner.ops[0]) in _NEG:
            return norm_test(ast.Compare(left=inner.left, ops=[_NEG[type(inner.ops[0])]()], comparators=inner.comparators))
        return ast.UnaryOp(op=ast.Not(), operand=inner)
    if isinstance(node, ast.Compare) and len(node.ops) == 1 and type(node.ops[0]) in _SWAP:
        return ast.Compare(left=node.comparators[0], ops=[_SWAP[type(node.ops[0])]()], comparators=[node.left])
    return node


def conjuncts(node):
    if isinstance(node, ast.BoolOp) and isinstance(node.op, ast.And):
        return [c for v in node.values for c in conjuncts(v)]
    return [node]


def _u(node):
    return ast.unparse(ast.fix_missing_locations(node))


def _scopes(fn, parent=None):
    """Env of fn and of every nested function, keyed by the function node"""
    env = Env(fn, parent)
    out = {fn: env}
    def walk(node):
        for ch in ast.iter_child_nodes(node):
            if isinstance(ch, (ast.FunctionDef, ast.AsyncFunctionDef)):
                out.update(_scopes(ch, env))
            elif not isinstance(ch, ast.ClassDef):
                walk(ch)
    walk(fn)
    return out


def _owner(scopes, node):
    """innermost function of `scopes` that contains node"""
    best = None
    for fn in scopes:
        if any(n is node for n in ast.walk(fn)):
            if best is None or any(n is fn for n in ast.walk(best)):
                best = fn
    return best


def lexer_kwargs(repo):
    """-> dict of the constant keyword arguments at the get_lexer_by_name call in Syntax.highlight
    (also used by the correspondence harness to build the very same lexer)."""
    tree, _ = parse(repo, "rich/syntax.py")
    hl = find_func(find_class(tree, "Syntax").body, "highlight")
    calls = _calls(hl, "get_lexer_by_name")
    if len(calls) != 1:
        raise Untranslatable(f"Syntax.highlight: {len(calls)} get_lexer_by_name calls, expected 1")
    call = calls[0]
    scopes = _scopes(hl)
    env = scopes[_owner(scopes, call)]
    if len(call.args) != 1 or _u(env.resolve(call.args[0])) != "self.lexer_name":
        raise Untranslatable("get_lexer_by_name: positional arguments are not (self.lexer_name)")
    kw = {}
    for k in call.keywords:
        if k.arg not in ("stripnl", "ensurenl"):
            raise Untranslatable(f"get_lexer_by_name: keyword {k.arg!r} is outside the modelled options")
        v = literal(env.resolve(k.value), f"get_lexer_by_name {k.arg}")
        if not isinstance(v, bool):
            raise Untranslatable(f"get_lexer_by_name: {k.arg} is not a bool literal")
        kw[k.arg] = v
    return kw


def _skip_guard(repo):
    """the skip loop of the ranged path: the `while` (anywhere under Syntax.highlight) that pulls tokens
    with next(...).  Its test must be, after resolving single-assignment locals and normalising the
    comparison,  <counter> < <line_range parameter>[0] - 1  with a counter initialised to 0."""
    tree, _ = parse(repo, "rich/syntax.py")
    hl = find_func(find_class(tree, "Syntax").body, "highlight")
    if len(hl.args.args) < 3:
        raise Untranslatable("Syntax.highlight: no (self, code, line_range) signature")
    range_param = hl.args.args[2].arg
    scopes = _scopes(hl)
    loops = []
    for n in ast.walk(hl):
        if isinstance(n, ast.While):
            nx = [c for c in _calls(n, "next") if isinstance(c.func, ast.Name)]
            if nx:
                loops.append((n, nx))
    if len(loops) != 1:
        raise Untranslatable(f"Syntax.highlight: {len(loops)} while-loops calling next(), expected 1 (the skip loop)")
    loop, nexts = loops[0]
    env = scopes[_owner(scopes, loop)]
    test = norm_test(env.resolve(loop.test))
    ok = (isinstance(test, ast.Compare) and len(test.ops) == 1 and isinstance(test.ops[0], ast.Lt)
          and isinstance(test.left, ast.Name) and _u(test.comparators[0]) == f"{range_param}[0] - 1")
    if ok:
        kind, _v, where = env.lookup(test.left.id)
        inits = [b for b in (where.binds.get(test.left.id, []) if where else []) if b is not _VAR]
        ok = kind == "var" and len(inits) == 1 and isinstance(inits[0], ast.Constant) and inits[0].value == 0
    if not ok:
        raise Untranslatable(f"Syntax.highlight: skip loop test is not `<counter from 0> < {range_param}[0] - 1` "
                             f"(resolved: {_u(test)!r})")
    if len(nexts) != 1 or len(nexts[0].args) != 1 or nexts[0].keywords:
        raise Untranslatable("Syntax.highlight: skip loop does not contain exactly one next(tokens)")
    # guarded iff that call sits in the body of a `try` with an `except StopIteration: break`
    for node in ast.walk(loop):
        if isinstance(node, ast.Try):
            inside = any(c is nexts[0] for b in node.body for c in ast.walk(b))
            if inside:
                for h in node.handlers:
                    names = []
                    if h.type is not None:
                        names = [ast.unparse(e) for e in (h.type.elts if isinstance(h.type, ast.Tuple) else [h.type])]
                    if "StopIteration" in names:
                        if len(h.body) == 1 and isinstance(h.body[0], ast.Break):
                            return True
                        raise Untranslatable("Syntax.highlight: StopIteration handler of the skip loop is not a plain `break`")
                raise Untranslatable("Syntax.highlight: next(tokens) inside a try that does not catch StopIteration")
    return False


def _guides_guard(repo):
    """does __rich_console__ skip the indent-guide pass when no line is selected?  The pass is the `if`
    whose body calls .with_indent_guides(); its condition must be self.indent_guides and not
    <options>.ascii_only, optionally and-ed with the truth of the very line list that the body joins."""
    tree, _ = parse(repo, "rich/syntax.py")
    rc = find_func(find_class(tree, "Syntax").body, "__rich_console__")
    if len(rc.args.args) < 3:
        raise Untranslatable("Syntax.__rich_console__: no (self, console, options) signature")
    opts = rc.args.args[2].arg
    ifs = [n for n in ast.walk(rc) if isinstance(n, ast.If)
           and any(_calls(b, "with_indent_guides") for b in n.body)]
    if len(ifs) != 1:
        raise Untranslatable(f"Syntax.__rich_console__: {len(ifs)} `if` blocks calling with_indent_guides, expected 1")
    node = ifs[0]
    env = _scopes(rc)[rc]
    cs = [_u(norm_test(c)) for c in conjuncts(env.resolve(node.test))]
    need = ["self.indent_guides", f"not {opts}.ascii_only"]
    for n in need:
        if cs.count(n) != 1:
            raise Untranslatable(f"Syntax.__rich_console__: indent-guide condition lacks `{n}`: {cs!r}")
    rest = [c for c in cs if c not in need]
    if not rest:
        return False
    joins = [c for b in node.body for c in _calls(b, "join") if len(c.args) == 1]
    joined = {_u(env.resolve(c.args[0])) for c in joins}
    if len(rest) == 1 and len(joined) == 1:
        x = next(iter(joined))
        if rest[0] in (x, f"len({x}) > 0", f"0 < len({x})", f"len({x}) != 0", f"len({x})", f"{x} != []"):
            return True
    raise Untranslatable(f"Syntax.__rich_console__: unmodelled indent-guide condition {cs!r}")


def _init_defaults(repo):
    tree, _ = parse(repo, "rich/syntax.py")
    init = find_func(find_class(tree, "Syntax").body, "__init__")
    d = {}
    for a, v in zip(init.args.kwonlyargs, init.args.kw_defaults):
        if v is not None:
            try:
                d[a.arg] = ast.literal_eval(v)
            except Exception:
                d[a.arg] = ast.unparse(v)
    for want in ("start_line", "tab_size", "line_numbers", "word_wrap", "dedent"):
        if want not in d:
            raise Untranslatable(f"Syntax.__init__: no keyword-only default for {want}")
    return d


def _traceback_call(repo):
    tree, _ = parse(repo, "rich/traceback.py")
    rs = find_func(find_class(tree, "Traceback").body, "_render_stack")
    calls = _calls(rs, "Syntax")
    if len(calls) != 1:
        raise Untranslatable(f"Traceback._render_stack: {len(calls)} Syntax(...) calls, expected 1")
    call = calls[0]
    scopes = _scopes(rs)
    env = scopes[_owner(scopes, call)]
    # the frame variable: the loop variable X such that the code is obtained from X.filename
    if len(call.args) != 2:
        raise Untranslatable("Traceback Syntax call: not two positional arguments (code, lexer name)")
    a0, a1 = env.resolve(call.args[0]), env.resolve(call.args[1])
    fv = None
    if isinstance(a0, ast.Call) and len(a0.args) == 1 and not a0.keywords:
        x = a0.args[0]
        if isinstance(x, ast.Attribute) and x.attr == "filename" and isinstance(x.value, ast.Name):
            fv = x.value.id
    if fv is None or fv not in env.for_targets():
        raise Untranslatable("Traceback Syntax call: the code is not <read>(<frame loop variable>.filename)")
    ok1 = (isinstance(a1, ast.Call) and len(a1.args) == 2 and _u(a1.args[0]) == f"{fv}.filename"
           and _u(a1.args[1]) == _u(a0))
    if not ok1:
        raise Untranslatable("Traceback Syntax call: the lexer name is not <guess>(<frame>.filename, <code>)")
    kw = {k.arg: _u(env.resolve(k.value)) for k in call.keywords}
    known = {"theme", "line_numbers", "line_range", "highlight_lines", "word_wrap", "code_width",
             "indent_guides", "dedent"}
    extra = set(kw) - known
    if extra:
        raise Untranslatable(f"Traceback Syntax call: unmodelled keywords {sorted(extra)}")
    try:
        cw = int(kw["code_width"])
    except Exception:
        raise Untranslatable("Traceback Syntax call: code_width is not an int literal")
    return {
        "line_numbers": kw.get("line_numbers") == "True",
        "range_pm_extra": kw.get("line_range") == f"({fv}.lineno - self.extra_lines, {fv}.lineno + self.extra_lines)",
        "highlight_lineno": kw.get("highlight_lines") == "{%s.lineno}" % fv,
        "code_width": cw,
        "dedent_off": kw.get("dedent", "False") == "False",
        "word_wrap_from_self": kw.get("word_wrap") == "self.word_wrap",
    }


@generator("SyntaxFacts.v")
def gen_syntax_facts(repo):
    kw = lexer_kwargs(repo)
    guard = _skip_guard(repo)
    gguard = _guides_guard(repo)
    d = _init_defaults(repo)
    tb = _traceback_call(repo)
    for k in ("start_line", "tab_size"):
        if not isinstance(d[k], int) or isinstance(d[k], bool):
            raise Untranslatable(f"Syntax.__init__: default of {k} is not an int")
    for k in ("line_numbers", "word_wrap", "dedent"):
        if not isinstance(d[k], bool):
            raise Untranslatable(f"Syntax.__init__: default of {k} is not a bool")
    return (HEADER +
            "(* keyword arguments at get_lexer_by_name(self.lexer_name, ...) in Syntax.highlight;\n"
            "   None = not passed, Pygments' default applies (stripnl=True, ensurenl=True) *)\n"
            f"Definition lexer_kw_stripnl : option bool := {_opt_bool(kw.get('stripnl'))}.\n"
            f"Definition lexer_kw_ensurenl : option bool := {_opt_bool(kw.get('ensurenl'))}.\n"
            "(* is the next(tokens) of the skip loop in tokens_to_spans guarded by `except StopIteration: break`? *)\n"
            f"Definition skip_loop_guarded : bool := {_b(guard)}.\n"
            "(* is the indent-guide pass of __rich_console__ skipped when the line selection is empty? *)\n"
            f"Definition guides_skip_empty : bool := {_b(gguard)}.\n"
            "(* Syntax.__init__ keyword defaults *)\n"
            f"Definition syntax_default_start_line : Z := {zlit(d['start_line'])}.\n"
            f"Definition syntax_default_tab_size : Z := {zlit(d['tab_size'])}.\n"
            f"Definition syntax_default_line_numbers : bool := {_b(d['line_numbers'])}.\n"
            f"Definition syntax_default_word_wrap : bool := {_b(d['word_wrap'])}.\n"
            f"Definition syntax_default_dedent : bool := {_b(d['dedent'])}.\n"
            "(* the Syntax(...) call of Traceback._render_stack *)\n"
            f"Definition tb_line_numbers : bool := {_b(tb['line_numbers'])}.\n"
            f"Definition tb_range_is_lineno_pm_extra : bool := {_b(tb['range_pm_extra'])}.\n"
            f"Definition tb_highlight_is_lineno : bool := {_b(tb['highlight_lineno'])}.\n"
            f"Definition tb_code_width : Z := {zlit(tb['code_width'])}.\n"
            f"Definition tb_dedent_off : bool := {_b(tb['dedent_off'])}.\n"
            f"Definition tb_word_wrap_from_self : bool := {_b(tb['word_wrap_from_self'])}.\n")
