"""Tie 1 (T3, lock discipline) for C11: from the ASTs of rich/console.py, live.py, live_render.py,
progress.py, file_proxy.py extract, for the methods the concurrency model is about, the abstract
events in program order and emit them as Gallina data (coq/gen/ConsoleLock.v):

    Acq l / Rel l     from `with <x>._lock:` (a `with` releases on every exit, incl. exceptions;
                      a bare .acquire()/.release() is refused -- fail closed)
    Rd f / Wr f       reads / writes (assignment, del, mutating method call) of the declared
                      shared fields
    Local f           accesses of the thread-local fields (only emitted after checking that
                      ConsoleThreadLocals derives from threading.local and that Console._buffer /
                      _buffer_index are properties over self._thread_locals)
    Write             <x>.file.write(...)
    Call m            calls of the declared methods (receiver resolved syntactically);
                      `with self:` / `with console:` = Call Console.__enter__ ... Call Console.__exit__
    If c th el        a branch whose arms contain events, c = source text of the test
                      (tests declared constant on the modelled platform are resolved here)
    Loop c body       for/while whose body contains events, c = source text of the iterable / test

rich is never imported."""
import ast, sys

_m = sys.modules.get("__main__")
_run = _m if hasattr(_m, "GENERATORS") and hasattr(_m, "generator") else __import__("run")
generator, parse, find_class, find_func, Untranslatable = (
    _run.generator, _run.parse, _run.find_class, _run.find_func, _run.Untranslatable)

# (file, class, method) -> table key
TARGETS = [
    ("rich/console.py", "Console", m) for m in (
        "print", "log", "_enter_buffer", "_exit_buffer", "_check_buffer", "_render_buffer",
        "begin_capture", "end_capture", "push_render_hook", "pop_render_hook", "__enter__", "__exit__",
        "control", "line", "show_cursor", "export_text")
] + [
    ("rich/live.py", "Live", m) for m in ("start", "stop", "refresh", "update", "process_renderables")
] + [
    ("rich/live.py", "_RefreshThread", "run"),
    ("rich/live.py", "_LiveRender", "__rich_console__"),
    ("rich/live_render.py", "LiveRender", "position_cursor"),
    ("rich/live_render.py", "LiveRender", "restore_cursor"),
    ("rich/live_render.py", "LiveRender", "set_renderable"),
    ("rich/live_render.py", "LiveRender", "__rich_console__"),
    ("rich/progress.py", "Progress", "start"),
    ("rich/progress.py", "Progress", "stop"),
    ("rich/progress.py", "Progress", "refresh"),
    ("rich/progress.py", "Progress", "process_renderables"),
    ("rich/progress.py", "_RefreshThread", "run"),
    ("rich/file_proxy.py", "FileProxy", "write"),
    ("rich/file_proxy.py", "FileProxy", "flush"),
]
TABLE_METHODS = {(c, m) for _, c, m in TARGETS}
KEY_CLASS = {("rich/live.py", "_RefreshThread"): "LiveRefreshThread",
             ("rich/progress.py", "_RefreshThread"): "ProgressRefreshThread"}

# shared fields: attribute name -> owner shown in the table
SHARED = {"_record_buffer": "Console", "_render_hooks": "Console", "file": "Console",
          "_started": "Live", "_shape": "LiveRender", "renderable": "LiveRender"}
LOCALS = ("_buffer", "_buffer_index")
LOCKS = {"_lock", "_record_buffer_lock"}
MUTATORS = {"append", "extend", "pop", "clear", "insert", "remove"}
# method names whose calls are events (receiver must resolve)
CALLS = {m for _, _, m in TARGETS} | {"render", "_enable_redirect_io", "_disable_redirect_io"}
CALLS -= {"run", "write", "flush", "__rich_console__", "__enter__", "__exit__"}

# receiver (source text) -> class, per enclosing class
RECEIVERS = {
    "self.console": "Console", "console": "Console", "self._console": "Console",
    "self.__console": "Console", "self.live": "Live", "self._live": "Live",
    "self._live_render": "LiveRender", "self.progress": "Progress", "hook": "RenderHook",
}
SELF_CLASS = {"_LiveRender": "LiveRender", }   # inherited methods resolve to the base

# tests that are constant on the modelled platform/config (POSIX, no Jupyter, terminal console,
# record on, one positional object, default keyword arguments).  Anything else with events in an
# arm becomes an `If` the Coq side must give a valuation for.
STATIC = {
    "WINDOWS": False, "self.is_jupyter": False, "self.console.is_jupyter": False,
    "not self.console.is_jupyter": True, "not objects": False, "soft_wrap": False,
    "style is None": True, "style is not None": False, "crop": True, "log_locals": False,
    "self.record": True, "not self.is_dumb_terminal": True, "count": True,
    "self.is_terminal and (not self.legacy_windows)": True,
    "self.console.is_terminal": True,
    "self.console.is_terminal and (not self.console.is_dumb_terminal)": True,
    "self.ipy_widget is not None": False, "not self.disable": True, "text": True,
    "self.no_color and color_system": False, "styles": False,
    "self._redirect_stdout": True, "self._redirect_stderr": True,
    "not isinstance(text, str)": False, "lines": True, "buffer": True, "new_line": True,
}


def positive_test(test):
    """-> (source of the positive form, was it negated?)"""
    flipped = False
    while True:
        if isinstance(test, ast.UnaryOp) and isinstance(test.op, ast.Not):
            test, flipped = test.operand, not flipped
            continue
        if isinstance(test, ast.Compare) and len(test.ops) == 1 and isinstance(test.ops[0], (ast.IsNot, ast.NotEq)):
            op = ast.Is() if isinstance(test.ops[0], ast.IsNot) else ast.Eq()
            test = ast.Compare(left=test.left, ops=[op], comparators=test.comparators)
            flipped = not flipped
            continue
        return ast.unparse(test), flipped


def relevant(fn):
    """does this function mention anything the event table is about?"""
    for n in ast.walk(fn):
        if isinstance(n, ast.Attribute) and (n.attr in LOCKS or n.attr in SHARED or n.attr in LOCALS or n.attr in CALLS
                                             or n.attr in ("write", "_refresh_thread", "acquire", "release")):
            return True
        if isinstance(n, ast.With):
            return True
    return False


def q(s):
    return '"' + s.replace('"', '""') + '"'


class Extract:
    def __init__(self, cls, classes, fname):
        self.cls = cls
        self.classes = classes   # class name -> set of method names (same file)
        self.fname = fname
        self.jumps = 0
        self.early = None
        self.inlining = []
        self.cls_name = cls
        self.alias = {}          # local name -> ("call", key) | ("local", f) | ("shared-mut", f)

    # ---- helpers
    def owner_of_self(self):
        return SELF_CLASS.get(self.cls, self.cls)

    def recv_class(self, node):
        src = ast.unparse(node)
        if src == "self":
            return self.owner_of_self()
        return RECEIVERS.get(src)

    def lock_name(self, node):
        if isinstance(node, ast.Name) and self.alias.get(node.id, ("", ""))[0] == "lock":
            return self.alias[node.id][1]
        if isinstance(node, ast.Attribute) and node.attr in LOCKS:
            c = self.recv_class(node.value)
            if c is None:
                raise Untranslatable(f"{self.fname}:{node.lineno} lock on unknown receiver {ast.unparse(node)}")
            if c in ("LiveRefreshThread", "ProgressRefreshThread"):
                raise Untranslatable(f"{self.fname}:{node.lineno} thread object has no lock")
            return f"{c}.{node.attr}"
        return None

    # ---- expressions (evaluation order ~ source order)
    def expr(self, node, out):
        if node is None:
            return
        if isinstance(node, ast.Call):
            f = node.func
            # x.acquire()/release() outside `with` : refuse
            if isinstance(f, ast.Attribute) and f.attr in ("acquire", "release") and self.lock_name(f.value):
                raise Untranslatable(f"{self.fname}:{node.lineno} bare {f.attr}() on a lock")
            if isinstance(f, ast.Attribute) and f.attr in ("join", "stop", "start") and ast.unparse(f.value) == "self._refresh_thread":
                # thread life cycle of the auto-refresh thread: start() spawns it, stop() sets its done
                # flag, join() BLOCKS until it has finished
                owner = {"Live": "LiveRefreshThread", "Progress": "ProgressRefreshThread"}.get(self.cls)
                if owner is None:
                    raise Untranslatable(f"{self.fname}:{node.lineno} _refresh_thread.{f.attr}() outside Live/Progress")
                out.append(f"Call {q(owner + '.' + f.attr)}")
                return
            if isinstance(f, ast.Attribute) and f.attr == "write" and isinstance(f.value, ast.Attribute) and f.value.attr == "file":
                self.expr(f.value, out)
                for a in node.args:
                    self.expr(a, out)
                out.append("Write")
                return
            if isinstance(f, ast.Attribute) and f.attr in MUTATORS and isinstance(f.value, ast.Attribute):
                fld = f.value.attr
                if fld in SHARED and self.recv_class(f.value.value):
                    for a in node.args:
                        self.expr(a, out)
                    out.append(f"Wr {q(SHARED[fld] + '.' + fld)}")
                    return
            if isinstance(f, ast.Attribute) and f.attr in CALLS:
                c = self.recv_class(f.value)
                if c is None:
                    rsrc = ast.unparse(f.value)
                    if any(w in rsrc.lower() for w in ("console", "live", "progress", "hook")) and rsrc != "self.console.options":
                        raise Untranslatable(f"{self.fname}:{node.lineno} call {ast.unparse(f)}: receiver not resolvable")
                    # a same-named method of an unrelated object (self.options.update, style.render, ...)
                    self.expr(f.value, out)
                    for a in node.args:
                        self.expr(a, out)
                    for k in node.keywords:
                        self.expr(k.value, out)
                    return
                for a in node.args:
                    self.expr(a, out)
                for k in node.keywords:
                    self.expr(k.value, out)
                out.append(f"Call {q(c + '.' + f.attr)}")
                return
            if isinstance(f, ast.Name) and f.id in self.alias:
                kind, what = self.alias[f.id]
                for a in node.args:
                    self.expr(a, out)
                for k in node.keywords:
                    self.expr(k.value, out)
                if kind == "call":
                    out.append(f"Call {q(what)}")
                elif kind == "local":
                    out.append(f"Local {q(what)}")
                elif kind == "write":
                    out.append("Write")
                elif kind == "lock":
                    raise Untranslatable(f"{self.fname}:{node.lineno} call of a lock alias")
                return
            # a helper method of the same class that is not a table entry: its events are part of
            # this method's events (extracting a block into a private method changes nothing)
            if (isinstance(f, ast.Attribute) and isinstance(f.value, ast.Name) and f.value.id == "self"
                    and f.attr in self.classes.get("methods", {}) and f.attr not in CALLS
                    and (self.cls_name, f.attr) not in TABLE_METHODS):
                fn = self.classes["methods"][f.attr]
                for a in node.args:
                    self.expr(a, out)
                for k in node.keywords:
                    self.expr(k.value, out)
                if relevant(fn):
                    if f.attr in self.inlining or len(self.inlining) > 4:
                        raise Untranslatable(f"{self.fname}:{node.lineno} recursive helper {f.attr}")
                    self.inlining.append(f.attr)
                    saved_alias, self.alias = self.alias, {}
                    body = [b for b in fn.body if not (isinstance(b, ast.Expr) and isinstance(b.value, ast.Constant))]
                    out += self.block(body)
                    self.alias = saved_alias
                    self.inlining.pop()
                return
            # generic call
            self.expr(f, out)
            for a in node.args:
                self.expr(a, out)
            for k in node.keywords:
                self.expr(k.value, out)
            return
        if isinstance(node, ast.Attribute):
            if node.attr in LOCALS and self.recv_class(node.value) == "Console":
                out.append(f"Local {q(node.attr)}")
                return
            if node.attr == "_started" and self.recv_class(node.value) == "Progress":
                out.append(f"{'Rd' if isinstance(node.ctx, ast.Load) else 'Wr'} \"Progress._started\"")
                return
            if node.attr in SHARED:
                c = self.recv_class(node.value)
                if c is not None and (c == SHARED[node.attr] or (c, node.attr) in (("Live", "renderable"),)):
                    kind = "Rd" if isinstance(node.ctx, ast.Load) else "Wr"
                    out.append(f"{kind} {q(SHARED[node.attr] + '.' + node.attr)}")
                    return
            self.expr(node.value, out)
            return
        if isinstance(node, (ast.Lambda, ast.FunctionDef)):
            raise Untranslatable(f"{self.fname}:{node.lineno} nested function")
        for child in ast.iter_child_nodes(node):
            if isinstance(child, ast.expr):
                self.expr(child, out)
            elif isinstance(child, (ast.comprehension,)):
                self.expr(child.iter, out)
                for i in child.ifs:
                    self.expr(i, out)
            elif isinstance(child, ast.keyword):
                self.expr(child.value, out)

    # ---- statements
    def block(self, stmts):
        out = []
        i = 0
        while i < len(stmts):
            s = stmts[i]
            rest = stmts[i + 1:]
            if isinstance(s, ast.If) and self._ends_in_return(s.body) and rest:
                # early return: the remainder of the block is the else arm
                src = ast.unparse(s.test)
                if src in STATIC:
                    self.expr(s.test, out)
                    out += self.block(self._strip_return(s.body) if STATIC[src] else list(s.orelse) + rest)
                    return out
                th = self.block(self._strip_return(s.body))
                el = self.block(list(s.orelse) + rest)
                out += self.branch(s.test, th, el)
                self.early = s.test
                return out
            if isinstance(s, ast.With):
                self.early = None
                out += self.stmt(s)
                if self.early is not None and rest:
                    # `with lock: if c: return` -- what follows the with runs only when c was false
                    test = self.early
                    self.early = None
                    after = self.block(rest)
                    if after:
                        pos, flipped = positive_test(test)   # returned when `test` was true
                        th, el = ([], after) if not flipped else (after, [])
                        out.append(f"If {q(pos)} [{'; '.join(th)}] [{'; '.join(el)}]")
                    return out
                i += 1
                continue
            out += self.stmt(s)
            if isinstance(s, ast.Return) and rest:
                raise Untranslatable(f"{self.fname}:{s.lineno} code after return")
            i += 1
        return out

    @staticmethod
    def _ends_in_return(body):
        return bool(body) and isinstance(body[-1], ast.Return)

    @staticmethod
    def _strip_return(body):
        last = body[-1]
        if last.value is None:
            return body[:-1]
        return body[:-1] + [ast.Expr(value=last.value, lineno=last.lineno, col_offset=0)]

    def branch(self, test, th, el):
        pre = []
        self.expr(test, pre)
        if not th and not el:
            return pre
        src = ast.unparse(test)
        if src in STATIC:
            return pre + (th if STATIC[src] else el)
        # normal form of the test: `not X`, `a is not b`, `a != b` become the positive test with the
        # arms swapped, so that swapping if/else (or negating the condition) does not change the table
        pos, flipped = positive_test(test)
        if pos in STATIC:
            val = STATIC[pos] != flipped
            return pre + (th if val else el)
        if flipped:
            th, el = el, th
        return pre + [f"If {q(pos)} [{'; '.join(th)}] [{'; '.join(el)}]"]

    def stmt(self, s):
        out = []
        if isinstance(s, ast.With):
            closers = []
            for item in s.items:
                ln = self.lock_name(item.context_expr)
                if ln:
                    out.append(f"Acq {q(ln)}")
                    closers.append(f"Rel {q(ln)}")
                elif self.recv_class(item.context_expr) == "Console":
                    out.append('Call "Console.__enter__"')
                    closers.append('Call "Console.__exit__"')
                else:
                    inner = []
                    self.expr(item.context_expr, inner)
                    if inner:
                        raise Untranslatable(f"{self.fname}:{s.lineno} with over {ast.unparse(item.context_expr)}")
            out += self.block(s.body)
            out += reversed(closers)
            return out
        if isinstance(s, ast.If):
            src = ast.unparse(s.test)
            if src in STATIC:   # the dead arm is not translated at all
                pre = []
                self.expr(s.test, pre)
                return pre + self.block(s.body if STATIC[src] else s.orelse)
            return self.branch(s.test, self.block(s.body), self.block(s.orelse))
        if isinstance(s, (ast.For, ast.While)):
            head = []
            label = ast.unparse(s.iter if isinstance(s, ast.For) else s.test)
            self.expr(s.iter if isinstance(s, ast.For) else s.test, head)
            saved, self.jumps = self.jumps, 0
            body = self.block(s.body)
            if body and self.jumps:
                raise Untranslatable(f"{self.fname}:{s.lineno} continue/break in a loop whose body has events")
            self.jumps = saved
            if s.orelse:
                raise Untranslatable(f"{self.fname}:{s.lineno} loop else")
            if not body:
                return head
            return head + [f"Loop {q(label)} [{'; '.join(body)}]"]
        if isinstance(s, ast.Try):
            body = self.block(s.body)
            for h in s.handlers:
                hb = self.block(h.body)
                if hb:   # the error path is a dynamic branch taken after (part of) the body
                    label = "except " + (ast.unparse(h.type) if h.type is not None else "")
                    body = body + [f"If {q(label)} [{'; '.join(hb)}] []"]
            return body + self.block(s.orelse) + self.block(s.finalbody)
        if isinstance(s, ast.Assign):
            self.expr(s.value, out)
            # alias idioms:  render = self.render ; buffer_extend = self._buffer.extend
            if len(s.targets) == 1 and isinstance(s.targets[0], ast.Name) and isinstance(s.value, ast.Attribute):
                v = s.value
                if v.attr in CALLS and self.recv_class(v.value):
                    self.alias[s.targets[0].id] = ("call", f"{self.recv_class(v.value)}.{v.attr}")
                elif v.attr in MUTATORS and isinstance(v.value, ast.Attribute) and v.value.attr in LOCALS:
                    self.alias[s.targets[0].id] = ("local", v.value.attr)
                elif v.attr == "write" and isinstance(v.value, ast.Attribute) and v.value.attr == "file":
                    self.alias[s.targets[0].id] = ("write", None)     # write = self.file.write
                elif v.attr in LOCKS and self.lock_name(v):
                    self.alias[s.targets[0].id] = ("lock", self.lock_name(v))   # lock = self._lock
            for t in s.targets:
                self.target(t, out)
            return out
        if isinstance(s, ast.AugAssign):
            self.expr(s.value, out)
            self.target(s.target, out)
            return out
        if isinstance(s, ast.AnnAssign):
            self.expr(s.value, out)
            self.target(s.target, out)
            return out
        if isinstance(s, ast.Delete):
            for t in s.targets:
                self.target(t, out)
            return out
        if isinstance(s, (ast.Expr, ast.Return)):
            self.expr(s.value, out)
            return out
        if isinstance(s, ast.Raise):
            self.expr(s.exc, out)
            return out
        if isinstance(s, ast.Assert):
            self.expr(s.test, out)
            return out
        if isinstance(s, (ast.Pass, ast.Import, ast.ImportFrom)):
            return out
        if isinstance(s, (ast.Continue, ast.Break)):
            self.jumps += 1     # judged by the enclosing loop
            return out
        raise Untranslatable(f"{self.fname}:{s.lineno} statement {type(s).__name__}")

    def target(self, t, out):
        if isinstance(t, ast.Attribute):
            if t.attr in LOCALS and self.recv_class(t.value) == "Console":
                out.append(f"Local {q(t.attr)}")
            elif t.attr == "_started" and self.recv_class(t.value) == "Progress":
                out.append('Wr "Progress._started"')
            elif t.attr in SHARED and self.recv_class(t.value) in (SHARED[t.attr], "Live"):
                out.append(f"Wr {q(SHARED[t.attr] + '.' + t.attr)}")
        elif isinstance(t, ast.Subscript):
            v = t.value
            if isinstance(v, ast.Attribute) and v.attr in LOCALS and self.recv_class(v.value) == "Console":
                out.append(f"Local {q(v.attr)}")
            elif isinstance(v, ast.Attribute) and v.attr in SHARED and self.recv_class(v.value):
                out.append(f"Wr {q(SHARED[v.attr] + '.' + v.attr)}")
            else:
                self.expr(v, out)
        elif isinstance(t, (ast.Tuple, ast.List)):
            for e in t.elts:
                self.target(e, out)


def check_thread_locals(tree):
    cls = find_class(tree, "ConsoleThreadLocals")
    if not any(ast.unparse(b) == "threading.local" for b in cls.bases):
        raise Untranslatable("ConsoleThreadLocals no longer derives from threading.local")
    fields = {n.target.id for n in cls.body if isinstance(n, ast.AnnAssign) and isinstance(n.target, ast.Name)}
    if not {"buffer", "buffer_index"} <= fields:
        raise Untranslatable("ConsoleThreadLocals lacks buffer / buffer_index")
    con = find_class(tree, "Console")
    want = {"_buffer": "return self._thread_locals.buffer", "_buffer_index": "return self._thread_locals.buffer_index"}
    seen = set()
    for n in con.body:
        if isinstance(n, ast.FunctionDef) and n.name in want:
            decos = [ast.unparse(d) for d in n.decorator_list]
            body = [b for b in n.body if not (isinstance(b, ast.Expr) and isinstance(b.value, ast.Constant))]
            if "property" in decos:
                if len(body) != 1 or ast.unparse(body[0]) != want[n.name]:
                    raise Untranslatable(f"Console.{n.name} is no longer a view of the thread-local storage")
                seen.add(n.name)
            elif any(d.endswith(".setter") for d in decos):
                if len(body) != 1 or ast.unparse(body[0]) != "self._thread_locals.buffer_index = value":
                    raise Untranslatable(f"Console.{n.name} setter does not write the thread-local storage")
    if seen != set(want):
        raise Untranslatable("Console._buffer / _buffer_index properties not found")
    # the locks must be re-entrant
    init = find_func(con.body, "__init__")
    src = ast.unparse(init)
    for l in ("self._lock = threading.RLock()", "self._record_buffer_lock = threading.RLock()"):
        if l not in src:
            raise Untranslatable(f"Console.__init__: `{l}` not found")


@generator("ConsoleLock.v")
def gen_console_lock(repo):
    trees = {}
    rows = []
    for fname, cls, meth in TARGETS:
        if fname not in trees:
            trees[fname] = parse(repo, fname)[0]
        tree = trees[fname]
        cnode = find_class(tree, cls)
        fn = find_func(cnode.body, meth)
        classes = {"methods": {n.name: n for n in cnode.body if isinstance(n, ast.FunctionDef)}}
        for base in cnode.bases:      # inherited helpers (same file)
            try:
                bnode = find_class(tree, ast.unparse(base))
                for n in bnode.body:
                    if isinstance(n, ast.FunctionDef):
                        classes["methods"].setdefault(n.name, n)
            except Untranslatable:
                pass
        key_cls = KEY_CLASS.get((fname, cls), cls)
        ex = Extract(key_cls, classes, fname)
        ex.cls_name = cls
        if key_cls == "LiveRefreshThread":
            ex.recv_class = lambda node, _o=ex.recv_class: ("LiveRefreshThread" if ast.unparse(node) == "self" else _o(node))
        body = [b for b in fn.body if not (isinstance(b, ast.Expr) and isinstance(b.value, ast.Constant))]
        evs = ex.block(body)
        rows.append(f"  ({q(key_cls + '.' + meth)},\n    [{'; '.join(evs)}])")
    check_thread_locals(trees["rich/console.py"])
    live_init = ast.unparse(find_func(find_class(trees["rich/live.py"], "Live").body, "__init__"))
    if "self._lock = RLock()" not in live_init:
        raise Untranslatable("Live.__init__: `self._lock = RLock()` not found")
    head = ("(* GENERATED by tools/translate/t_conc.py from /repo -- do not edit *)\n"
            "From Coq Require Import String List.\nImport ListNotations.\nOpen Scope string_scope.\n\n"
            "Inductive ev : Type :=\n| Acq (l : string) | Rel (l : string) | Rd (f : string) | Wr (f : string)\n"
            "| Local (f : string) | Write | Call (m : string)\n"
            "| If (c : string) (th el : list ev) | Loop (c : string) (body : list ev).\n\n"
            "(* checked on the AST: ConsoleThreadLocals(threading.local) holds buffer/buffer_index and\n"
            "   Console._buffer/_buffer_index are properties over it; all three locks are RLocks *)\n"
            "Definition thread_local_fields : list string := [\"_buffer\"; \"_buffer_index\"].\n"
            "Definition reentrant_locks : list string := [\"Console._lock\"; \"Console._record_buffer_lock\"; \"Live._lock\"].\n\n"
            "Definition lock_table : list (string * list ev) := [\n")
    return head + ";\n".join(rows) + "\n].\n"
