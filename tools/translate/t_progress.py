"""T3/T1 facts for C12 (rich/progress.py), emitted into coq/gen/ProgressLock.v.

For `advance`, `update`, `reset`, `start_task`, `stop_task`, `remove_task`, `add_task` the method body
is walked in program (evaluation) order and flattened into a list of abstract events:

    Clock            self.get_time()
    Acq / Rel        entering / leaving `with self._lock:`
    Rd f / Wr f      load / store of a shared field (Task.<f>, Progress._tasks)
    PopOld / PopCap  the two `popleft()` loops (by timestamp, by length)
    Append           _progress.append(ProgressSample(current_time, update_completed))
    Clear            task._reset()'s _progress.clear()   (followed by Wr finished_time)
    Elapsed          the property task.elapsed (reads start/stop, may read the clock)
    Refresh          self.refresh()
    Call             another locking method of self (start_task from add_task)

Branches and loops are flattened (test events, then body, then orelse): the list over-approximates
every path, which is what the lock-discipline check (`wf_b`) and the position of the clock read need.
Also emitted: the sample cap literal (must be the same in `advance` and `update`), whether the
sample append is conditional, and the guard / clamp constants of Task.percentage.
Fail closed: anything outside the recognised shapes raises Untranslatable.
"""
import ast, sys
_m = sys.modules.get("__main__")
_run = _m if hasattr(_m, "GENERATORS") and hasattr(_m, "generator") else __import__("run")
generator, parse, find_class, find_func = _run.generator, _run.parse, _run.find_class, _run.find_func
Untranslatable, HEADER, zlit = _run.Untranslatable, _run.HEADER, _run.zlit

FIELDS = {
    "_tasks": 0, "completed": 1, "total": 2, "start_time": 3, "stop_time": 4, "finished_time": 5,
    "_progress": 6, "visible": 7, "description": 8, "fields": 9, "_task_index": 10,
}
FIELD_NAMES = {v: k for k, v in FIELDS.items()}
IMMUTABLE_SELF = {"speed_estimate_period", "get_time", "refresh", "_lock", "advance", "start_task", "console"}
PURE_FUNCS = {"len", "ProgressSample", "TaskID", "int", "Task"}
METHODS = ["advance", "update", "reset", "start_task", "stop_task", "remove_task", "add_task"]


class EvList(list):
    """event list that also feeds the walker's richer `xev` stream"""

    def __init__(self, walker):
        super().__init__()
        self.walker = walker

    def append(self, x):
        super().append(x)
        self.walker.xemit(x)

    def __iadd__(self, xs):
        for x in xs:
            self.append(x)
        return self


GUARD_ARGS = {"total": "G_total", "completed": "G_completed", "advance": "G_advance"}


class Walker:
    def __init__(self, fname):
        self.fname = fname
        self.ev = EvList(self)
        self.xev = []
        self.guards = []         # stack: G_total | G_completed | G_advance | G_other
        self.wr_ctx = (None, None)
        self.task_names = set()
        self.sample_names = set()
        self.popleft_names = set()
        self.loop_kind = []      # stack of 'old' | 'cap'
        self.cap = None
        self.append_conditional = None
        self.cond_depth = 0

    def fail(self, node, why):
        raise Untranslatable(f"progress.{self.fname}:{getattr(node, 'lineno', '?')} {why}")

    def xemit(self, x):
        """the `xev` stream: the writes to task.completed are told apart (`+= advance` vs `= completed`)
        and carry the `<arg> is not None` guard they sit under; everything else is XOther / XLocal"""
        simple = {"Clock": "XClock", "Acq": "XAcq", "Rel": "XRel", "Refresh": "XLocal", "Call": "XLocal"}
        if x in simple:
            self.xev.append(simple[x])
        elif x == "Rd %d" % FIELDS["completed"]:
            self.xev.append("XRdC")
        elif x == "Wr %d" % FIELDS["completed"]:
            kind, val = self.wr_ctx
            if "G_other" in self.guards or len(self.guards) > 1:
                raise Untranslatable(f"progress.{self.fname}: write to task.completed under an unrecognised condition")
            g = self.guards[0] if self.guards else "G_always"
            if kind == "add" and val == "advance":
                self.xev.append(f"XAddC {g}")
            elif kind == "set" and val == "completed":
                self.xev.append(f"XSetC {g}")
            else:
                raise Untranslatable(f"progress.{self.fname}: write to task.completed of an unrecognised value")
        else:
            self.xev.append("XOther")

    def guard_of(self, test):
        if (isinstance(test, ast.Compare) and isinstance(test.left, ast.Name) and len(test.ops) == 1
                and isinstance(test.ops[0], ast.IsNot) and isinstance(test.comparators[0], ast.Constant)
                and test.comparators[0].value is None and test.left.id in GUARD_ARGS):
            return GUARD_ARGS[test.left.id]
        return "G_other"

    # ------------------------------------------------------------- expressions
    def is_self_attr(self, node, name=None):
        return (isinstance(node, ast.Attribute) and isinstance(node.value, ast.Name) and node.value.id == "self"
                and (name is None or node.attr == name))

    def expr(self, e):
        if e is None or isinstance(e, (ast.Constant,)):
            return
        if isinstance(e, ast.Name):
            if e.id in self.sample_names:
                self.ev.append("Rd %d" % FIELDS["_progress"])
            return
        if isinstance(e, ast.Attribute):
            if self.is_self_attr(e):
                if e.attr in ("_tasks", "_task_index"):
                    self.ev.append("Rd %d" % FIELDS[e.attr])
                elif e.attr in IMMUTABLE_SELF:
                    pass
                else:
                    self.fail(e, f"unknown attribute self.{e.attr}")
                return
            if isinstance(e.value, ast.Name) and e.value.id in self.task_names:
                if e.attr == "elapsed":
                    self.ev.append("Elapsed")
                elif e.attr in FIELDS:
                    self.ev.append("Rd %d" % FIELDS[e.attr])
                else:
                    self.fail(e, f"unknown Task attribute {e.attr}")
                return
            if e.attr == "timestamp":     # _progress[0].timestamp
                self.expr(e.value)
                return
            self.fail(e, "attribute " + ast.dump(e)[:80])
        if isinstance(e, ast.Subscript):
            self.expr(e.value)
            self.expr(e.slice)
            return
        if isinstance(e, (ast.BinOp,)):
            self.expr(e.left)
            self.expr(e.right)
            return
        if isinstance(e, ast.UnaryOp):
            self.expr(e.operand)
            return
        if isinstance(e, ast.BoolOp):
            for v in e.values:
                self.expr(v)
            return
        if isinstance(e, ast.Compare):
            self.expr(e.left)
            for c in e.comparators:
                self.expr(c)
            return
        if isinstance(e, ast.IfExp):
            self.expr(e.test)
            self.expr(e.body)
            self.expr(e.orelse)
            return
        if isinstance(e, ast.Call):
            return self.call(e)
        self.fail(e, "expression " + type(e).__name__)

    def call(self, e):
        f = e.func
        args = list(e.args) + [k.value for k in e.keywords]
        if self.is_self_attr(f, "get_time"):
            if args:
                self.fail(e, "get_time with arguments")
            self.ev.append("Clock")
            return
        if self.is_self_attr(f, "refresh"):
            self.ev.append("Refresh")
            return
        if self.is_self_attr(f, "start_task"):
            for a in args:
                self.expr(a)
            self.ev.append("Call")
            return
        if isinstance(f, ast.Name) and f.id in self.popleft_names:
            if not self.loop_kind:
                self.fail(e, "popleft outside a recognised loop")
            self.ev.append("PopOld" if self.loop_kind[-1] == "old" else "PopCap")
            return
        if isinstance(f, ast.Name) and f.id in PURE_FUNCS:
            for a in args:
                self.expr(a)
            return
        if isinstance(f, ast.Attribute) and isinstance(f.value, ast.Name):
            base, meth = f.value.id, f.attr
            if base in self.task_names and meth == "_reset" and not args:
                self.ev += ["Clear", "Wr %d" % FIELDS["finished_time"]]
                return
            if base in self.sample_names and meth == "append":
                ok = (len(e.args) == 1 and isinstance(e.args[0], ast.Call) and isinstance(e.args[0].func, ast.Name)
                      and e.args[0].func.id == "ProgressSample"
                      and [getattr(a, "id", None) for a in e.args[0].args] == ["current_time", "update_completed"])
                if not ok:
                    self.fail(e, "append of something other than ProgressSample(current_time, update_completed)")
                self.ev.append("Append")
                if self.append_conditional is not None:
                    self.fail(e, "more than one sample append")
                self.append_conditional = self.cond_depth > 0
                return
            if base in self.sample_names and meth == "popleft":
                if not self.loop_kind:
                    self.fail(e, "popleft outside a recognised loop")
                self.ev.append("PopOld" if self.loop_kind[-1] == "old" else "PopCap")
                return
        if (isinstance(f, ast.Attribute) and f.attr == "update" and isinstance(f.value, ast.Attribute)
                and isinstance(f.value.value, ast.Name) and f.value.value.id in self.task_names
                and f.value.attr == "fields"):
            self.ev += ["Rd %d" % FIELDS["fields"], "Wr %d" % FIELDS["fields"]]
            return
        self.fail(e, "call " + ast.dump(f)[:80])

    # ------------------------------------------------------------- statements
    def store(self, t):
        if isinstance(t, ast.Name):
            return
        if isinstance(t, ast.Attribute) and isinstance(t.value, ast.Name) and t.value.id in self.task_names:
            if t.attr not in FIELDS:
                self.fail(t, f"store to unknown Task attribute {t.attr}")
            self.ev.append("Wr %d" % FIELDS[t.attr])
            return
        if self.is_self_attr(t) and t.attr in ("_task_index",):
            self.ev.append("Wr %d" % FIELDS[t.attr])
            return
        if isinstance(t, ast.Subscript) and self.is_self_attr(t.value, "_tasks"):
            self.expr(t.slice)
            self.ev.append("Wr %d" % FIELDS["_tasks"])
            return
        self.fail(t, "store target " + ast.dump(t)[:80])

    def stmts(self, body):
        for s in body:
            self.stmt(s)

    def stmt(self, s):
        if isinstance(s, ast.Expr):
            if isinstance(s.value, ast.Constant):
                return
            return self.expr(s.value)
        if isinstance(s, ast.Assign):
            if len(s.targets) != 1:
                self.fail(s, "multiple assignment")
            t, v = s.targets[0], s.value
            if isinstance(t, ast.Name):
                # aliases
                if (isinstance(v, ast.Subscript) and self.is_self_attr(v.value, "_tasks")):
                    self.task_names.add(t.id)
                elif isinstance(v, ast.Call) and isinstance(v.func, ast.Name) and v.func.id == "Task":
                    self.task_names.add(t.id)
                elif (isinstance(v, ast.Attribute) and isinstance(v.value, ast.Name)
                      and v.value.id in self.task_names and v.attr == "_progress"):
                    self.ev.append("Rd %d" % FIELDS["_progress"])
                    self.sample_names.add(t.id)
                    return
                elif (isinstance(v, ast.Attribute) and isinstance(v.value, ast.Name)
                      and v.value.id in self.sample_names and v.attr == "popleft"):
                    self.popleft_names.add(t.id)
                    return
                elif t.id in self.task_names | self.sample_names | self.popleft_names:
                    self.fail(s, "alias rebound")
            self.expr(v)
            self.wr_ctx = ("set", v.id if isinstance(v, ast.Name) else None)
            self.store(t)
            return
        if isinstance(s, ast.AugAssign):
            t = s.target
            if isinstance(t, ast.Attribute) and isinstance(t.value, ast.Name) and t.value.id in self.task_names:
                self.ev.append("Rd %d" % FIELDS[t.attr])
                self.expr(s.value)
                self.wr_ctx = ("add", s.value.id if isinstance(s.op, ast.Add) and isinstance(s.value, ast.Name) else None)
                self.ev.append("Wr %d" % FIELDS[t.attr])
                return
            self.fail(s, "augmented assignment to " + ast.dump(t)[:60])
        if isinstance(s, ast.If):
            self.expr(s.test)
            self.cond_depth += 1
            self.guards.append(self.guard_of(s.test))
            self.stmts(s.body)
            self.guards[-1] = "G_other"
            self.stmts(s.orelse)
            self.guards.pop()
            self.cond_depth -= 1
            return
        if isinstance(s, ast.While):
            src = ast.dump(s.test)
            if "attr='timestamp'" in src:
                kind = "old"
            elif "id='len'" in src:
                kind = "cap"
                consts = [n.value for n in ast.walk(s.test) if isinstance(n, ast.Constant)]
                if len(consts) != 1 or not isinstance(consts[0], int) or not isinstance(s.test, ast.Compare) \
                        or not isinstance(s.test.ops[0], ast.Gt):
                    self.fail(s, "cap loop is not `len(_progress) > <int>`")
                if self.cap not in (None, consts[0]):
                    self.fail(s, "two different sample caps")
                self.cap = consts[0]
            else:
                self.fail(s, "unrecognised while loop")
            self.expr(s.test)
            self.loop_kind.append(kind)
            self.cond_depth += 1
            self.guards.append("G_other")
            self.stmts(s.body)
            self.guards.pop()
            self.cond_depth -= 1
            self.loop_kind.pop()
            if s.orelse:
                self.fail(s, "while/else")
            return
        if isinstance(s, ast.With):
            if len(s.items) != 1 or not self.is_self_attr(s.items[0].context_expr, "_lock") \
                    or s.items[0].optional_vars is not None:
                self.fail(s, "with-statement other than `with self._lock:`")
            self.ev.append("Acq")
            self.stmts(s.body)
            self.ev.append("Rel")
            return
        if isinstance(s, ast.Return):
            self.expr(s.value)
            return
        if isinstance(s, ast.Try):
            if s.handlers or s.orelse:
                self.fail(s, "try with handlers")
            self.stmts(s.body)
            self.stmts(s.finalbody)
            return
        if isinstance(s, ast.Delete):
            for t in s.targets:
                if isinstance(t, ast.Subscript) and self.is_self_attr(t.value, "_tasks"):
                    self.expr(t.slice)
                    self.ev.append("Wr %d" % FIELDS["_tasks"])
                else:
                    self.fail(s, "del of something else")
            return
        self.fail(s, "statement " + type(s).__name__)


def percentage_facts(task_cls):
    """Task.percentage: `if not self.total: return <z>`; clamp `min(<hi>, max(<lo>, completed))`;
    completed = (self.completed / self.total) * <factor>"""
    fn = find_func(task_cls.body, "percentage")
    body = [s for s in fn.body if not (isinstance(s, ast.Expr) and isinstance(s.value, ast.Constant))]
    try:
        g, a1, a2, r = body
        assert isinstance(g, ast.If) and ast.unparse(g.test) == "not self.total"
        zero = g.body[0].value.value
        assert ast.unparse(a1.value.left) == "self.completed / self.total" and isinstance(a1.value.op, ast.Mult)
        factor = a1.value.right.value
        c = a2.value
        assert c.func.id == "min" and c.args[1].func.id == "max" and ast.unparse(c.args[1].args[1]) == "completed"
        hi = c.args[0].value
        lo = c.args[1].args[0].value
        assert ast.unparse(r.value) == "completed"
    except Exception as e:
        raise Untranslatable(f"Task.percentage: unexpected shape ({type(e).__name__})")
    vals = [zero, factor, hi, lo]
    if not all(isinstance(v, (int, float)) and float(v).is_integer() for v in vals):
        raise Untranslatable("Task.percentage: non-integral constants")
    return [int(v) for v in vals]


def speed_facts(task_cls):
    """Task.speed uses iter()/next() over the deque, outside the T2 subset.  Its shape is pinned here
    instead: the statement sequence must be exactly the one the hand model `speed` was written for --
    guards (not started / no samples / zero time span -> None), time span = last - first timestamp,
    sum of `.completed` over the samples after skipping SPEED_SKIP of them, quotient.  Emits SPEED_SKIP."""
    fn = find_func(task_cls.body, "speed")
    body = [s for s in fn.body if not (isinstance(s, ast.Expr) and isinstance(s.value, ast.Constant))]
    src = [ast.unparse(s) for s in body]
    skips = [x for x in src if x == "next(iter_progress)"]
    rest = [x for x in src if x != "next(iter_progress)"]
    want = ["if self.start_time is None:\n    return None",
            "progress = self._progress",
            "if not progress:\n    return None",
            "total_time = progress[-1].timestamp - progress[0].timestamp",
            "if total_time == 0:\n    return None",
            "iter_progress = iter(progress)",
            "total_completed = sum((sample.completed for sample in iter_progress))",
            "speed = total_completed / total_time",
            "return speed"]
    if rest != want:
        diff = [a for a, b in zip(rest, want) if a != b][:1] or ["statement count"]
        raise Untranslatable("Task.speed: unexpected shape at: " + diff[0][:60])
    i = src.index("iter_progress = iter(progress)")
    j = src.index("total_completed = sum((sample.completed for sample in iter_progress))")
    if any(k < i or k > j for k, x in enumerate(src) if x == "next(iter_progress)"):
        raise Untranslatable("Task.speed: next() outside the iterator's life")
    return len(skips)


@generator("ProgressLock.v")
def gen_progress_lock(repo):
    tree, _ = parse(repo, "rich/progress.py")
    cls = find_class(tree, "Progress")
    out = [HEADER]
    out.append("Inductive ev : Type :=\n| Clock | Acq | Rel | Rd (f : Z) | Wr (f : Z)\n"
               "| PopOld | PopCap | Append | Clear | Elapsed | Refresh | Call.\n\n")
    out.append("(* finer vocabulary for advance / update / reset: the writes to task.completed told apart, with\n"
               "   the `<argument> is not None` test they sit under *)\n"
               "Inductive guard : Type := G_always | G_total | G_completed | G_advance.\n"
               "Inductive xev : Type :=\n| XClock | XAcq | XRel | XRdC | XAddC (g : guard) | XSetC (g : guard) | XOther | XLocal.\n\n")
    for name, code in sorted(FIELDS.items(), key=lambda kv: kv[1]):
        out.append(f"Definition F_{name.strip('_')} : Z := {code}.\n")
    out.append("\n")
    cap = None
    for m in METHODS:
        w = Walker(m)
        fn = find_func(cls.body, m)
        w.stmts(fn.body)
        if w.cap is not None:
            if cap not in (None, w.cap):
                raise Untranslatable("advance and update use different sample caps")
            cap = w.cap
        body = "; ".join(w.ev)
        out.append(f"Definition {m}_events : list ev :=\n  [{body}].\n")
        if m in ("advance", "update", "reset"):
            out.append(f"Definition {m}_xevents : list xev :=\n  [{'; '.join(w.xev)}].\n")
        if m in ("advance", "update"):
            if w.append_conditional is None:
                raise Untranslatable(f"{m}: no sample append found")
            out.append(f"Definition {m}_append_conditional : bool := {'true' if w.append_conditional else 'false'}.\n")
        out.append("\n")
    if cap is None:
        raise Untranslatable("no sample cap found")
    out.append(f"Definition MAX_SAMPLES : Z := {zlit(cap)}.\n")
    out.append(f"(* Task.speed: shape checked against the hand model; samples skipped before the sum *)\n"
               f"Definition SPEED_SKIP : Z := {zlit(speed_facts(find_class(tree, 'Task')))}.\n")
    zero, factor, hi, lo = percentage_facts(find_class(tree, "Task"))
    out.append(f"Definition PCT_WHEN_NO_TOTAL : Z := {zlit(zero)}.\nDefinition PCT_FACTOR : Z := {zlit(factor)}.\n"
               f"Definition PCT_HI : Z := {zlit(hi)}.\nDefinition PCT_LO : Z := {zlit(lo)}.\n")
    return "".join(out)
