"""T1 for C07 (also used by C01/C08): every `NAME: Box = Box(<literal>, ...)` of rich/box.py as
Gallina data (the 8 lines x 4 code points Box.__init__ unpacks), plus a T3-style fact about
Table._render: does the `leading` branch emit the blank row once per line (repaired) or as one
string multiplied by `leading` (as found in 9.10.0, DESIGN D11)?  Fail closed."""
import ast, sys

_m = sys.modules.get("__main__")
_run = _m if hasattr(_m, "GENERATORS") and hasattr(_m, "generator") else __import__("run")
generator, parse, literal, find_class, find_func = _run.generator, _run.parse, _run.literal, _run.find_class, _run.find_func
Untranslatable, HEADER, strlit = _run.Untranslatable, _run.HEADER, _run.strlit


def _boxes(repo):
    tree, _ = parse(repo, "rich/box.py")
    out = []
    for node in tree.body:
        value = None
        name = None
        if isinstance(node, ast.AnnAssign) and isinstance(node.target, ast.Name):
            name, value = node.target.id, node.value
        elif isinstance(node, ast.Assign) and len(node.targets) == 1 and isinstance(node.targets[0], ast.Name):
            name, value = node.targets[0].id, node.value
        if value is None or not isinstance(value, ast.Call):
            continue
        fn = value.func
        if not (isinstance(fn, ast.Name) and fn.id == "Box"):
            continue
        if len(value.args) != 1:
            raise Untranslatable(f"Box literal {name}: expected one positional argument")
        text = literal(value.args[0], f"Box literal {name}")
        if not isinstance(text, str):
            raise Untranslatable(f"Box literal {name}: not a string")
        lines = text.splitlines()
        if len(lines) != 8 or any(len(l) != 4 for l in lines):
            raise Untranslatable(f"Box literal {name}: not 8 lines of 4 characters")
        ascii_flag = False
        for kw in value.keywords:
            if kw.arg == "ascii":
                ascii_flag = bool(literal(kw.value, f"Box literal {name} ascii"))
            else:
                raise Untranslatable(f"Box literal {name}: unknown keyword {kw.arg}")
        out.append((name, lines, ascii_flag))
    if not out:
        raise Untranslatable("no Box literals found")
    return out


def _leading_fact(repo):
    """1 = as found: `_box.get_row(widths, "mid", ...) * leading` inside one Segment;
       0 = the get_row(..., "mid") segment is yielded inside a `for ... in range(leading)` loop."""
    tree, _ = parse(repo, "rich/table.py")
    fn = find_func(find_class(tree, "Table").body, "_render")
    mult = 0
    looped = 0

    def is_mid_call(n):
        return (isinstance(n, ast.Call) and isinstance(n.func, ast.Attribute) and n.func.attr == "get_row"
                and len(n.args) >= 2 and isinstance(n.args[1], ast.Constant) and n.args[1].value == "mid")

    for node in ast.walk(fn):
        if isinstance(node, ast.BinOp) and isinstance(node.op, ast.Mult):
            if (is_mid_call(node.left) and isinstance(node.right, ast.Name) and node.right.id == "leading") or \
               (is_mid_call(node.right) and isinstance(node.left, ast.Name) and node.left.id == "leading"):
                mult += 1
        if isinstance(node, ast.For):
            it = node.iter
            if (isinstance(it, ast.Call) and isinstance(it.func, ast.Name) and it.func.id == "range"
                    and len(it.args) == 1 and isinstance(it.args[0], ast.Name) and it.args[0].id == "leading"):
                if any(is_mid_call(n) for n in ast.walk(node)):
                    looped += 1
    if mult == 1 and looped == 0:
        return 1
    if mult == 0 and looped == 1:
        return 0
    raise Untranslatable(f"Table._render: leading branch not recognised (mult={mult}, looped={looped})")


def _flexmin_fact(repo):
    """1 = the `flex_minimum` comprehension of Table._calculate_column_widths mentions the measured
       range's `.minimum` (fixes/C07_ratio_column_minimum.diff); 0 = only `(column.width or 1) + padding`."""
    tree, _ = parse(repo, "rich/table.py")
    fn = find_func(find_class(tree, "Table").body, "_calculate_column_widths")
    found = None
    for node in ast.walk(fn):
        if isinstance(node, ast.Assign) and len(node.targets) == 1 and isinstance(node.targets[0], ast.Name) \
                and node.targets[0].id == "flex_minimum":
            if found is not None:
                raise Untranslatable("Table._calculate_column_widths: flex_minimum assigned twice")
            if not isinstance(node.value, ast.ListComp):
                raise Untranslatable("Table._calculate_column_widths: flex_minimum is not a list comprehension")
            uses_min = any(isinstance(n, ast.Attribute) and n.attr == "minimum" for n in ast.walk(node.value))
            uses_width = any(isinstance(n, ast.Attribute) and n.attr == "width" for n in ast.walk(node.value))
            if not uses_width:
                raise Untranslatable("Table._calculate_column_widths: flex_minimum no longer uses column.width")
            found = 1 if uses_min else 0
    if found is None:
        raise Untranslatable("Table._calculate_column_widths: flex_minimum not found")
    return found


def _update_fact(repo):
    """1 = every `if` of ConsoleOptions.update tests `<its own parameter> is not None` before assigning
       (None = keep the inherited value, False/0 = set); 0 = some field is tested for truthiness or otherwise."""
    tree, _ = parse(repo, "rich/console.py")
    fn = find_func(find_class(tree, "ConsoleOptions").body, "update")
    params = [a.arg for a in fn.args.args if a.arg != "self"]
    for need in ("width", "justify", "overflow", "no_wrap"):
        if need not in params:
            raise Untranslatable(f"ConsoleOptions.update: parameter {need} missing")
    tested = set()
    ok = True
    for node in fn.body:
        if isinstance(node, ast.If):
            t = node.test
            good = (isinstance(t, ast.Compare) and isinstance(t.left, ast.Name) and t.left.id in params
                    and len(t.ops) == 1 and isinstance(t.ops[0], ast.IsNot)
                    and isinstance(t.comparators[0], ast.Constant) and t.comparators[0].value is None
                    and not node.orelse)
            if good:
                tested.add(t.left.id)
            else:
                ok = False
    if not set(params) <= tested:
        ok = False
    return 1 if ok else 0


@generator("BoxChars.v")
def gen_boxes(repo):
    boxes = _boxes(repo)
    rows = []
    for name, lines, ascii_flag in boxes:
        ls = "; ".join(strlit(l) for l in lines)
        rows.append(f"  ({strlit(name)}, {'true' if ascii_flag else 'false'}, [{ls}])")
    body = ";\n".join(rows)
    text = HEADER
    text += "(* every Box(...) literal of rich/box.py: (name, ascii flag, the 8 lines of 4 code points) *)\n"
    text += "Definition BOXES : list (list Z * bool * list (list Z)) := [\n" + body + "\n].\n\n"
    text += "(* Table._render, `if leading:` branch: true = get_row(widths, \"mid\") * leading in ONE segment *)\n"
    text += f"Definition LEADING_MULTIPLIED : bool := {'true' if _leading_fact(repo) else 'false'}.\n"
    text += "\n(* Table._calculate_column_widths: true = a ratio column's flexible minimum includes its measured minimum *)\n"
    text += f"Definition FLEXMIN_MEASURED : bool := {'true' if _flexmin_fact(repo) else 'false'}.\n"
    text += "\n(* ConsoleOptions.update: true = every field is guarded by `<parameter> is not None` (None keeps, False sets) *)\n"
    text += f"Definition UPDATE_NONE_KEEPS : bool := {'true' if _update_fact(repo) else 'false'}.\n"
    return text
