"""Tie 1 for C02 (word wrapping).

* gen/UnicodeSpace.v  -- the whitespace class of Python's `\\s` / str.strip / str.split / str.isspace,
  an interpreter fact: generated from the RUNNING interpreter (range list); the harness re-checks it
  on all 1,114,112 code points against re, str.strip, str.split and str.isspace.
* gen/WrapFacts.v     -- facts of /repo the hand model of rich/_wrap.py and Text.wrap was written for:
  the two regex source strings, the STRIP_CONTROL_CODES table, DEFAULT_JUSTIFY/DEFAULT_OVERFLOW and
  keyword arguments at the call sites inside Text.wrap / Lines.justify.  proofs/WrapP.v pins each of
  them with `reflexivity`, so an edit of the source breaks a proof obligation.
"""
import ast, sys

# run.py is normally executed as __main__: register with *that* module's GENERATORS, not a second copy
_m = sys.modules.get("__main__")
_run = _m if hasattr(_m, "GENERATORS") and hasattr(_m, "generator") else __import__("run")
generator, parse, find_assign, find_class, find_func = _run.generator, _run.parse, _run.find_assign, _run.find_class, _run.find_func
literal, strlit, Untranslatable, HEADER = _run.literal, _run.strlit, _run.Untranslatable, _run.HEADER


@generator("UnicodeSpace.v")
def gen_space(repo):
    cps = [c for c in range(0x110000) if chr(c).isspace()]
    ranges = []
    for c in cps:
        if ranges and ranges[-1][1] == c - 1:
            ranges[-1][1] = c
        else:
            ranges.append([c, c])
    body = "; ".join(f"({a}, {b})" for a, b in ranges)
    return (HEADER + "(* str.isspace() of the running interpreter, as inclusive ranges *)\n"
            f"Definition SPACE_RANGES : list (Z * Z) :=\n  [{body}].\n")


def _regex_src(tree, name):
    node = find_assign(tree, name)
    if not (isinstance(node, ast.Call) and isinstance(node.func, ast.Attribute) and node.func.attr == "compile"
            and len(node.args) == 1 and not node.keywords):
        raise Untranslatable(f"{name}: not a plain re.compile(<literal>)")
    s = literal(node.args[0], name)
    if not isinstance(s, str):
        raise Untranslatable(f"{name}: pattern is not a str")
    return s


def _calls(fn, attr):
    out = []
    for node in ast.walk(fn):
        if isinstance(node, ast.Call):
            f = node.func
            nm = f.attr if isinstance(f, ast.Attribute) else (f.id if isinstance(f, ast.Name) else None)
            if nm == attr:
                out.append(node)
    return out


def _kw(call, name):
    for k in call.keywords:
        if k.arg == name:
            return k.value
    return None


def _b(x):
    return "true" if x else "false"


@generator("WrapFacts.v")
def gen_wrap_facts(repo):
    wrap_t, _ = parse(repo, "rich/_wrap.py")
    text_t, _ = parse(repo, "rich/text.py")
    cont_t, _ = parse(repo, "rich/containers.py")
    ctrl_t, _ = parse(repo, "rich/control.py")
    out = [HEADER]
    out.append(f"Definition re_word_src : list Z := {strlit(_regex_src(wrap_t, 're_word'))}.\n")
    out.append(f"Definition re_whitespace_src : list Z := {strlit(_regex_src(text_t, '_re_whitespace'))}.\n")
    codes = literal(find_assign(ctrl_t, "STRIP_CONTROL_CODES"), "STRIP_CONTROL_CODES")
    if not all(isinstance(c, int) for c in codes):
        raise Untranslatable("STRIP_CONTROL_CODES: not ints")
    out.append("Definition STRIP_CONTROL_CODES : list Z := [" + "; ".join(map(str, codes)) + "].\n")
    out.append(f"Definition DEFAULT_JUSTIFY_src : list Z := {strlit(literal(find_assign(text_t, 'DEFAULT_JUSTIFY'), 'DEFAULT_JUSTIFY'))}.\n")
    out.append(f"Definition DEFAULT_OVERFLOW_src : list Z := {strlit(literal(find_assign(text_t, 'DEFAULT_OVERFLOW'), 'DEFAULT_OVERFLOW'))}.\n")

    text_c = find_class(text_t, "Text")
    wrap_f = find_func(text_c.body, "wrap")
    # self.split(allow_blank=True) inside wrap
    sp = [c for c in _calls(wrap_f, "split")]
    if len(sp) != 1:
        raise Untranslatable("Text.wrap: expected exactly one .split call")
    ab = _kw(sp[0], "allow_blank")
    out.append(f"Definition wrap_split_allow_blank : bool := {_b(ab is not None and literal(ab, 'allow_blank') is True)}.\n")
    out.append(f"Definition wrap_split_default_separator : bool := {_b(len(sp[0].args) == 0 and _kw(sp[0], 'separator') is None)}.\n")
    # divide_line(str(line), width, fold=wrap_overflow == "fold")
    dl = _calls(wrap_f, "divide_line")
    if len(dl) != 1:
        raise Untranslatable("Text.wrap: expected exactly one divide_line call")
    fold = _kw(dl[0], "fold")
    ok = (isinstance(fold, ast.Compare) and len(fold.ops) == 1 and isinstance(fold.ops[0], ast.Eq)
          and isinstance(fold.comparators[0], ast.Constant) and fold.comparators[0].value == "fold")
    out.append(f"Definition wrap_fold_iff_overflow_fold : bool := {_b(ok)}.\n")
    # order of the per-line passes in wrap: rstrip_end, justify, truncate
    names = []
    for node in ast.walk(wrap_f):
        if isinstance(node, ast.Call) and isinstance(node.func, ast.Attribute) and node.func.attr in (
                "rstrip_end", "justify", "truncate", "expand_tabs", "divide", "extend"):
            names.append((node.lineno, node.col_offset, node.func.attr))
    names = [n for _, _, n in sorted(names)]
    out.append("Definition wrap_pass_order : list (list Z) := [" + "; ".join(strlit(n) for n in names) + "].\n")
    tr = [c for c in _calls(wrap_f, "truncate")]
    if len(tr) != 1:
        raise Untranslatable("Text.wrap: expected one truncate call")
    out.append(f"Definition wrap_truncate_pads : bool := {_b(_kw(tr[0], 'pad') is not None)}.\n")

    # Lines.justify: which truncate calls pad
    lines_c = find_class(cont_t, "Lines")
    just_f = find_func(lines_c.body, "justify")
    pads = []
    for c in sorted(_calls(just_f, "truncate"), key=lambda n: n.lineno):
        p = _kw(c, "pad")
        pads.append(p is not None and literal(p, "pad") is True)
    out.append("Definition justify_truncate_pads : list bool := [" + "; ".join(_b(p) for p in pads) + "].\n")
    # default position argument of chop_cells call in divide_line
    dlf = find_func(wrap_t.body, "divide_line")
    cc = _calls(dlf, "chop_cells")
    if len(cc) != 1:
        raise Untranslatable("divide_line: expected one chop_cells call")
    pos = _kw(cc[0], "position")
    out.append(f"Definition chop_position_is_line_position : bool := {_b(isinstance(pos, ast.Name) and pos.id == 'line_position')}.\n")
    # set_cell_size + ellipsis literal in truncate
    trf = find_func(text_c.body, "truncate")
    ell = [n.value for n in ast.walk(trf) if isinstance(n, ast.Constant) and isinstance(n.value, str) and len(n.value) == 1
           and ord(n.value) > 127]
    if len(ell) != 1:
        raise Untranslatable("Text.truncate: ellipsis literal not found")
    out.append(f"Definition ELLIPSIS : Z := {ord(ell[0])}.\n")
    return "".join(out)
