"""Tie 1 for C02 (word wrapping).

* gen/UnicodeSpace.v  -- the whitespace class of Python's `\\s` / str.strip / str.split / str.isspace,
  an interpreter fact: generated from the RUNNING interpreter (range list); the harness re-checks it
  on all 1,114,112 code points against re, str.strip, str.split and str.isspace.
* gen/WrapFacts.v     -- facts of /repo the hand model of rich/_wrap.py and Text.wrap was written for:
  the two regex source strings, the STRIP_CONTROL_CODES table, DEFAULT_JUSTIFY/DEFAULT_OVERFLOW and
  keyword arguments at the call sites inside Text.wrap / Lines.justify.  proofs/WrapP.v pins each of
  them with `reflexivity`, so an edit of the source breaks a proof obligation.
"""
import ast, sys

# run.py is normally executed as __main__: register with *that* module's GENERATORS, not a second copy
_m = sys.modules.get("__main__")
_run = _m if hasattr(_m, "GENERATORS") and hasattr(_m, "generator") else __import__("run")
generator, parse, find_assign, find_class, find_func = _run.generator, _run.parse, _run.find_assign, _run.find_class, _run.find_func
literal, strlit, Untranslatable, HEADER = _run.literal, _run.strlit, _run.Untranslatable, _run.HEADER


@generator("UnicodeSpace.v")
def gen_space(repo):
    cps = [c for c in range(0x110000) if chr(c).isspace()]
    ranges = []
    for c in cps:
        if ranges and ranges[-1][1] == c - 1:
            ranges[-1][1] = c
        else:
            ranges.append([c, c])
    body = "; ".join(f"({a}, {b})" for a, b in ranges)
    return (HEADER + "(* str.isspace() of the running interpreter, as inclusive ranges *)\n"
            f"Definition SPACE_RANGES : list (Z * Z) :=\n  [{body}].\n")


def _regex_literal(node, what):
    if not (isinstance(node, ast.Call) and isinstance(node.func, ast.Attribute) and node.func.attr == "compile"
            and len(node.args) == 1 and not node.keywords):
        raise Untranslatable(f"{what}: not a plain re.compile(<literal>)")
    s = literal(node.args[0], what)
    if not isinstance(s, str):
        raise Untranslatable(f"{what}: pattern is not a str")
    return s


def _regex_used(tree, fn, method, what):
    """source of the module-level compiled regex whose .<method>(...) the function calls -- found by use,
    not by the name it happens to be bound to"""
    names = {n.func.value.id for n in ast.walk(fn)
             if isinstance(n, ast.Call) and isinstance(n.func, ast.Attribute) and n.func.attr == method
             and isinstance(n.func.value, ast.Name)}
    found = []
    for nm in sorted(names):
        try:
            found.append(_regex_literal(find_assign(tree, nm), what))
        except Untranslatable:
            pass
    if len(found) != 1:
        raise Untranslatable(f"{what}: expected exactly one module-level compiled regex used via .{method}()")
    return found[0]


def _assignments(fn, name):
    """values assigned to the local `name` anywhere in fn: (kind, value, inside_loop)"""
    out = []

    def walk(node, in_loop):
        for child in ast.iter_child_nodes(node):
            loop = in_loop or isinstance(node, (ast.For, ast.While))
            if isinstance(child, ast.Assign) and any(isinstance(t, ast.Name) and t.id == name for t in child.targets):
                out.append(("=", child.value, loop))
            elif isinstance(child, ast.AugAssign) and isinstance(child.target, ast.Name) and child.target.id == name:
                out.append((type(child.op).__name__, child.value, loop))
            walk(child, loop)
    walk(fn, False)
    return out


def _resolve(fn, node, depth=3):
    """follow a local that is assigned exactly once (x = <expr>) to its expression"""
    while depth and isinstance(node, ast.Name):
        vals = _assignments(fn, node.id)
        if len(vals) != 1 or vals[0][0] != "=":
            break
        node = vals[0][1]
        depth -= 1
    return node


def _is_running_column(fn, node):
    """`node` is a local that starts at the constant 0 outside the loop and is only ever re-assigned or
    incremented inside the loop with the result of a call (cell_len of a word / of the last chopped line)
    -- the running cell position of the current line, whatever it is called"""
    if not isinstance(node, ast.Name):
        return False
    vals = _assignments(fn, node.id)
    init = [v for k, v, loop in vals if not loop]
    upd = [(k, v) for k, v, loop in vals if loop]
    if len(init) != 1 or not (isinstance(init[0], ast.Constant) and init[0].value == 0):
        return False
    if not upd or not any(k == "Add" for k, _ in upd) or not any(k == "=" for k, _ in upd):
        return False
    return all(k in ("=", "Add") and isinstance(v, ast.Call) for k, v in upd)


def _calls(fn, attr):
    out = []
    for node in ast.walk(fn):
        if isinstance(node, ast.Call):
            f = node.func
            nm = f.attr if isinstance(f, ast.Attribute) else (f.id if isinstance(f, ast.Name) else None)
            if nm == attr:
                out.append(node)
    return out


def _kw(call, name):
    for k in call.keywords:
        if k.arg == name:
            return k.value
    return None


def _b(x):
    return "true" if x else "false"


@generator("WrapFacts.v")
def gen_wrap_facts(repo):
    wrap_t, _ = parse(repo, "rich/_wrap.py")
    text_t, _ = parse(repo, "rich/text.py")
    cont_t, _ = parse(repo, "rich/containers.py")
    ctrl_t, _ = parse(repo, "rich/control.py")
    out = [HEADER]
    # the regexes are identified by their use: the pattern `words` matches with, the pattern rstrip_end searches
    words_f = find_func(wrap_t.body, "words")
    out.append(f"Definition re_word_src : list Z := {strlit(_regex_used(wrap_t, words_f, 'match', 're_word'))}.\n")
    rse_f = find_func(find_class(text_t, "Text").body, "rstrip_end")
    out.append(f"Definition re_whitespace_src : list Z := {strlit(_regex_used(text_t, rse_f, 'search', '_re_whitespace'))}.\n")
    codes = literal(find_assign(ctrl_t, "STRIP_CONTROL_CODES"), "STRIP_CONTROL_CODES")
    if not all(isinstance(c, int) for c in codes):
        raise Untranslatable("STRIP_CONTROL_CODES: not ints")
    out.append("Definition STRIP_CONTROL_CODES : list Z := [" + "; ".join(map(str, codes)) + "].\n")
    out.append(f"Definition DEFAULT_JUSTIFY_src : list Z := {strlit(literal(find_assign(text_t, 'DEFAULT_JUSTIFY'), 'DEFAULT_JUSTIFY'))}.\n")
    out.append(f"Definition DEFAULT_OVERFLOW_src : list Z := {strlit(literal(find_assign(text_t, 'DEFAULT_OVERFLOW'), 'DEFAULT_OVERFLOW'))}.\n")

    text_c = find_class(text_t, "Text")
    wrap_f = find_func(text_c.body, "wrap")
    # self.split(allow_blank=True) inside wrap
    sp = [c for c in _calls(wrap_f, "split")]
    if len(sp) != 1:
        raise Untranslatable("Text.wrap: expected exactly one .split call")
    ab = _kw(sp[0], "allow_blank")
    out.append(f"Definition wrap_split_allow_blank : bool := {_b(ab is not None and literal(ab, 'allow_blank') is True)}.\n")
    out.append(f"Definition wrap_split_default_separator : bool := {_b(len(sp[0].args) == 0 and _kw(sp[0], 'separator') is None)}.\n")
    # divide_line(str(line), width, fold=wrap_overflow == "fold")
    dl = _calls(wrap_f, "divide_line")
    if len(dl) != 1:
        raise Untranslatable("Text.wrap: expected exactly one divide_line call")
    fold = _kw(dl[0], "fold")
    if fold is None and len(dl[0].args) >= 3:
        fold = dl[0].args[2]
    fold = _resolve(wrap_f, fold)      # tolerate `fold = ... == "fold"` hoisted into a local
    ok = (isinstance(fold, ast.Compare) and len(fold.ops) == 1 and isinstance(fold.ops[0], ast.Eq)
          and any(isinstance(x, ast.Constant) and x.value == "fold" for x in (fold.left, fold.comparators[0]))
          and not all(isinstance(x, ast.Constant) for x in (fold.left, fold.comparators[0])))
    out.append(f"Definition wrap_fold_iff_overflow_fold : bool := {_b(ok)}.\n")
    # order of the passes the model composes (each consumes the previous one's result, so their order is
    # semantic): expand_tabs, divide, rstrip_end, justify, truncate.  How the lines are collected
    # (extend / += / append) is not pinned.
    names = []
    for node in ast.walk(wrap_f):
        if isinstance(node, ast.Call) and isinstance(node.func, ast.Attribute) and node.func.attr in (
                "rstrip_end", "justify", "truncate", "expand_tabs", "divide"):
            names.append((node.lineno, node.col_offset, node.func.attr))
    names = [n for _, _, n in sorted(names)]
    out.append("Definition wrap_pass_order : list (list Z) := [" + "; ".join(strlit(n) for n in names) + "].\n")
    tr = [c for c in _calls(wrap_f, "truncate")]
    if len(tr) != 1:
        raise Untranslatable("Text.wrap: expected one truncate call")
    out.append(f"Definition wrap_truncate_pads : bool := {_b(_kw(tr[0], 'pad') is not None)}.\n")

    # Lines.justify: does the truncate of the left / center / right branch pad?  Keyed by the string the
    # branch compares with, not by the order of the branches or the name of the compared variable.
    lines_c = find_class(cont_t, "Lines")
    just_f = find_func(lines_c.body, "justify")
    by_mode = {}
    for node in ast.walk(just_f):
        if isinstance(node, ast.If) and isinstance(node.test, ast.Compare) and len(node.test.ops) == 1 \
                and isinstance(node.test.ops[0], ast.Eq):
            consts = [x.value for x in (node.test.left, node.test.comparators[0])
                      if isinstance(x, ast.Constant) and isinstance(x.value, str)]
            if len(consts) == 1:
                calls = []
                for stmt in node.body:
                    calls += _calls(stmt, "truncate")
                by_mode.setdefault(consts[0], []).extend(calls)
    pads = []
    for mode in ("left", "center", "right"):
        calls = by_mode.get(mode, [])
        if len(calls) != 1:
            raise Untranslatable(f"Lines.justify: expected exactly one truncate call in the {mode!r} branch")
        p = _kw(calls[0], "pad")
        pads.append(p is not None and literal(p, "pad") is True)
    out.append("Definition justify_truncate_pads : list bool := [" + "; ".join(_b(p) for p in pads) + "].\n")
    # the position chop_cells starts from is the running column of the current line (identified by dataflow:
    # initialised to 0 before the loop, re-assigned / incremented in the loop by cell lengths), not a constant
    dlf = find_func(wrap_t.body, "divide_line")
    cc = _calls(dlf, "chop_cells")
    if len(cc) != 1:
        raise Untranslatable("divide_line: expected one chop_cells call")
    pos = _kw(cc[0], "position")
    if pos is None and len(cc[0].args) >= 3:
        pos = cc[0].args[2]
    out.append(f"Definition chop_position_is_line_position : bool := {_b(_is_running_column(dlf, pos))}.\n")
    # set_cell_size + ellipsis literal in truncate
    trf = find_func(text_c.body, "truncate")
    ell = [n.value for n in ast.walk(trf) if isinstance(n, ast.Constant) and isinstance(n.value, str) and len(n.value) == 1
           and ord(n.value) > 127]
    if len(ell) != 1:
        raise Untranslatable("Text.truncate: ellipsis literal not found")
    out.append(f"Definition ELLIPSIS : Z := {ord(ell[0])}.\n")
    return "".join(out)
