"""C03 translator: the literal pieces of Style.render's two f-strings (T1), and the statement shapes
of Style.render, Style._make_ansi_codes (memo test) and Console._render_buffer (T3 call-site facts)
-> coq/gen/AnsiFacts.v.  Fail closed: any shape not listed here raises Untranslatable."""
import ast, sys

_m = sys.modules.get("__main__")
_run = _m if hasattr(_m, "GENERATORS") and hasattr(_m, "generator") else __import__("run")
generator, parse, find_class, find_func = _run.generator, _run.parse, _run.find_class, _run.find_func
Untranslatable, HEADER, strlit, literal = _run.Untranslatable, _run.HEADER, _run.strlit, _run.literal


def _d(node):
    return ast.dump(node)


def _expr(src):
    return _d(ast.parse(src, mode="eval").body)


def _stmts(src):
    return [_d(s) for s in ast.parse(src).body]


def _body(fn):
    b = fn.body
    if b and isinstance(b[0], ast.Expr) and isinstance(b[0].value, ast.Constant) and isinstance(b[0].value.value, str):
        b = b[1:]
    return b


def _fstring(node, what):
    """JoinedStr -> (constant parts, hole expressions); parts has one more element than holes"""
    if not isinstance(node, ast.JoinedStr):
        raise Untranslatable(f"{what}: not an f-string")
    parts, holes, cur = [], [], ""
    for v in node.values:
        if isinstance(v, ast.Constant) and isinstance(v.value, str):
            cur += v.value
        elif isinstance(v, ast.FormattedValue) and v.conversion == -1 and v.format_spec is None:
            parts.append(cur)
            cur = ""
            holes.append(_d(v.value))
        else:
            raise Untranslatable(f"{what}: unsupported f-string component")
    parts.append(cur)
    return parts, holes


def _render(cls):
    fn = find_func(cls.body, "render")
    kwonly = [a.arg for a in fn.args.kwonlyargs]
    if [a.arg for a in fn.args.args] != ["self", "text"] or kwonly != ["color_system", "legacy_windows"]:
        raise Untranslatable("Style.render: unexpected signature")
    b = _body(fn)
    if len(b) != 5:
        raise Untranslatable("Style.render: expected 5 statements")
    if _d(b[0]) != _stmts("if not text or color_system is None:\n    return text")[0]:
        raise Untranslatable("Style.render: first guard changed")
    if _d(b[1]) != _stmts("attrs = self._make_ansi_codes(color_system)")[0]:
        raise Untranslatable("Style.render: attrs assignment changed")
    s2 = b[2]
    if not (isinstance(s2, ast.Assign) and isinstance(s2.targets[0], ast.Name) and s2.targets[0].id == "rendered" and isinstance(s2.value, ast.IfExp)
            and _d(s2.value.test) == _expr("attrs") and _d(s2.value.orelse) == _expr("text")):
        raise Untranslatable("Style.render: `rendered = f... if attrs else text` changed")
    sgr_parts, sgr_holes = _fstring(s2.value.body, "Style.render SGR f-string")
    if sgr_holes != [_expr("attrs"), _expr("text")]:
        raise Untranslatable("Style.render: SGR f-string holes are not {attrs}{text}")
    s3 = b[3]
    if not (isinstance(s3, ast.If) and not s3.orelse and _d(s3.test) == _expr("self._link and not legacy_windows")
            and len(s3.body) == 1 and isinstance(s3.body[0], ast.Assign)
            and isinstance(s3.body[0].targets[0], ast.Name) and s3.body[0].targets[0].id == "rendered"):
        raise Untranslatable("Style.render: link branch changed")
    link_parts, link_holes = _fstring(s3.body[0].value, "Style.render link f-string")
    if link_holes != [_expr("self._link_id"), _expr("self._link"), _expr("rendered")]:
        raise Untranslatable("Style.render: link f-string holes changed")
    if _d(b[4]) != _stmts("return rendered")[0]:
        raise Untranslatable("Style.render: does not return rendered")
    return sgr_parts, link_parts


def _memo_keyed(cls):
    """is the `_ansi` memo of _make_ansi_codes tested against the colour system?"""
    fn = find_func(cls.body, "_make_ansi_codes")
    if [a.arg for a in fn.args.args] != ["self", "color_system"]:
        raise Untranslatable("_make_ansi_codes: unexpected signature")
    b = _body(fn)
    if len(b) == 2 and isinstance(b[0], ast.If) and not b[0].orelse:
        if _d(b[0].test) == _expr("self._ansi is None") and _d(b[1]) == _stmts("return self._ansi")[0]:
            last = b[0].body[-1]
            if _d(last) != _stmts('self._ansi = ";".join(sgr)')[0]:
                raise Untranslatable("_make_ansi_codes: memo assignment changed")
            return False
    if len(b) == 3 and isinstance(b[1], ast.If) and not b[1].orelse:
        if (_d(b[0]) == _stmts("ansi = self._ansi")[0]
                and _d(b[1].test) == _expr("ansi is None or ansi[0] != color_system")
                and _d(b[1].body[-1]) == _stmts('self._ansi = ansi = (color_system, ";".join(sgr))')[0]
                and _d(b[2]) == _stmts("return ansi[1]")[0]):
            return True
    raise Untranslatable("_make_ansi_codes: memo test has an unknown shape")


def _memo_assign(fn, var, what):
    """the single `<var>._ansi = <rhs>` of a constructor-like method: 'carried' (self._ansi) or 'reset' (None)"""
    found = []
    for node in ast.walk(fn):
        if isinstance(node, ast.Call) and isinstance(node.func, ast.Attribute) and node.func.attr == "copy" \
                and _d(node.func.value) == _expr("self"):
            raise Untranslatable(f"{what}: built on self.copy() -- which slots it resets is not of a known shape")
        if isinstance(node, ast.Assign) and len(node.targets) == 1 and isinstance(node.targets[0], ast.Attribute) \
                and node.targets[0].attr == "_ansi":
            found.append(node)
    if len(found) != 1:
        raise Untranslatable(f"{what}: expected exactly one assignment to ._ansi, found {len(found)}")
    node = found[0]
    tgt = node.targets[0].value
    if not (isinstance(tgt, ast.Name) and tgt.id == var):
        raise Untranslatable(f"{what}: ._ansi assigned on an unexpected object")
    news = [n for n in ast.walk(fn) if isinstance(n, ast.Assign) and isinstance(n.targets[0], ast.Name)
            and n.targets[0].id == var]
    if len(news) != 1 or _d(news[0].value) != _expr("self.__new__(Style)"):
        raise Untranslatable(f"{what}: {var} is not created by self.__new__(Style)")
    if _d(node.value) == _expr("self._ansi"):
        return True
    if isinstance(node.value, ast.Constant) and node.value.value is None:
        return False
    raise Untranslatable(f"{what}: ._ansi assigned something else")


def _memo_carrying(cls):
    """(copy, update_link, without_color, __add__) -> does the derived style inherit `_ansi`?"""
    return (_memo_assign(find_func(cls.body, "copy"), "style", "Style.copy"),
            _memo_assign(find_func(cls.body, "update_link"), "style", "Style.update_link"),
            _memo_assign(find_func(cls.body, "without_color"), "style", "Style.without_color"),
            _memo_assign(find_func(cls.body, "__add__"), "new_style", "Style.__add__"))


# ---------------------------------------------------------------- Console._render_buffer, semantically
import copy as _copy
import itertools as _it


def _is_pure(node):
    """attribute chains, names, constants, `not <pure>`: re-evaluating them changes nothing"""
    if isinstance(node, (ast.Name, ast.Constant)):
        return True
    if isinstance(node, ast.Attribute):
        return _is_pure(node.value)
    if isinstance(node, ast.UnaryOp) and isinstance(node.op, ast.Not):
        return _is_pure(node.operand)
    return False


def _resolve_aliases(fn):
    """inline every local that is bound exactly once, at function level, to a pure expression
    (`append = output.append`, `color_system = self._color_system`, `not_terminal = not self.is_terminal`, ...)"""
    fn = _copy.deepcopy(fn)
    stores = {}
    for a in fn.args.args + fn.args.kwonlyargs:
        stores[a.arg] = stores.get(a.arg, 0) + 1
    for node in ast.walk(fn):
        if isinstance(node, ast.Name) and isinstance(node.ctx, (ast.Store, ast.Del)):
            stores[node.id] = stores.get(node.id, 0) + 1
    for _ in range(8):
        alias = {}
        for st in fn.body:
            if isinstance(st, ast.Assign) and len(st.targets) == 1 and isinstance(st.targets[0], ast.Name) \
                    and stores.get(st.targets[0].id) == 1 and _is_pure(st.value):
                names = {n.id for n in ast.walk(st.value) if isinstance(n, ast.Name)}
                if all(stores.get(n, 0) <= 1 for n in names):       # what it reads is never rebound either
                    alias[st.targets[0].id] = st.value
        if not alias:
            break

        class Sub(ast.NodeTransformer):
            def visit_Name(self, node):
                if isinstance(node.ctx, ast.Load) and node.id in alias:
                    return _copy.deepcopy(alias[node.id])
                return node
        fn.body = [Sub().visit(st) for st in fn.body
                   if not (isinstance(st, ast.Assign) and len(st.targets) == 1 and isinstance(st.targets[0], ast.Name)
                           and st.targets[0].id in alias)]
    return fn


def _cond(node, env, what):
    """truth value of a loop-body condition under an assignment of the three atoms"""
    if isinstance(node, ast.BoolOp):
        vals = [_cond(v, env, what) for v in node.values]
        return all(vals) if isinstance(node.op, ast.And) else any(vals)
    if isinstance(node, ast.UnaryOp) and isinstance(node.op, ast.Not):
        return not _cond(node.operand, env, what)
    if isinstance(node, ast.Name) and node.id in env:
        return env[node.id]
    if _d(node) == _expr("self.is_terminal"):
        return env["self.is_terminal"]
    raise Untranslatable(f"{what}: condition outside the modelled atoms: {ast.dump(node)[:70]}")


def _emission(call, out_name, names, what, env=None):
    """`<out>.append(text)` -> 'text';  `<out>.append(style.render(text, color_system=self._color_system,
    legacy_windows=self.legacy_windows))` -> 'render'"""
    text, style, _ctl = names
    if not (isinstance(call, ast.Call) and _d(call.func) == _expr(f"{out_name}.append") and len(call.args) == 1 and not call.keywords):
        raise Untranslatable(f"{what}: statement is not {out_name}.append(<one argument>)")
    a = call.args[0]
    while isinstance(a, ast.IfExp):          # `x if cond else y`: decided by the same atoms as the statements
        a = a.body if _cond(a.test, env, what) else a.orelse
    if isinstance(a, ast.Name) and a.id == text:
        return "text"
    if isinstance(a, ast.Call) and _d(a.func) == _expr(f"{style}.render"):
        kw = {k.arg: _d(k.value) for k in a.keywords}
        pos = [_d(x) for x in a.args]
        if "text" in kw:
            pos = [kw.pop("text")] + pos
        if pos != [_expr(text)]:
            raise Untranslatable(f"{what}: style.render is not given the segment text")
        if kw != {"color_system": _expr("self._color_system"), "legacy_windows": _expr("self.legacy_windows")}:
            raise Untranslatable(f"{what}: style.render keywords are not color_system=self._color_system, "
                                 f"legacy_windows=self.legacy_windows")
        return "render"
    raise Untranslatable(f"{what}: appended value is neither the text nor style.render(...)")


def _run_body(stmts, env, out_name, names, what):
    """(emitted, stopped) of one loop iteration"""
    emitted = None
    for st in stmts:
        if isinstance(st, ast.Continue):
            return emitted, True
        if isinstance(st, ast.Pass):
            continue
        if isinstance(st, ast.If):
            branch = st.body if _cond(st.test, env, what) else st.orelse
            e, stop = _run_body(branch, env, out_name, names, what)
            if e is not None:
                if emitted is not None:
                    raise Untranslatable(f"{what}: one segment is appended twice")
                emitted = e
            if stop:
                return emitted, True
            continue
        if isinstance(st, ast.Expr):
            e = _emission(st.value, out_name, names, what, env)
            if emitted is not None:
                raise Untranslatable(f"{what}: one segment is appended twice")
            emitted = e
            continue
        raise Untranslatable(f"{what}: unsupported statement {type(st).__name__} in the loop")
    return emitted, False


def _render_buffer(repo):
    """Decision table of the loop body over (style truthy, is_control, is_terminal), after inlining local
    aliases: which of {nothing, text, style.render(...)} is appended.  Only what the model branches on is
    pinned: the table, the arguments of style.render, the NO_COLOR step before the loop, the join."""
    what = "_render_buffer"
    tree, _ = parse(repo, "rich/console.py")
    fn = _resolve_aliases(find_func(find_class(tree, "Console").body, "_render_buffer"))
    if [a.arg for a in fn.args.args] != ["self", "buffer"]:
        raise Untranslatable(f"{what}: unexpected signature")
    b = _body(fn)
    loops = [(i, st) for i, st in enumerate(b) if isinstance(st, ast.For)]
    if len(loops) != 1:
        raise Untranslatable(f"{what}: expected exactly one loop")
    li, loop = loops[0]
    if not (isinstance(loop.target, ast.Tuple) and len(loop.target.elts) == 3 and all(isinstance(e, ast.Name) for e in loop.target.elts)
            and _d(loop.iter) == _expr("buffer") and not loop.orelse):
        raise Untranslatable(f"{what}: loop header is not `for text, style, is_control in buffer`")
    names = [e.id for e in loop.target.elts]
    # the output list: bound once to [], joined in the return
    ret = b[-1]
    joined = ret.value if isinstance(ret, ast.Return) else None
    skip = []
    if isinstance(joined, ast.Name):        # `rendered = "".join(output); return rendered`
        defs = [st for st in b if isinstance(st, ast.Assign) and len(st.targets) == 1
                and isinstance(st.targets[0], ast.Name) and st.targets[0].id == joined.id]
        stores = sum(1 for n in ast.walk(fn) if isinstance(n, ast.Name) and n.id == joined.id and isinstance(n.ctx, ast.Store))
        if len(defs) != 1 or stores != 1 or b.index(defs[0]) < li:
            raise Untranslatable(f"{what}: returned name is not bound once after the loop")
        skip, joined = defs, defs[0].value
    ret = ast.Return(value=joined) if joined is not None else ret
    if not (isinstance(ret, ast.Return) and isinstance(ret.value, ast.Call) and isinstance(ret.value.func, ast.Attribute)
            and ret.value.func.attr == "join" and isinstance(ret.value.func.value, ast.Constant) and ret.value.func.value.value == ""
            and len(ret.value.args) == 1 and isinstance(ret.value.args[0], ast.Name)):
        raise Untranslatable(f"{what}: does not return \"\".join(<list>)")
    out_name = ret.value.args[0].id
    inits = [st for st in b if isinstance(st, (ast.Assign, ast.AnnAssign))
             and any(isinstance(t, ast.Name) and t.id == out_name for t in (st.targets if isinstance(st, ast.Assign) else [st.target]))]
    if len(inits) != 1 or not (isinstance(inits[0].value, ast.List) and not inits[0].value.elts) or b.index(inits[0]) > li:
        raise Untranslatable(f"{what}: the output list is not initialised once to [] before the loop")
    # everything else outside the loop must leave `buffer` and the output list alone, except the NO_COLOR step
    strip = None
    for i, st in enumerate(b):
        if st is loop or st is b[-1] or st is inits[0] or st in skip:
            continue
        touches = any((isinstance(n, ast.Name) and n.id in ("buffer", out_name) and isinstance(n.ctx, ast.Store))
                      or (isinstance(n, ast.Attribute) and isinstance(n.value, ast.Name) and n.value.id == out_name)
                      for n in ast.walk(st))
        if not touches:
            continue
        if strip is None and i < li and isinstance(st, ast.If) and not st.orelse \
                and [_d(x) for x in st.body] == _stmts("buffer = Segment.remove_color(buffer)"):
            t = st.test
            parts = sorted(_d(v) for v in t.values) if isinstance(t, ast.BoolOp) and isinstance(t.op, ast.And) else None
            if parts != sorted([_expr("self.no_color"), _expr("self._color_system")]):
                raise Untranslatable(f"{what}: colour removal is not guarded by `self.no_color and self._color_system`")
            strip = st
            continue
        raise Untranslatable(f"{what}: statement at line {st.lineno} changes the buffer or the output")
    if strip is None:
        raise Untranslatable(f"{what}: no `buffer = Segment.remove_color(buffer)` step before the loop")
    table = {}
    for s_, c_, t_ in _it.product((False, True), repeat=3):
        env = {names[1]: s_, names[2]: c_, "self.is_terminal": t_}
        e, _stop = _run_body(loop.body, env, out_name, names, what)
        table[(s_, c_, t_)] = e
    fixed = {(s_, c_, t_): (None if (c_ and not t_) else ("render" if s_ else "text"))
             for s_, c_, t_ in _it.product((False, True), repeat=3)}
    asis = {(s_, c_, t_): ("render" if s_ else (None if (c_ and not t_) else "text"))
            for s_, c_, t_ in _it.product((False, True), repeat=3)}
    if table == fixed:
        return True
    if table == asis:
        return False
    raise Untranslatable(f"{what}: loop body implements an unknown decision table {sorted(table.items())}")


# ---------------------------------------------------------------- Console.__init__: facts from the environment
def _console_env(repo):
    """how the console facts are derived on POSIX:
       self.no_color (presence of NO_COLOR unless the keyword is given), _detect_color_system
       (COLORTERM, TERM, _TERM_COLORS), is_dumb_terminal, is_terminal, the color_system keyword"""
    tree, _ = parse(repo, "rich/console.py")
    cls = find_class(tree, "Console")
    init = find_func(cls.body, "__init__")
    # --- self.no_color
    nc = [st for st in ast.walk(init) if isinstance(st, ast.Assign) and len(st.targets) == 1
          and _d(st.targets[0]).replace("Store", "Load") == _expr("self.no_color")]
    if len(nc) != 1:
        raise Untranslatable("Console.__init__: expected one assignment to self.no_color")
    v = _d(nc[0].value)
    if v not in (_expr('no_color if no_color is not None else "NO_COLOR" in self._environ'),
                 _expr('("NO_COLOR" in self._environ) if no_color is None else no_color')):
        raise Untranslatable("Console.__init__: self.no_color is not `no_color if no_color is not None else "
                             "\"NO_COLOR\" in self._environ` (presence of the variable, whatever its value)")
    env = [st for st in ast.walk(init) if isinstance(st, ast.Assign) and len(st.targets) == 1
           and _d(st.targets[0]).replace("Store", "Load") == _expr("self._environ")]
    if len(env) != 1 or _d(env[0].value) != _expr("os.environ if _environ is None else _environ"):
        raise Untranslatable("Console.__init__: self._environ changed")
    # --- the color_system keyword
    want = _stmts('if color_system is None:\n    self._color_system = None\nelif color_system == "auto":\n'
                  '    self._color_system = self._detect_color_system()\nelse:\n    self._color_system = COLOR_SYSTEMS[color_system]')[0]
    if want not in [_d(st) for st in init.body]:
        raise Untranslatable("Console.__init__: the color_system keyword is handled differently")
    lw = _stmts("self.legacy_windows: bool = ((detect_legacy_windows() and not self.is_jupyter) if legacy_windows is None else legacy_windows)")[0]
    if lw not in [_d(st) for st in init.body]:
        raise Untranslatable("Console.__init__: legacy_windows default changed")
    ft = _stmts("self._force_terminal = force_terminal")[0]
    if ft not in [_d(st) for st in init.body]:
        raise Untranslatable("Console.__init__: force_terminal is not stored as given")
    # --- _TERM_COLORS
    tc = _run.find_assign(tree, "_TERM_COLORS")
    if not (isinstance(tc, ast.Dict) and all(isinstance(k, ast.Constant) and isinstance(k.value, str) for k in tc.keys)
            and all(isinstance(x, ast.Attribute) and _d(x.value) == _expr("ColorSystem") for x in tc.values)):
        raise Untranslatable("_TERM_COLORS is not a {str: ColorSystem.X} literal")
    sysnum = {"STANDARD": 1, "EIGHT_BIT": 2, "TRUECOLOR": 3, "WINDOWS": 4}
    term_colors = [(k.value, sysnum[x.attr]) for k, x in zip(tc.keys, tc.values)]
    # --- _detect_color_system
    det = _body(find_func(cls.body, "_detect_color_system"))
    if len(det) != 3 or not isinstance(det[2], ast.If) or _d(det[2].test) != _expr("WINDOWS"):
        raise Untranslatable("_detect_color_system: unexpected statement shape")
    if [_d(x) for x in det[:2]] != _stmts("if self.is_jupyter:\n    return ColorSystem.TRUECOLOR\n"
                                           "if not self.is_terminal or self.is_dumb_terminal:\n    return None"):
        raise Untranslatable("_detect_color_system: the jupyter / non-terminal / dumb-terminal guards changed")
    posix = det[2].orelse
    tup = None
    for n in ast.walk(ast.Module(body=posix, type_ignores=[])):
        if isinstance(n, ast.Compare) and _d(n.left) == _expr("color_term") and len(n.ops) == 1 and isinstance(n.ops[0], ast.In):
            tup = literal(n.comparators[0], "COLORTERM values")
    if not (isinstance(tup, tuple) and all(isinstance(x, str) for x in tup)):
        raise Untranslatable("_detect_color_system: `color_term in (<strings>)` not found")
    expect = _stmts('color_term = self._environ.get("COLORTERM", "").strip().lower()\n'
                    f'if color_term in {tup!r}:\n    return ColorSystem.TRUECOLOR\n'
                    'term = self._environ.get("TERM", "").strip().lower()\n'
                    '_term_name, _hyphen, colors = term.partition("-")\n'
                    'color_system = _TERM_COLORS.get(colors, ColorSystem.STANDARD)\nreturn color_system')
    if [_d(x) for x in posix] != expect:
        raise Untranslatable("_detect_color_system: the POSIX branch changed")
    # --- is_dumb_terminal / is_terminal
    dumb = _body(next(n for n in cls.body if isinstance(n, ast.FunctionDef) and n.name == "is_dumb_terminal"))
    dt = None
    for n in ast.walk(ast.Module(body=dumb, type_ignores=[])):
        if isinstance(n, ast.Compare) and len(n.ops) == 1 and isinstance(n.ops[0], ast.In) and _d(n.left) == _expr("_term.lower()"):
            dt = literal(n.comparators[0], "dumb terminal names")
    if not (isinstance(dt, tuple) and all(isinstance(x, str) for x in dt)):
        raise Untranslatable("is_dumb_terminal: `_term.lower() in (<strings>)` not found")
    if [_d(x) for x in dumb] != _stmts('_term = self._environ.get("TERM", "")\n' f'is_dumb = _term.lower() in {dt!r}\n'
                                        'return self.is_terminal and is_dumb'):
        raise Untranslatable("is_dumb_terminal changed")
    term = _body(next(n for n in cls.body if isinstance(n, ast.FunctionDef) and n.name == "is_terminal"))
    if [_d(x) for x in term] != _stmts('if self._force_terminal is not None:\n    return self._force_terminal\n'
                                        'isatty = getattr(self.file, "isatty", None)\nreturn False if isatty is None else isatty()'):
        raise Untranslatable("is_terminal changed")
    return term_colors, list(tup), list(dt)


@generator("AnsiFacts.v")
def gen_ansi_facts(repo):
    tree, _ = parse(repo, "rich/style.py")
    cls = find_class(tree, "Style")
    sgr_parts, link_parts = _render(cls)
    keyed = _memo_keyed(cls)
    guard_first = _render_buffer(repo)
    carried = _memo_carrying(cls)
    term_colors, colorterm, dumb = _console_env(repo)
    out = HEADER
    out += "(* Style.render: f\"<0>{attrs}<1>{text}<2>\" *)\n"
    out += "Definition RENDER_SGR_PARTS : list (list Z) :=\n  [" + ";\n   ".join(strlit(p) for p in sgr_parts) + "].\n\n"
    out += "(* Style.render: f\"<0>{self._link_id}<1>{self._link}<2>{rendered}<3>\" *)\n"
    out += "Definition RENDER_LINK_PARTS : list (list Z) :=\n  [" + ";\n   ".join(strlit(p) for p in link_parts) + "].\n\n"
    out += "(* Style._make_ansi_codes reuses the `_ansi` memo only for the colour system it was computed for *)\n"
    out += f"Definition ANSI_MEMO_KEYED_BY_SYSTEM : bool := {'true' if keyed else 'false'}.\n\n"
    out += ("(* Console._render_buffer, decision table of the loop body over (style truthy, is_control, is_terminal)\n"
            "   after inlining local aliases.  true: a control segment on a non-terminal is dropped whatever its style,\n"
            "   else style.render(...) if the style is truthy, else the text.  false (rich 9.10.0 as found): truthy style\n"
            "   -> render, else dropped if control on a non-terminal, else text.  Also checked: the arguments\n"
            "   style.render(text, color_system=self._color_system, legacy_windows=self.legacy_windows), the step\n"
            "   `if self.no_color and self._color_system: buffer = Segment.remove_color(buffer)` before the loop,\n"
            "   the result \"\".join(<list initialised to []>), nothing else touching buffer or the list *)\n")
    out += f"Definition RENDER_BUFFER_CONTROL_GUARD_FIRST : bool := {'true' if guard_first else 'false'}.\n\n"
    out += ("(* does the style built by copy / update_link / without_color / __add__ (general branch) inherit the\n"
            "   `_ansi` memo of its source (`style._ansi = self._ansi`) or start empty (`= None`)? *)\n")
    for name, v in zip(("COPY", "UPDATE_LINK", "WITHOUT_COLOR", "ADD"), carried):
        out += f"Definition {name}_CARRIES_MEMO : bool := {'true' if v else 'false'}.\n"
    out += ("\n(* Console.__init__: self.no_color = no_color if no_color is not None else \"NO_COLOR\" in self._environ\n"
            "   -- the PRESENCE of the variable, whatever its value (statement checked verbatim; also checked: self._environ,\n"
            "   the color_system keyword None / \"auto\" / COLOR_SYSTEMS[name], legacy_windows and force_terminal defaults,\n"
            "   is_terminal, is_dumb_terminal and the POSIX branch of _detect_color_system, whose literals follow) *)\n")
    out += "Definition NO_COLOR_BY_PRESENCE : bool := true.\n"
    out += "Definition TERM_COLORS : list (list Z * Z) :=\n  [" + ";\n   ".join(f"({strlit(k)}, {v})" for k, v in term_colors) + "].\n"
    out += "Definition COLORTERM_TRUECOLOR : list (list Z) :=\n  [" + "; ".join(strlit(x) for x in colorterm) + "].\n"
    out += "Definition DUMB_TERMS : list (list Z) :=\n  [" + "; ".join(strlit(x) for x in dumb) + "].\n"
    return out
