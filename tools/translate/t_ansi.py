"""C03 translator: the literal pieces of Style.render's two f-strings (T1), and the statement shapes
of Style.render, Style._make_ansi_codes (memo test) and Console._render_buffer (T3 call-site facts)
-> coq/gen/AnsiFacts.v.  Fail closed: any shape not listed here raises Untranslatable."""
import ast, sys

_m = sys.modules.get("__main__")
_run = _m if hasattr(_m, "GENERATORS") and hasattr(_m, "generator") else __import__("run")
generator, parse, find_class, find_func = _run.generator, _run.parse, _run.find_class, _run.find_func
Untranslatable, HEADER, strlit = _run.Untranslatable, _run.HEADER, _run.strlit


def _d(node):
    return ast.dump(node)


def _expr(src):
    return _d(ast.parse(src, mode="eval").body)


def _stmts(src):
    return [_d(s) for s in ast.parse(src).body]


def _body(fn):
    b = fn.body
    if b and isinstance(b[0], ast.Expr) and isinstance(b[0].value, ast.Constant) and isinstance(b[0].value.value, str):
        b = b[1:]
    return b


def _fstring(node, what):
    """JoinedStr -> (constant parts, hole expressions); parts has one more element than holes"""
    if not isinstance(node, ast.JoinedStr):
        raise Untranslatable(f"{what}: not an f-string")
    parts, holes, cur = [], [], ""
    for v in node.values:
        if isinstance(v, ast.Constant) and isinstance(v.value, str):
            cur += v.value
        elif isinstance(v, ast.FormattedValue) and v.conversion == -1 and v.format_spec is None:
            parts.append(cur)
            cur = ""
            holes.append(_d(v.value))
        else:
            raise Untranslatable(f"{what}: unsupported f-string component")
    parts.append(cur)
    return parts, holes


def _render(cls):
    fn = find_func(cls.body, "render")
    kwonly = [a.arg for a in fn.args.kwonlyargs]
    if [a.arg for a in fn.args.args] != ["self", "text"] or kwonly != ["color_system", "legacy_windows"]:
        raise Untranslatable("Style.render: unexpected signature")
    b = _body(fn)
    if len(b) != 5:
        raise Untranslatable("Style.render: expected 5 statements")
    if _d(b[0]) != _stmts("if not text or color_system is None:\n    return text")[0]:
        raise Untranslatable("Style.render: first guard changed")
    if _d(b[1]) != _stmts("attrs = self._make_ansi_codes(color_system)")[0]:
        raise Untranslatable("Style.render: attrs assignment changed")
    s2 = b[2]
    if not (isinstance(s2, ast.Assign) and isinstance(s2.targets[0], ast.Name) and s2.targets[0].id == "rendered" and isinstance(s2.value, ast.IfExp)
            and _d(s2.value.test) == _expr("attrs") and _d(s2.value.orelse) == _expr("text")):
        raise Untranslatable("Style.render: `rendered = f... if attrs else text` changed")
    sgr_parts, sgr_holes = _fstring(s2.value.body, "Style.render SGR f-string")
    if sgr_holes != [_expr("attrs"), _expr("text")]:
        raise Untranslatable("Style.render: SGR f-string holes are not {attrs}{text}")
    s3 = b[3]
    if not (isinstance(s3, ast.If) and not s3.orelse and _d(s3.test) == _expr("self._link and not legacy_windows")
            and len(s3.body) == 1 and isinstance(s3.body[0], ast.Assign)
            and isinstance(s3.body[0].targets[0], ast.Name) and s3.body[0].targets[0].id == "rendered"):
        raise Untranslatable("Style.render: link branch changed")
    link_parts, link_holes = _fstring(s3.body[0].value, "Style.render link f-string")
    if link_holes != [_expr("self._link_id"), _expr("self._link"), _expr("rendered")]:
        raise Untranslatable("Style.render: link f-string holes changed")
    if _d(b[4]) != _stmts("return rendered")[0]:
        raise Untranslatable("Style.render: does not return rendered")
    return sgr_parts, link_parts


def _memo_keyed(cls):
    """is the `_ansi` memo of _make_ansi_codes tested against the colour system?"""
    fn = find_func(cls.body, "_make_ansi_codes")
    if [a.arg for a in fn.args.args] != ["self", "color_system"]:
        raise Untranslatable("_make_ansi_codes: unexpected signature")
    b = _body(fn)
    if len(b) == 2 and isinstance(b[0], ast.If) and not b[0].orelse:
        if _d(b[0].test) == _expr("self._ansi is None") and _d(b[1]) == _stmts("return self._ansi")[0]:
            last = b[0].body[-1]
            if _d(last) != _stmts('self._ansi = ";".join(sgr)')[0]:
                raise Untranslatable("_make_ansi_codes: memo assignment changed")
            return False
    if len(b) == 3 and isinstance(b[1], ast.If) and not b[1].orelse:
        if (_d(b[0]) == _stmts("ansi = self._ansi")[0]
                and _d(b[1].test) == _expr("ansi is None or ansi[0] != color_system")
                and _d(b[1].body[-1]) == _stmts('self._ansi = ansi = (color_system, ";".join(sgr))')[0]
                and _d(b[2]) == _stmts("return ansi[1]")[0]):
            return True
    raise Untranslatable("_make_ansi_codes: memo test has an unknown shape")


def _memo_assign(fn, var, what):
    """the single `<var>._ansi = <rhs>` of a constructor-like method: 'carried' (self._ansi) or 'reset' (None)"""
    found = []
    for node in ast.walk(fn):
        if isinstance(node, ast.Call) and isinstance(node.func, ast.Attribute) and node.func.attr == "copy" \
                and _d(node.func.value) == _expr("self"):
            raise Untranslatable(f"{what}: built on self.copy() -- which slots it resets is not of a known shape")
        if isinstance(node, ast.Assign) and len(node.targets) == 1 and isinstance(node.targets[0], ast.Attribute) \
                and node.targets[0].attr == "_ansi":
            found.append(node)
    if len(found) != 1:
        raise Untranslatable(f"{what}: expected exactly one assignment to ._ansi, found {len(found)}")
    node = found[0]
    tgt = node.targets[0].value
    if not (isinstance(tgt, ast.Name) and tgt.id == var):
        raise Untranslatable(f"{what}: ._ansi assigned on an unexpected object")
    news = [n for n in ast.walk(fn) if isinstance(n, ast.Assign) and isinstance(n.targets[0], ast.Name)
            and n.targets[0].id == var]
    if len(news) != 1 or _d(news[0].value) != _expr("self.__new__(Style)"):
        raise Untranslatable(f"{what}: {var} is not created by self.__new__(Style)")
    if _d(node.value) == _expr("self._ansi"):
        return True
    if isinstance(node.value, ast.Constant) and node.value.value is None:
        return False
    raise Untranslatable(f"{what}: ._ansi assigned something else")


def _memo_carrying(cls):
    """(copy, update_link, without_color, __add__) -> does the derived style inherit `_ansi`?"""
    return (_memo_assign(find_func(cls.body, "copy"), "style", "Style.copy"),
            _memo_assign(find_func(cls.body, "update_link"), "style", "Style.update_link"),
            _memo_assign(find_func(cls.body, "without_color"), "style", "Style.without_color"),
            _memo_assign(find_func(cls.body, "__add__"), "new_style", "Style.__add__"))


_RENDER_CALL = "append(style.render(text, color_system=color_system, legacy_windows=legacy_windows))"


def _render_buffer(repo):
    tree, _ = parse(repo, "rich/console.py")
    fn = find_func(find_class(tree, "Console").body, "_render_buffer")
    b = _body(fn)
    dumps = [_d(s) for s in b]
    for need in ("color_system = self._color_system", "legacy_windows = self.legacy_windows",
                 "not_terminal = not self.is_terminal",
                 "if self.no_color and color_system:\n    buffer = Segment.remove_color(buffer)"):
        if _stmts(need)[0] not in dumps:
            raise Untranslatable(f"_render_buffer: statement `{need.splitlines()[0]}` not found")
    if dumps.index(_stmts("if self.no_color and color_system:\n    buffer = Segment.remove_color(buffer)")[0]) > \
            [i for i, s in enumerate(b) if isinstance(s, ast.For)][0]:
        raise Untranslatable("_render_buffer: colour removal after the loop")
    loops = [s for s in b if isinstance(s, ast.For)]
    if len(loops) != 1 or [getattr(e, "id", None) for e in getattr(loops[0].target, "elts", [])] != ["text", "style", "is_control"] or _d(loops[0].iter) != _expr("buffer"):
        raise Untranslatable("_render_buffer: loop header changed")
    body = [_d(s) for s in loops[0].body]
    asis = _stmts("if style:\n    " + _RENDER_CALL + "\nelif not (not_terminal and is_control):\n    append(text)")
    fixed = _stmts("if not_terminal and is_control:\n    continue\nif style:\n    " + _RENDER_CALL + "\nelse:\n    append(text)")
    if body == asis:
        return False
    if body == fixed:
        return True
    raise Untranslatable("_render_buffer: loop body has an unknown shape")


@generator("AnsiFacts.v")
def gen_ansi_facts(repo):
    tree, _ = parse(repo, "rich/style.py")
    cls = find_class(tree, "Style")
    sgr_parts, link_parts = _render(cls)
    keyed = _memo_keyed(cls)
    guard_first = _render_buffer(repo)
    carried = _memo_carrying(cls)
    out = HEADER
    out += "(* Style.render: f\"<0>{attrs}<1>{text}<2>\" *)\n"
    out += "Definition RENDER_SGR_PARTS : list (list Z) :=\n  [" + ";\n   ".join(strlit(p) for p in sgr_parts) + "].\n\n"
    out += "(* Style.render: f\"<0>{self._link_id}<1>{self._link}<2>{rendered}<3>\" *)\n"
    out += "Definition RENDER_LINK_PARTS : list (list Z) :=\n  [" + ";\n   ".join(strlit(p) for p in link_parts) + "].\n\n"
    out += "(* Style._make_ansi_codes reuses the `_ansi` memo only for the colour system it was computed for *)\n"
    out += f"Definition ANSI_MEMO_KEYED_BY_SYSTEM : bool := {'true' if keyed else 'false'}.\n\n"
    out += ("(* Console._render_buffer: `if not_terminal and is_control: continue` comes BEFORE `if style:`\n"
            "   (false: rich 9.10.0 as found, `if style: ... elif not (not_terminal and is_control): ...`);\n"
            "   also checked: style.render(text, color_system=color_system, legacy_windows=legacy_windows),\n"
            "   `if self.no_color and color_system: buffer = Segment.remove_color(buffer)` before the loop *)\n")
    out += f"Definition RENDER_BUFFER_CONTROL_GUARD_FIRST : bool := {'true' if guard_first else 'false'}.\n\n"
    out += ("(* does the style built by copy / update_link / without_color / __add__ (general branch) inherit the\n"
            "   `_ansi` memo of its source (`style._ansi = self._ansi`) or start empty (`= None`)? *)\n")
    for name, v in zip(("COPY", "UPDATE_LINK", "WITHOUT_COLOR", "ADD"), carried):
        out += f"Definition {name}_CARRIES_MEMO : bool := {'true' if v else 'false'}.\n"
    return out
