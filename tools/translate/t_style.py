"""Tie 1 for the style layer (C06; reused by C03/C19): Style._style_map, the `style_attributes`
dict literal inside Style.parse, the bit order of the 13 attributes (the `_Bit(n)` descriptors,
cross-checked against the weights in Style.__init__, the tests in Style.__str__ and the keyword
order of __init__), and the *documented* spellings: attribute names/aliases of
docs/source/style.rst and the colour names of docs/source/appendix/colors.rst.
rich is never imported."""
import ast, os, re, sys

_m = sys.modules.get("__main__")
_run = _m if hasattr(_m, "GENERATORS") and hasattr(_m, "generator") else __import__("run")
generator, parse, find_assign, find_class, find_func = (_run.generator, _run.parse, _run.find_assign,
                                                        _run.find_class, _run.find_func)
literal, Untranslatable, HEADER, zlit, strlit = _run.literal, _run.Untranslatable, _run.HEADER, _run.zlit, _run.strlit


def _bits(cls):
    """name -> bit number from the `name = _Bit(n)` class attributes"""
    bits = {}
    for node in cls.body:
        if (isinstance(node, ast.Assign) and len(node.targets) == 1 and isinstance(node.targets[0], ast.Name)
                and isinstance(node.value, ast.Call) and isinstance(node.value.func, ast.Name)
                and node.value.func.id == "_Bit"):
            if len(node.value.args) != 1 or node.value.keywords:
                raise Untranslatable("_Bit(...) with unexpected arguments")
            n = literal(node.value.args[0], "_Bit argument")
            if type(n) is not int:
                raise Untranslatable("_Bit argument is not an int")
            bits[node.targets[0].id] = n
    if sorted(bits.values()) != list(range(len(bits))) or not bits:
        raise Untranslatable("attribute bits are not 0..n-1")
    return bits


def _check_bit_descriptor(tree):
    """_Bit must still be: self.bit = 1 << bit_no;  __get__: set & bit ? attributes & bit != 0 : None"""
    src = ast.unparse(find_class(tree, "_Bit"))
    for frag in ("self.bit = 1 << bit_no", "if obj._set_attributes & self.bit:",
                 "return obj._attributes & self.bit != 0", "return None"):
        if frag not in src:
            raise Untranslatable(f"_Bit descriptor changed: {frag!r} not found")


def _init_weights(init, bits):
    """check that __init__ builds _set_attributes/_attributes as sums with weight 1<<bit for the
    keyword of that name; returns the keyword-only argument order."""
    kw = [a.arg for a in init.args.kwonlyargs]
    src = ast.unparse(init)
    for name, b in bits.items():
        w = 1 << b
        want_set = f"{name} is not None" if w == 1 else f"{name} is not None and {w}"
        want_att = f"{name} and {w} or 0"
        if want_set not in src:
            raise Untranslatable(f"__init__: `{want_set}` not found")
        if want_att not in src:
            raise Untranslatable(f"__init__: `{want_att}` not found")
    # exactly len(bits) summands in each of the two sums
    n_set = len(re.findall(r"\bis not None\b", src))
    # color/bgcolor `is None` tests are spelled `is None`, not `is not None`
    if n_set != len(bits):
        raise Untranslatable("__init__: number of `is not None` summands differs from the number of bits")
    if len(re.findall(r" or 0\b", src)) != len(bits):
        raise Untranslatable("__init__: number of `x and w or 0` summands differs from the number of bits")
    for frag in ("if self._set_attributes else 0",
                 "self._null = not (self._set_attributes or color or bgcolor or link)"):
        if frag not in src:
            raise Untranslatable(f"__init__: `{frag}` not found")
    return kw


def _str_order(fn, bits):
    """the order in which __str__ appends attribute words: [(bit, name)]"""
    order = []
    src = ast.unparse(fn)
    for m in re.finditer(r"append\('(\w+)' if self\.(\w+) else 'not (\w+)'\)", src):
        a, b, c = m.groups()
        if not (a == b == c) or a not in bits:
            raise Untranslatable(f"__str__: unexpected attribute append {m.group(0)!r}")
        order.append(a)
    if sorted(order) != sorted(bits):
        raise Untranslatable("__str__ does not append every attribute exactly once")
    # every append is guarded by `bits & (1 << bit)` (or `bits & 1` for bit 0) for the same name
    for name in order:
        b = bits[name]
        guard = "if bits & 1:" if b == 0 else f"if bits & 1 << {b}:"
        idx = src.find(f"append('{name}' if self.{name}")
        head = src[:idx].rstrip()
        if not head.endswith(guard):
            raise Untranslatable(f"__str__: append of {name} is not guarded by `{guard}`")
    return order


def _style_tables(repo):
    tree, _ = parse(repo, "rich/style.py")
    cls = find_class(tree, "Style")
    _check_bit_descriptor(tree)
    bits = _bits(cls)
    names_by_bit = [n for n, _ in sorted(bits.items(), key=lambda kv: kv[1])]
    # _style_map
    smap = None
    for node in cls.body:
        if isinstance(node, ast.Assign) and any(isinstance(t, ast.Name) and t.id == "_style_map" for t in node.targets):
            smap = literal(node.value, "_style_map")
    if not isinstance(smap, dict) or not all(type(k) is int and type(v) is str for k, v in smap.items()):
        raise Untranslatable("_style_map is not a {int: str} literal")
    if sorted(smap) != list(range(len(bits))):
        raise Untranslatable("_style_map keys are not the attribute bits")
    # style_attributes inside parse
    pf = find_func(cls.body, "parse")
    sattr = None
    for node in ast.walk(pf):
        if isinstance(node, ast.Assign) and any(isinstance(t, ast.Name) and t.id == "style_attributes" for t in node.targets):
            sattr = literal(node.value, "style_attributes")
    if not isinstance(sattr, dict) or not all(type(k) is str and type(v) is str for k, v in sattr.items()):
        raise Untranslatable("style_attributes is not a {str: str} literal")
    for k, v in sattr.items():
        if v not in bits:
            raise Untranslatable(f"style_attributes[{k!r}] = {v!r} is not an attribute")
    init = find_func(cls.body, "__init__")
    kw = _init_weights(init, bits)
    if [k for k in kw if k in bits] != names_by_bit:
        raise Untranslatable("keyword order of __init__ differs from the bit order")
    if [k for k in kw if k not in bits] != ["color", "bgcolor", "link"]:
        raise Untranslatable("__init__ keywords other than attributes are not color, bgcolor, link")
    order = _str_order(find_func(cls.body, "__str__"), bits)
    return bits, names_by_bit, smap, sattr, order


def _doc_attribute_spellings(repo):
    """attribute names and aliases documented in docs/source/style.rst:
         * ``"bold"`` or ``"b"`` for bold text.       * ``"blink2"`` for ...
       -> [(spelling, ...)] in document order, grouped per bullet"""
    path = os.path.join(repo, "docs/source/style.rst")
    with open(path, encoding="utf-8") as f:
        text = f.read()
    groups = []
    for line in text.splitlines():
        m = re.match(r"^\* (``\"[a-z0-9]+\"``(?: or ``\"[a-z0-9]+\"``)*) ", line)
        if m:
            groups.append(re.findall(r"``\"([a-z0-9]+)\"``", m.group(1)))
    if not groups:
        raise Untranslatable("docs/source/style.rst: no documented attribute bullets found")
    return groups


def _doc_colour_names(repo):
    """docs/source/appendix/colors.rst (a raw html rendering of a table): rows
       ... >      1 </span>|<span ...> "red"   </span>| ...   ->  [(name, number)]"""
    path = os.path.join(repo, "docs/source/appendix/colors.rst")
    with open(path, encoding="utf-8") as f:
        text = f.read()
    rows = re.findall(r'>\s*(\d+)\s*</span>[^<]*<span[^>]*>\s*"([a-z0-9_]+)"\s*</span>', text)
    if len(rows) < 100 or len(rows) != len(re.findall(r'"[a-z0-9_]+"\s*</span>', text)):
        raise Untranslatable(f"docs/source/appendix/colors.rst: table rows not recognised ({len(rows)})")
    return [(name, int(num)) for num, name in rows]


@generator("StyleTables.v")
def gen_style_tables(repo):
    bits, names_by_bit, smap, sattr, order = _style_tables(repo)
    out = [HEADER]
    out.append("(* number of style attributes (bits of Style._attributes / _set_attributes) *)\n")
    out.append(f"Definition N_ATTRS : Z := {len(bits)}.\n\n")
    out.append("(* attribute names in bit order: `name = _Bit(n)`; checked against the weights of the two sums\n"
               "   in Style.__init__ and against its keyword order *)\n")
    out.append("Definition ATTR_NAMES : list (list Z) :=\n  [" + ";\n   ".join(strlit(n) for n in names_by_bit) + "].\n\n")
    out.append("(* Style._style_map: bit -> SGR parameter *)\n")
    out.append("Definition STYLE_MAP : list (Z * list Z) :=\n  ["
               + ";\n   ".join(f"({k}, {strlit(smap[k])})" for k in sorted(smap)) + "].\n\n")
    out.append("(* the `style_attributes` dict literal of Style.parse: spelling -> bit of the attribute it names\n"
               "   (dict order) *)\n")
    out.append("Definition STYLE_ATTRIBUTES : list (list Z * Z) :=\n  ["
               + ";\n   ".join(f"({strlit(k)}, {bits[v]})" for k, v in sattr.items()) + "].\n\n")
    out.append("(* order in which Style.__str__ emits the attribute words (bit numbers) *)\n")
    out.append("Definition STR_ORDER : list Z := [" + "; ".join(str(bits[n]) for n in order) + "].\n\n")
    groups = _doc_attribute_spellings(repo)
    out.append("(* docs/source/style.rst: documented attribute spellings, one group per bullet *)\n")
    out.append("Definition DOC_ATTR_SPELLINGS : list (list (list Z)) :=\n  ["
               + ";\n   ".join("[" + "; ".join(strlit(s) for s in g) + "]" for g in groups) + "].\n\n")
    names = _doc_colour_names(repo)
    out.append("(* docs/source/appendix/colors.rst: documented colour names with their numbers *)\n")
    out.append("Definition DOC_COLOR_NAMES : list (list Z * Z) :=\n  ["
               + ";\n   ".join(f"({strlit(n)}, {k})" for n, k in names) + "].\n")
    return "".join(out)
