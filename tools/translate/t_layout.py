"""T3 facts for C09 / C01 (layout layer): the call chain of rich/measure.py that the model `Frames.measurement_get` /
`Layout.measure_opt` / `Layout.group_child` writes down by hand, read from the AST of the tree under check.

  GET_NONE_IS_CONSOLE_WIDTH   `_max_width = console.width if max_width is None else max_width`
  GET_GUARD_BELOW_ONE         `if _max_width < 1: return Measurement(0, 0)`
  GET_NORMALIZE_WITH_MAXIMUM  `get_console_width(console, _max_width).normalize().with_maximum(_max_width)` -- the clamp is
                              `with_maximum` and its argument is the RESOLVED width `_max_width`, not the raw argument
  GET_RETURNS_NORMALIZED      `return render_width.normalize()` after `if render_width.maximum < 1: return Measurement(0, 0)`
  GET_FALLBACK_ZERO_MAX       no __rich_measure__: `return Measurement(0, _max_width)`
  MR_EMPTY_IS_ZERO            measure_renderables: `if not renderables: return Measurement(0, 0)`

Each is a boolean; proofs/LayoutP.v pins all of them to `true` by reflexivity.  Fail closed."""
import ast, sys

_m = sys.modules.get("__main__")
_run = _m if hasattr(_m, "GENERATORS") and hasattr(_m, "generator") else __import__("run")
generator, parse, find_class, find_func = _run.generator, _run.parse, _run.find_class, _run.find_func
Untranslatable, HEADER = _run.Untranslatable, _run.HEADER


def _src(node):
    return ast.unparse(node).replace(" ", "").replace("\n", "")


def _is_meas(node, a, b):
    """Measurement(a, b) with the given argument sources"""
    return isinstance(node, ast.Call) and isinstance(node.func, ast.Name) and node.func.id == "Measurement" \
        and len(node.args) == 2 and not node.keywords and _src(node.args[0]) == a and _src(node.args[1]) == b


def _facts(repo):
    tree, _ = parse(repo, "rich/measure.py")
    get = find_func(find_class(tree, "Measurement").body, "get")
    args = [a.arg for a in get.args.args]
    if args[:4] != ["cls", "console", "renderable", "max_width"]:
        raise Untranslatable("Measurement.get: unexpected signature %r" % args)
    none_cw = guard = chain = ret_norm = fallback = False
    for node in ast.walk(get):
        if isinstance(node, ast.Assign) and len(node.targets) == 1 and _src(node.targets[0]) == "_max_width":
            none_cw = _src(node.value) == "console.widthifmax_widthisNoneelsemax_width"
        if isinstance(node, ast.If) and _src(node.test) == "_max_width<1":
            guard = len(node.body) == 1 and isinstance(node.body[0], ast.Return) and _is_meas(node.body[0].value, "0", "0")
        if isinstance(node, ast.Assign) and len(node.targets) == 1 and _src(node.targets[0]) == "render_width":
            chain = _src(node.value) == "get_console_width(console,_max_width).normalize().with_maximum(_max_width)"
        if isinstance(node, ast.If) and _src(node.test) == "get_console_widthisnotNone":
            body = node.body
            ok = len(body) == 3 and isinstance(body[1], ast.If) and _src(body[1].test) == "render_width.maximum<1" \
                and len(body[1].body) == 1 and isinstance(body[1].body[0], ast.Return) \
                and _is_meas(body[1].body[0].value, "0", "0") \
                and isinstance(body[2], ast.Return) and _src(body[2].value) == "render_width.normalize()"
            ret_norm = ok
            orelse = node.orelse
            fallback = len(orelse) == 1 and isinstance(orelse[0], ast.Return) and _is_meas(orelse[0].value, "0", "_max_width")
    mr = None
    for node in tree.body:
        if isinstance(node, ast.FunctionDef) and node.name == "measure_renderables":
            mr = node
    if mr is None:
        raise Untranslatable("measure_renderables not found")
    stmts = [s for s in mr.body if not (isinstance(s, ast.Expr) and isinstance(s.value, ast.Constant))]
    empty = bool(stmts) and isinstance(stmts[0], ast.If) and _src(stmts[0].test) == "notrenderables" \
        and len(stmts[0].body) == 1 and isinstance(stmts[0].body[0], ast.Return) and _is_meas(stmts[0].body[0].value, "0", "0")
    return [("GET_NONE_IS_CONSOLE_WIDTH", none_cw), ("GET_GUARD_BELOW_ONE", guard),
            ("GET_NORMALIZE_WITH_MAXIMUM", chain), ("GET_RETURNS_NORMALIZED", ret_norm),
            ("GET_FALLBACK_ZERO_MAX", fallback), ("MR_EMPTY_IS_ZERO", empty)]


@generator("MeasureFacts.v")
def gen_measure_facts(repo):
    text = HEADER + "(* T3 facts about rich/measure.py: see tools/translate/t_layout.py; true = the source still has the shape the\n   hand model of Measurement.get / measure_renderables writes down *)\n"
    for name, val in _facts(repo):
        text += f"Definition {name} : bool := {'true' if val else 'false'}.\n"
    return text
