"""Tie 1 for the frames layer (C08): every Box(...) literal of box.py with its ascii flag and
LEGACY_WINDOWS_SUBSTITUTIONS, the guide tuples inside Tree.__rich_console__, the block elements of
bar.py, PULSE_SIZE and the bar characters of progress_bar.py  ->  gen/FrameBoxes.v.
rich is never imported."""
import ast, sys

_m = sys.modules.get("__main__")
_run = _m if hasattr(_m, "GENERATORS") and hasattr(_m, "generator") else __import__("run")
generator, parse, find_assign, find_class, find_func = _run.generator, _run.parse, _run.find_assign, _run.find_class, _run.find_func
literal, Untranslatable, HEADER, zlit, strlit = _run.literal, _run.Untranslatable, _run.HEADER, _run.zlit, _run.strlit


def _strs(l):
    return "[" + "; ".join(strlit(s) for s in l) + "]"


def _boxes(tree):
    """-> list of (name, [8 strings of 4 chars], ascii flag) in source order"""
    out = []
    for node in tree.body:
        val = None
        if isinstance(node, ast.AnnAssign) and isinstance(node.target, ast.Name):
            name, val = node.target.id, node.value
        elif isinstance(node, ast.Assign) and len(node.targets) == 1 and isinstance(node.targets[0], ast.Name):
            name, val = node.targets[0].id, node.value
        if not (isinstance(val, ast.Call) and isinstance(val.func, ast.Name) and val.func.id == "Box"):
            continue
        if len(val.args) != 1:
            raise Untranslatable(f"box {name}: expected one positional argument")
        text = literal(val.args[0], f"box {name}")
        flag = False
        for kw in val.keywords:
            if kw.arg != "ascii":
                raise Untranslatable(f"box {name}: unknown keyword {kw.arg}")
            flag = literal(kw.value, f"box {name} ascii")
            if not isinstance(flag, bool):
                raise Untranslatable(f"box {name}: ascii flag is not a bool")
        if not isinstance(text, str):
            raise Untranslatable(f"box {name}: not a string")
        lines = text.splitlines()
        if len(lines) != 8 or any(len(l) != 4 for l in lines):
            raise Untranslatable(f"box {name}: not 8 lines of 4 characters")
        out.append((name, lines, flag))
    if not out:
        raise Untranslatable("no Box(...) literal found")
    return out


def _check_box_class(tree):
    """the field layout Box.__init__ unpacks and the substitute() logic the model hard-codes"""
    cls = find_class(tree, "Box")
    src = ast.unparse(find_func(cls.body, "__init__"))
    src = src.replace("(", "").replace(")", "")
    for need in ("self.top_left, self.top, self.top_divider, self.top_right = iterline1",
                 "self.mid_left, _, self.mid_vertical, self.mid_right = iterline4",
                 "self.bottom_left, self.bottom, self.bottom_divider, self.bottom_right = iterline8"):
        if need not in src:
            raise Untranslatable("Box.__init__ field layout changed: " + need)
    sub = ast.unparse(find_func(cls.body, "substitute")).replace("(", "").replace(")", "")
    for need in ("if options.legacy_windows and safe:", "box = LEGACY_WINDOWS_SUBSTITUTIONS.getbox, box",
                 "if options.ascii_only and not box.ascii:", "box = ASCII"):
        if need not in sub:
            raise Untranslatable("Box.substitute changed: " + need)


def _const_str_ifexp(node, what):
    """`A if ascii else B` with string constants -> (ascii variant, normal variant)"""
    if (isinstance(node, ast.IfExp) and isinstance(node.test, ast.Name) and node.test.id == "ascii"
            and isinstance(node.body, ast.Constant) and isinstance(node.orelse, ast.Constant)
            and isinstance(node.body.value, str) and isinstance(node.orelse.value, str)):
        return node.body.value, node.orelse.value
    raise Untranslatable(f"{what}: not `<str> if ascii else <str>`")


def _local_assign(func, name):
    for node in ast.walk(func):
        if isinstance(node, ast.Assign) and len(node.targets) == 1 and isinstance(node.targets[0], ast.Name) \
                and node.targets[0].id == name:
            return node.value
    raise Untranslatable(f"no assignment to {name} in {func.name}")


@generator("FrameBoxes.v")
def gen_frame_boxes(repo):
    out = [HEADER]
    # ---- box.py
    tree, _ = parse(repo, "rich/box.py")
    _check_box_class(tree)
    boxes = _boxes(tree)
    names = [b[0] for b in boxes]
    out.append("(* boxes in source order: " + " ".join(f"{i}={n}" for i, n in enumerate(names)) + " *)\n")
    out.append("Definition BOXES : list (list (list Z)) :=\n  [" +
               ";\n   ".join(_strs(lines) for _, lines, _ in boxes) + "].\n\n")
    out.append("Definition BOX_ASCII : list bool :=\n  [" +
               "; ".join("true" if f else "false" for _, _, f in boxes) + "].\n\n")
    if "ASCII" not in names or "ROUNDED" not in names:
        raise Untranslatable("boxes ASCII / ROUNDED missing")
    out.append(f"Definition BOX_ASCII_INDEX : Z := {names.index('ASCII')}.\n")
    out.append(f"Definition BOX_ROUNDED_INDEX : Z := {names.index('ROUNDED')}.\n\n")
    node = find_assign(tree, "LEGACY_WINDOWS_SUBSTITUTIONS")
    if not isinstance(node, ast.Dict):
        raise Untranslatable("LEGACY_WINDOWS_SUBSTITUTIONS is not a dict literal")
    pairs = []
    for k, v in zip(node.keys, node.values):
        if not (isinstance(k, ast.Name) and isinstance(v, ast.Name) and k.id in names and v.id in names):
            raise Untranslatable("LEGACY_WINDOWS_SUBSTITUTIONS entry is not Box name -> Box name")
        pairs.append((names.index(k.id), names.index(v.id)))
    out.append("Definition LEGACY_WINDOWS_SUBST : list (Z * Z) :=\n  [" +
               "; ".join(f"({a}, {b})" for a, b in pairs) + "].\n\n")
    # ---- tree.py guides
    ttree, _ = parse(repo, "rich/tree.py")
    fn = find_func(find_class(ttree, "Tree").body, "__rich_console__")
    ascii_guides = literal(_local_assign(fn, "ASCII_GUIDES"), "ASCII_GUIDES")
    tree_guides = literal(_local_assign(fn, "TREE_GUIDES"), "TREE_GUIDES")
    if not (isinstance(ascii_guides, tuple) and len(ascii_guides) == 4 and all(isinstance(s, str) for s in ascii_guides)):
        raise Untranslatable("ASCII_GUIDES is not a 4-tuple of strings")
    if not (isinstance(tree_guides, list) and len(tree_guides) == 3 and
            all(isinstance(t, tuple) and len(t) == 4 and all(isinstance(s, str) for s in t) for t in tree_guides)):
        raise Untranslatable("TREE_GUIDES is not a list of three 4-tuples of strings")
    src = ast.unparse(fn).replace("(", "").replace(")", "")
    for need in ("SPACE, CONTINUE, FORK, END = range4",
                 "guide = 1 if style.bold else 2 if style.underline2 else 0",
                 "line = TREE_GUIDES[0 if options.legacy_windows else guide][index]"):
        if need not in src:
            raise Untranslatable("Tree.make_guide changed: " + need)
    out.append(f"Definition ASCII_GUIDES : list (list Z) := {_strs(ascii_guides)}.\n")
    out.append("Definition TREE_GUIDES : list (list (list Z)) :=\n  [" +
               ";\n   ".join(_strs(t) for t in tree_guides) + "].\n\n")
    # ---- bar.py
    btree, _ = parse(repo, "rich/bar.py")
    for name in ("BEGIN_BLOCK_ELEMENTS", "END_BLOCK_ELEMENTS"):
        val = literal(find_assign(btree, name), name)
        if not (isinstance(val, list) and len(val) == 8 and all(isinstance(s, str) for s in val)):
            raise Untranslatable(f"{name} is not a list of 8 strings")
        out.append(f"Definition {name} : list (list Z) := {_strs(val)}.\n")
    fb = literal(find_assign(btree, "FULL_BLOCK"), "FULL_BLOCK")
    if not isinstance(fb, str):
        raise Untranslatable("FULL_BLOCK is not a string")
    out.append(f"Definition FULL_BLOCK : list Z := {strlit(fb)}.\n\n")
    # ---- progress_bar.py
    ptree, _ = parse(repo, "rich/progress_bar.py")
    ps = literal(find_assign(ptree, "PULSE_SIZE"), "PULSE_SIZE")
    if type(ps) is not int:
        raise Untranslatable("PULSE_SIZE is not an int")
    out.append(f"Definition PULSE_SIZE : Z := {zlit(ps)}.\n")
    pfn = find_func(find_class(ptree, "ProgressBar").body, "__rich_console__")
    for py, coq in (("bar", "PBAR_BAR"), ("half_bar_right", "PBAR_HALF_RIGHT"), ("half_bar_left", "PBAR_HALF_LEFT")):
        a, n = _const_str_ifexp(_local_assign(pfn, py), py)
        out.append(f"Definition {coq}_ASCII : list Z := {strlit(a)}.\nDefinition {coq} : list Z := {strlit(n)}.\n")
    gfn = find_func(find_class(ptree, "ProgressBar").body, "_get_pulse_segments")
    a, n = _const_str_ifexp(_local_assign(gfn, "bar"), "pulse bar")
    out.append(f"Definition PULSE_BAR_ASCII : list Z := {strlit(a)}.\nDefinition PULSE_BAR : list Z := {strlit(n)}.\n")
    return "".join(out)


@generator("FrameFacts.v")
def gen_frame_facts(repo):
    """T3: the width rule of Console.print -- the `width=` keyword of its options.update(...) call and the arguments of
    the final crop -- as booleans the model branches on"""
    tree, _ = parse(repo, "rich/console.py")
    fn = find_func(find_class(tree, "Console").body, "print")
    width_expr = None
    crop_args = None
    for node in ast.walk(fn):
        if isinstance(node, ast.Call) and isinstance(node.func, ast.Attribute) and node.func.attr == "update" \
                and ast.unparse(node.func.value) == "self.options":
            for kw in node.keywords:
                if kw.arg == "width":
                    width_expr = ast.unparse(kw.value)
        if isinstance(node, ast.Call) and isinstance(node.func, ast.Attribute) and node.func.attr == "split_and_crop_lines":
            crop_args = [ast.unparse(a) for a in node.args] + [f"{k.arg}={ast.unparse(k.value)}" for k in node.keywords]
    if width_expr is None:
        raise Untranslatable("Console.print: no self.options.update(width=...) call")
    if crop_args is None:
        raise Untranslatable("Console.print: no split_and_crop_lines call")
    rule_ok = width_expr == "min(width, self.width) if width else None"
    crop_ok = crop_args == ["new_segments", "self.width", "pad=False"]
    out = [HEADER]
    out.append(f"(* Console.print: options.update(width={width_expr}) ; split_and_crop_lines({', '.join(crop_args)}) *)\n")
    out.append("Definition PRINT_WIDTH_IS_MIN_OR_NONE : bool := %s.\n" % ("true" if rule_ok else "false"))
    out.append("Definition PRINT_CROPS_AT_CONSOLE_WIDTH : bool := %s.\n" % ("true" if crop_ok else "false"))
    return "".join(out)
