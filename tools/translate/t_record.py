"""T1/T3 for C15 (record / capture / export): coq/gen/RecordFacts.v

T1 data (rich is never imported; everything is read from the AST):
  CONSOLE_HTML_FORMAT_src   the str.format template of export_html (code points)
  HTML_FG_HEX / HTML_BG_HEX '#rrggbb' of DEFAULT_TERMINAL_THEME fore/background
  HTML_ESCAPE_CHAIN         the chain of single-character str.replace calls of export_html's local
                            `escape`, in application order
  BELL_CODE, CLEAR_HOME, CLEAR_NOHOME, CURSOR_SHOW, CURSOR_HIDE
                            the control strings passed to Console.control by bell/clear/show_cursor
T3 call-site facts (booleans the model of model/Record.v branches on):
  print_crop_pad / log_crop_pad        the `pad=` keyword of split_and_crop_lines in print / log
  simplify_keeps_control               Segment.simplify refuses to merge when the *accumulated*
                                       segment is a control segment (DESIGN D12: absent in 9.10.0)
  render_control_test_first            Console._render_buffer tests `not_terminal and is_control` before `if style:`
                                       (so a styled control segment is dropped on a non-terminal too); false =
                                       rich 9.10.0 as found, where the test only guarded the unstyled branch
  href_is_escaped                      export_html passes style.link through an escaping call before
                                       putting it into href="..." (absent in 9.10.0)
The facts are derived from the BEHAVIOUR of the statement blocks (a tiny symbolic executor: outcome per truth
assignment of the named conditions, aliases resolved), not from their layout; what the executor does not
understand is Untranslatable (fail closed).
"""
import ast, sys

_m = sys.modules.get("__main__")
_run = _m if hasattr(_m, "GENERATORS") and hasattr(_m, "generator") else __import__("run")
generator, parse, find_class, find_func = _run.generator, _run.parse, _run.find_class, _run.find_func
find_assign, Untranslatable, HEADER, strlit, literal = (_run.find_assign, _run.Untranslatable, _run.HEADER,
                                                        _run.strlit, _run.literal)


def _const_str(node, what):
    if isinstance(node, ast.Constant) and isinstance(node.value, str):
        return node.value
    raise Untranslatable(f"{what}: not a string constant")


# ------------------------------------------------------------------ a tiny symbolic executor
# Facts are read off the BEHAVIOUR of small statement blocks (outcome per truth assignment of a few named
# conditions), not off their layout: local single-assignment aliases are resolved, `if not c: A else: B`,
# elif chains, early `continue`/`return`, conditional expressions and reordered conjunctions all evaluate
# to the same table.  Anything the executor does not understand is Untranslatable (fail closed).
import copy


def _names(t):
    if isinstance(t, ast.Name):
        return [t.id]
    if isinstance(t, (ast.Tuple, ast.List)):
        return [n for e in t.elts for n in _names(e)]
    return []


_ALIAS_OK = (ast.Attribute, ast.Name, ast.UnaryOp, ast.BoolOp, ast.Compare, ast.Call, ast.IfExp)


def _aliases(fn):
    """local names assigned exactly once to a side-effect-free expression (append = output.append, ...)"""
    params = {a.arg for a in fn.args.args + fn.args.kwonlyargs}
    counts, vals = {}, {}
    for n in ast.walk(fn):
        if isinstance(n, ast.Assign):
            for t in n.targets:
                for nm in _names(t):
                    counts[nm] = counts.get(nm, 0) + 1
                if isinstance(t, ast.Name):
                    vals[t.id] = n.value
        elif isinstance(n, ast.AnnAssign) and isinstance(n.target, ast.Name):
            counts[n.target.id] = counts.get(n.target.id, 0) + 1
            vals[n.target.id] = n.value
        elif isinstance(n, ast.AugAssign):
            for nm in _names(n.target):
                counts[nm] = counts.get(nm, 0) + 2
        elif isinstance(n, (ast.For, ast.comprehension)):
            for nm in _names(n.target):
                counts[nm] = counts.get(nm, 0) + 2
    out = {}
    for k, v in vals.items():
        if counts.get(k) == 1 and k not in params and v is not None and (
                isinstance(v, _ALIAS_OK) or (isinstance(v, ast.Constant) and isinstance(v.value, str))):
            out[k] = v
    return out


class _Subst(ast.NodeTransformer):
    def __init__(self, al, depth=0):
        self.al, self.depth = al, depth

    def visit_Name(self, node):
        if isinstance(node.ctx, ast.Load) and node.id in self.al:
            if self.depth > 8:
                raise Untranslatable("alias resolution does not terminate")
            return _Subst(self.al, self.depth + 1).visit(copy.deepcopy(self.al[node.id]))
        return node


def _resolve(expr, al):
    return _Subst(al).visit(copy.deepcopy(expr))


def _cmp_key(a, b):
    return "==:" + "|".join(sorted([ast.unparse(a), ast.unparse(b)]))


def _ev(expr, env, what):
    """truth value of a condition under env (keys: source text of the atoms)"""
    if isinstance(expr, ast.Constant) and isinstance(expr.value, bool):
        return expr.value
    if isinstance(expr, ast.UnaryOp) and isinstance(expr.op, ast.Not):
        return not _ev(expr.operand, env, what)
    if isinstance(expr, ast.BoolOp):
        vals = [_ev(v, env, what) for v in expr.values]
        return all(vals) if isinstance(expr.op, ast.And) else any(vals)
    if isinstance(expr, ast.Compare) and len(expr.ops) == 1 and isinstance(expr.ops[0], (ast.Eq, ast.NotEq)):
        k = _cmp_key(expr.left, expr.comparators[0])
        if k in env:
            return env[k] if isinstance(expr.ops[0], ast.Eq) else not env[k]
    k = ast.unparse(expr)
    if k in env:
        return env[k]
    raise Untranslatable(f"{what}: cannot evaluate the condition `{k}`")


def _pick(expr, env, what):
    """resolve conditional expressions in a value"""
    while isinstance(expr, ast.IfExp):
        expr = expr.body if _ev(expr.test, env, what) else expr.orelse
    return expr


class _Stop(Exception):
    pass


def _exec(stmts, env, al, handler, what):
    """run a statement block under env; handler(stmt) -> True when it consumed the statement"""
    for st in stmts:
        if isinstance(st, ast.Expr) and isinstance(st.value, ast.Constant):
            continue                                   # docstring
        if isinstance(st, (ast.Pass, ast.Assert)):
            continue
        if isinstance(st, ast.If):
            branch = st.body if _ev(_resolve(st.test, al), env, what) else st.orelse
            _exec(branch, env, al, handler, what)
            continue
        if isinstance(st, (ast.Continue, ast.Return, ast.Break)):
            if isinstance(st, ast.Return) and st.value is not None:
                raise Untranslatable(f"{what}: return with a value inside the block")
            raise _Stop()
        if handler(st):
            continue
        if isinstance(st, (ast.Assign, ast.AnnAssign)):
            tg = st.targets if isinstance(st, ast.Assign) else [st.target]
            if all(isinstance(t, ast.Name) and t.id in al for t in tg):
                continue                               # definition of an alias
        raise Untranslatable(f"{what}: statement not understood: `{ast.unparse(st)[:60]}`")


def _run(stmts, env, al, handler, what):
    try:
        _exec(stmts, env, al, handler, what)
    except _Stop:
        pass


def _control_strings(fn, env):
    """the strings passed to self.control(...) when the method body runs under env"""
    al = _aliases(fn)
    got = []

    def handler(st):
        if (isinstance(st, ast.Expr) and isinstance(st.value, ast.Call)
                and ast.unparse(_resolve(st.value.func, al)) == "self.control"):
            c = st.value
            if len(c.args) != 1 or c.keywords:
                raise Untranslatable(f"{fn.name}: control() call with unexpected arguments")
            got.append(_const_str(_pick(_resolve(c.args[0], al), env, fn.name), fn.name))
            return True
        return False
    _run(fn.body, env, al, handler, fn.name)
    return got


def _first_param(fn):
    ps = [a.arg for a in fn.args.args if a.arg != "self"]
    if len(ps) != 1:
        raise Untranslatable(f"{fn.name}: expected exactly one parameter")
    return ps[0]


def _replace_chain(fdef, local_fns, depth=0):
    """[(old, new), ...] applied by a local one-argument function made of .replace calls / calls of such functions"""
    if depth > 4 or len(fdef.args.args) != 1:
        raise Untranslatable(f"{fdef.name}: not a one-argument replace chain")
    param = fdef.args.args[0].arg
    rets = [n for n in fdef.body if isinstance(n, ast.Return)]
    if len(rets) != 1 or len([n for n in fdef.body if not (isinstance(n, ast.Expr) and isinstance(n.value, ast.Constant))]) != 1:
        raise Untranslatable(f"{fdef.name}: expected a single return statement")

    def expand(node):
        if isinstance(node, ast.Name) and node.id == param:
            return []
        if (isinstance(node, ast.Call) and isinstance(node.func, ast.Attribute) and node.func.attr == "replace"
                and len(node.args) == 2 and not node.keywords):
            old, new = _const_str(node.args[0], fdef.name), _const_str(node.args[1], fdef.name)
            if len(old) != 1:
                raise Untranslatable(f"{fdef.name}: replaces a multi-character string")
            return expand(node.func.value) + [(old, new)]
        if (isinstance(node, ast.Call) and isinstance(node.func, ast.Name) and node.func.id in local_fns
                and len(node.args) == 1 and not node.keywords):
            return expand(node.args[0]) + _replace_chain(local_fns[node.func.id], local_fns, depth + 1)
        raise Untranslatable(f"{fdef.name}: not a chain of .replace(a, b)")
    return expand(rets[0].value)


def _sac_pad(fn):
    calls = [n for n in ast.walk(fn) if isinstance(n, ast.Call) and isinstance(n.func, ast.Attribute)
             and n.func.attr == "split_and_crop_lines"]
    if len(calls) != 1:
        raise Untranslatable(f"{fn.name}: expected exactly one split_and_crop_lines call, found {len(calls)}")
    c = calls[0]
    if len(c.args) != 2 or ast.unparse(_resolve(c.args[1], _aliases(fn))) != "self.width":
        raise Untranslatable(f"{fn.name}: split_and_crop_lines(new_segments, self.width, ...) expected")
    kws = {k.arg: k.value for k in c.keywords}
    if set(kws) - {"pad"}:
        raise Untranslatable(f"{fn.name}: unexpected keywords {sorted(kws)} at split_and_crop_lines")
    if "pad" not in kws:
        return True
    v = kws["pad"]
    if not (isinstance(v, ast.Constant) and isinstance(v.value, bool)):
        raise Untranslatable(f"{fn.name}: pad= is not a boolean constant")
    return v.value


def _b(x):
    return "true" if x else "false"


@generator("RecordFacts.v")
def gen_record_facts(repo):
    tree, _ = parse(repo, "rich/console.py")
    out = [HEADER]
    fmt = _const_str(find_assign(tree, "CONSOLE_HTML_FORMAT"), "CONSOLE_HTML_FORMAT")
    out.append(f"Definition CONSOLE_HTML_FORMAT_src : list Z :=\n  {strlit(fmt)}.\n\n")
    # theme colours
    ttree, _ = parse(repo, "rich/terminal_theme.py")
    node = find_assign(ttree, "DEFAULT_TERMINAL_THEME")
    if not (isinstance(node, ast.Call) and len(node.args) >= 2):
        raise Untranslatable("DEFAULT_TERMINAL_THEME is not TerminalTheme(bg, fg, ...)")
    bg = literal(node.args[0], "theme background")
    fg = literal(node.args[1], "theme foreground")
    for t in (bg, fg):
        if not (isinstance(t, tuple) and len(t) == 3 and all(type(x) is int and 0 <= x <= 255 for x in t)):
            raise Untranslatable("theme colour is not a byte triple")
    out.append(f"Definition HTML_FG_HEX : list Z := {strlit('#%02x%02x%02x' % fg)}.\n")
    out.append(f"Definition HTML_BG_HEX : list Z := {strlit('#%02x%02x%02x' % bg)}.\n\n")
    console = find_class(tree, "Console")
    # escape chain of export_html
    eh = find_func(console.body, "export_html")
    local_fns = {n.name: n for n in eh.body if isinstance(n, ast.FunctionDef)}
    if "escape" not in local_fns:
        raise Untranslatable("export_html: no local function `escape`")
    chain = _replace_chain(local_fns["escape"], local_fns)
    out.append("Definition HTML_ESCAPE_CHAIN : list (Z * list Z) :=\n  ["
               + "; ".join(f"({ord(o)}, {strlit(n)})" for o, n in chain) + "].\n\n")
    # every text that reaches the page goes through `escape` (both variants): the segment text is rebound to
    # escape(text) before it is formatted or appended
    # href: which replace chain does style.link go through before it is formatted into href="..."?
    hrefs = [n for n in ast.walk(eh) if isinstance(n, ast.JoinedStr)
             and any(isinstance(v, ast.Constant) and 'href="' in str(v.value) for v in n.values)]
    if len(hrefs) != 2:
        raise Untranslatable(f"export_html: expected two href=\"...\" f-strings, found {len(hrefs)}")
    assigned = {}
    for n in ast.walk(eh):
        if isinstance(n, ast.Assign) and len(n.targets) == 1 and isinstance(n.targets[0], ast.Name):
            assigned.setdefault(n.targets[0].id, set()).add(ast.unparse(n.value))
    escaped = []
    for js in hrefs:
        idx = [i for i, v in enumerate(js.values) if isinstance(v, ast.Constant) and 'href="' in str(v.value)]
        nxt = js.values[idx[0] + 1] if idx and idx[0] + 1 < len(js.values) else None
        if not (isinstance(nxt, ast.FormattedValue) and str(js.values[idx[0]].value).endswith('href="')):
            raise Untranslatable("export_html: href f-string has an unexpected shape")
        v = nxt.value
        if isinstance(v, ast.Name) and v.id in assigned:
            if len(assigned[v.id]) != 1:
                raise Untranslatable(f"export_html: `{v.id}` (the href value) is bound to different expressions")
            v = ast.parse(next(iter(assigned[v.id])), mode="eval").body
        if ast.unparse(v) == "style.link":
            lchain = []
        elif (isinstance(v, ast.Call) and isinstance(v.func, ast.Name) and v.func.id in local_fns
              and len(v.args) == 1 and not v.keywords and ast.unparse(v.args[0]) == "style.link"):
            lchain = _replace_chain(local_fns[v.func.id], local_fns)
        else:
            raise Untranslatable(f"export_html: href value is `{ast.unparse(v)}`")
        if lchain == []:
            escaped.append(False)
        elif lchain == chain + [('"', "&quot;")]:
            escaped.append(True)        # = attr_escape of model/Record.v
        else:
            raise Untranslatable(f"export_html: href value goes through the replace chain {lchain}")
    if escaped[0] != escaped[1]:
        raise Untranslatable("export_html: the two href sites differ")
    out.append(f"Definition href_is_escaped : bool := {_b(escaped[0])}.\n")
    # control strings: what bell / clear / show_cursor pass to self.control, per value of their flag
    bell = _control_strings(find_func(console.body, "bell"), {})
    if len(bell) != 1:
        raise Untranslatable("bell: expected exactly one control() call")
    out.append(f"Definition BELL_CODE : list Z := {strlit(bell[0])}.\n")
    cl_fn = find_func(console.body, "clear")
    p = _first_param(cl_fn)
    cl = {v: _control_strings(cl_fn, {p: v}) for v in (True, False)}
    if any(len(x) != 1 for x in cl.values()):
        raise Untranslatable("clear: expected exactly one control() call on every path")
    out.append(f"Definition CLEAR_HOME : list Z := {strlit(cl[True][0])}.\n"
               f"Definition CLEAR_NOHOME : list Z := {strlit(cl[False][0])}.\n")
    sc_fn = find_func(console.body, "show_cursor")
    p = _first_param(sc_fn)
    sc = {}
    for show in (True, False):
        for term in (True, False):
            for legacy in (True, False):
                got = _control_strings(sc_fn, {p: show, "self.is_terminal": term, "self.legacy_windows": legacy})
                if (len(got) == 1) != (term and not legacy) or len(got) > 1:
                    raise Untranslatable("show_cursor: does not emit exactly when `is_terminal and not legacy_windows`")
                if got:
                    sc.setdefault(show, set()).add(got[0])
    if any(len(sc.get(v, ())) != 1 for v in (True, False)):
        raise Untranslatable("show_cursor: the control string does not depend on `show` alone")
    out.append(f"Definition CURSOR_SHOW : list Z := {strlit(next(iter(sc[True])))}.\n"
               f"Definition CURSOR_HIDE : list Z := {strlit(next(iter(sc[False])))}.\n")
    # crop call sites
    out.append(f"Definition print_crop_pad : bool := {_b(_sac_pad(find_func(console.body, 'print')))}.\n")
    out.append(f"Definition log_crop_pad : bool := {_b(_sac_pad(find_func(console.body, 'log')))}.\n")
    # Segment.simplify: for which (styles equal, current is control, accumulated is control) does the loop merge?
    stree, _ = parse(repo, "rich/segment.py")
    simp = find_func(find_class(stree, "Segment").body, "simplify")
    sal = _aliases(simp)
    loops = [n for n in ast.walk(simp) if isinstance(n, ast.For)]
    if len(loops) != 1 or not isinstance(loops[0].target, ast.Name):
        raise Untranslatable("Segment.simplify: expected one  for <segment> in ...  loop")
    cur = loops[0].target.id
    acc = None
    for n in ast.walk(loops[0]):
        if (isinstance(n, ast.Assign) and len(n.targets) == 1 and isinstance(n.targets[0], ast.Name)
                and isinstance(n.value, ast.Call) and n.value.args and isinstance(n.value.args[0], ast.BinOp)
                and isinstance(n.value.args[0].op, ast.Add)):
            acc = n.targets[0].id
            merge_src = ast.unparse(_resolve(n.value, sal))
    if acc is None:
        raise Untranslatable("Segment.simplify: no merge assignment found")
    if merge_src != f"Segment({acc}.text + {cur}.text, {acc}.style)":
        raise Untranslatable(f"Segment.simplify: merged segment is `{merge_src}`")

    def simp_outcome(eq, cur_ctl, acc_ctl):
        env = {_cmp_key(ast.parse(f"{acc}.style", mode="eval").body, ast.parse(f"{cur}.style", mode="eval").body): eq,
               f"{cur}.is_control": cur_ctl, f"{acc}.is_control": acc_ctl}
        ev = []

        def handler(st):
            if isinstance(st, ast.Assign) and len(st.targets) == 1 and ast.unparse(st.targets[0]) == acc:
                ev.append("merge" if isinstance(st.value, ast.Call) else
                          ("shift" if ast.unparse(st.value) == cur else "?"))
                return True
            if isinstance(st, ast.Expr) and isinstance(st.value, ast.Yield) and ast.unparse(st.value.value) == acc:
                ev.append("yield")
                return True
            return False
        _run(loops[0].body, env, sal, handler, "Segment.simplify")
        if ev == ["merge"]:
            return True
        if ev == ["yield", "shift"]:
            return False
        raise Untranslatable(f"Segment.simplify: loop body does {ev}")
    table = {(e, a, b): simp_outcome(e, a, b) for e in (True, False) for a in (True, False) for b in (True, False)}
    if all(table[k] == (k[0] and not k[1] and not k[2]) for k in table):
        keeps = True
    elif all(table[k] == (k[0] and not k[1]) for k in table):
        keeps = False
    else:
        raise Untranslatable(f"Segment.simplify: merge table is {table}")
    out.append(f"Definition simplify_keeps_control : bool := {_b(keeps)}.\n")
    # Console._render_buffer: what the loop emits for a segment, per (style truthy, is_terminal, is_control)
    rb = find_func(console.body, "_render_buffer")
    ral = _aliases(rb)
    loops = [n for n in rb.body if isinstance(n, ast.For)]
    if (len(loops) != 1 or not isinstance(loops[0].target, ast.Tuple) or len(_names(loops[0].target)) != 3
            or ast.unparse(loops[0].iter) != "buffer"):
        raise Untranslatable("_render_buffer: expected one  for text, style, is_control in buffer  loop")
    tv, sv, cv = _names(loops[0].target)
    recs = [n for n in ast.walk(rb) if isinstance(n, ast.Call)
            and ast.unparse(n) == "self._record_buffer.extend(buffer)"]
    if len(recs) != 1 or recs[0].lineno >= loops[0].lineno:
        raise Untranslatable("_render_buffer: the record is not extended with the buffer before the loop")
    # NO_COLOR filter: `if self.no_color and color_system: buffer = Segment.remove_color(buffer)`, AFTER the record
    # was extended (the record keeps the unfiltered segments; remove_color returns a one-shot generator)
    filt = [n for n in rb.body if isinstance(n, ast.If) and any(
        isinstance(m, ast.Call) and ast.unparse(m.func).endswith("remove_color") for m in ast.walk(n))]
    if (len(filt) != 1 or filt[0].orelse or len(filt[0].body) != 1
            or ast.unparse(filt[0].body[0]) != "buffer = Segment.remove_color(buffer)"
            or {ast.unparse(v) for v in getattr(_resolve(filt[0].test, ral), "values", [])}
            != {"self.no_color", "self._color_system"}
            or not isinstance(_resolve(filt[0].test, ral).op, ast.And)):
        raise Untranslatable("_render_buffer: the NO_COLOR filter is not `if self.no_color and color_system: buffer = Segment.remove_color(buffer)`")
    if not (recs[0].lineno < filt[0].lineno < loops[0].lineno):
        raise Untranslatable("_render_buffer: the record is not extended BEFORE the NO_COLOR filter (it must keep the unfiltered buffer)")
    # Segment.remove_color: truthy style -> style.without_color, anything else -> None, text and control flag kept
    rc = find_func(find_class(stree, "Segment").body, "remove_color")
    rcl = [n for n in rc.body if isinstance(n, ast.For)]
    if len(rcl) != 1 or len(_names(rcl[0].target)) != 3:
        raise Untranslatable("Segment.remove_color: expected one  for text, style, is_control in segments  loop")
    rt, rs, rcv = _names(rcl[0].target)
    rcal = _aliases(rc)

    def rc_outcome(style):
        ev = []

        def handler(st):
            if isinstance(st, ast.Expr) and isinstance(st.value, ast.Yield):
                ev.append(ast.unparse(st.value.value))
                return True
            if isinstance(st, ast.Assign) and ast.unparse(st.targets[0]) in ("colorless_style", "cache[style]"):
                ev.append(ast.unparse(st))
                return True
            return False
        env = {rs: style, "colorless_style is None": True, "==:None|colorless_style": True}
        _run(rcl[0].body, env, {}, handler, "Segment.remove_color")
        return ev
    if rc_outcome(False) != [f"cls({rt}, None, {rcv})"]:
        raise Untranslatable(f"Segment.remove_color: falsy style -> {rc_outcome(False)}")
    got = rc_outcome(True)
    if not (got and got[-1] == f"cls({rt}, colorless_style, {rcv})" and f"colorless_style = {rs}.without_color" in got):
        raise Untranslatable(f"Segment.remove_color: truthy style -> {got}")

    def rb_outcome(style, term, ctl):
        env = {sv: style, cv: ctl, "self.is_terminal": term}
        ev = []

        def handler(st):
            if not (isinstance(st, ast.Expr) and isinstance(st.value, ast.Call)):
                return False
            f = _resolve(st.value.func, ral)
            if not (isinstance(f, ast.Attribute) and f.attr == "append" and len(st.value.args) == 1):
                return False
            a = _pick(_resolve(st.value.args[0], ral), env, "_render_buffer")
            if ast.unparse(a) == tv:
                ev.append("plain")
                return True
            if (isinstance(a, ast.Call) and ast.unparse(a.func) == f"{sv}.render" and [ast.unparse(x) for x in a.args] == [tv]
                    and {k.arg: ast.unparse(k.value) for k in a.keywords}
                    == {"color_system": "self._color_system", "legacy_windows": "self.legacy_windows"}):
                ev.append("styled")
                return True
            raise Untranslatable(f"_render_buffer: appends `{ast.unparse(a)[:60]}`")
        _run(loops[0].body, env, ral, handler, "_render_buffer")
        return tuple(ev)
    first = None
    for style in (True, False):
        for term in (True, False):
            for ctl in (True, False):
                got = rb_outcome(style, term, ctl)
                if not ((not term) and ctl):
                    want = ("styled",) if style else ("plain",)
                elif not style:
                    want = ()
                else:                                  # styled control segment off a terminal: the fact
                    if got == ():
                        first = True
                    elif got == ("styled",):
                        first = False
                    else:
                        raise Untranslatable(f"_render_buffer: styled control segment off a terminal -> {got}")
                    continue
                if got != want:
                    raise Untranslatable(f"_render_buffer: (style={style}, terminal={term}, control={ctl}) -> {got}")
    out.append(f"Definition render_control_test_first : bool := {_b(first)}.\n")
    return "".join(out)
